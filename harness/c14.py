'''C14: persisted environments survive crashes.

Implementation (valjean.cosette.env.Env.from_file/to_file/merge_done_tasks,
valjean.cambronne.common.read_env/write_env) vs the Coq model C14/Model.v
(a model of CPython's unpickler + from_file + read_env over a file-system map),
plus the property oracle evaluated on every real run:

  * every strict prefix of every written file (and any other unreadable file)
    makes from_file / read_env treat the task as not done: no exception, no entry;
  * intact DONE entries come back exactly; nothing else comes back.
'''
import copyreg
import dataclasses
import io
import json
import os
import pickle
import pickletools
import resource
import shutil
import signal
import struct
import sys

from vp import common
from vp.common import cz

IMPORTS = '''From Coq Require Import List ZArith NArith Uint63.
From VV Require Import Lib.Base C14.Model C14.Pack.
Import ListNotations.
Open Scope N_scope.
'''

FILENAME = 'valjean.env'

# exception classes distinguished by the model (C14/Model.v, [exn])
EXN = ['EOFError', 'UnpicklingError', 'AttributeError', 'ImportError', 'IndexError',
       'KeyError', 'TypeError', 'ValueError', 'OverflowError', 'MemoryError', 'OSError']
# classes a truncated / corrupted pickle makes the unpickler raise: a file raising
# one of them is "unreadable" in the sense of the property
UNREADABLE = set(EXN)


def exn_class(exc):
    '''model class of a real exception (by subclassing, never by message)'''
    if isinstance(exc, pickle.UnpicklingError):
        return 'UnpicklingError'
    for name, cls in (('EOFError', EOFError), ('AttributeError', AttributeError),
                      ('ImportError', ImportError), ('IndexError', IndexError),
                      ('KeyError', KeyError), ('TypeError', TypeError),
                      ('ValueError', ValueError), ('OverflowError', OverflowError),
                      ('MemoryError', MemoryError), ('OSError', OSError)):
        if isinstance(exc, cls):
            return name
    return 'Other'


def _raise(name):
    '''called from crafted pickles: raises the named exception inside pickle.load'''
    import builtins
    if name == 'UnpicklingError':
        raise pickle.UnpicklingError('crafted')
    if name == 'UnicodeDecodeError':
        raise UnicodeDecodeError('utf-8', b'\xff', 0, 1, 'crafted')
    raise getattr(builtins, name)('crafted')


@dataclasses.dataclass
class Point:
    '''a payload class outside the modelled value universe'''
    x: float
    y: object = None


# --------------------------------------------------------------------------
# value specs (JSON)  <->  Python objects  <->  canonical trees  <->  Coq terms

def build(spec, cache, mods):
    '''Python object for a spec; equal immutable leaves are shared (so that the
    pickler emits memo references), containers are always fresh.'''
    tag = spec[0]
    if tag == 'N':
        return None
    if tag == 'B':
        return bool(spec[1])
    if tag == 'I':
        return int(spec[1])
    if tag == 'F':
        return struct.unpack('>d', struct.pack('>Q', int(spec[1])))[0]
    if tag == 'S':
        return cache.setdefault(('S', spec[1]), spec[1])
    if tag == 'Y':
        val = bytes.fromhex(spec[1])
        return cache.setdefault(('Y', val), val)
    if tag == 'L':
        return [build(s, cache, mods) for s in spec[1]]
    if tag == 'T':
        return tuple(build(s, cache, mods) for s in spec[1])
    if tag == 'D':
        return {build(k, cache, mods): build(v, cache, mods) for k, v in spec[1]}
    if tag == 'ST':
        return mods['TaskStatus'](spec[1])
    if tag == 'E':
        return mods['Env']({cache.setdefault(('S', k), k): build(v, cache, mods)
                            for k, v in spec[1]})
    raise ValueError(spec)


def canon(obj):
    '''canonical tree of a Python object, objects described through their own
    __reduce_ex__ (nothing about Env's attributes is assumed here)'''
    if obj is None:
        return ('none',)
    if type(obj) is bool:
        return ('bool', obj)
    if type(obj) is int:
        return ('int', obj)
    if type(obj) is float:
        return ('float', struct.unpack('>Q', struct.pack('>d', obj))[0])
    if type(obj) is str:
        return ('str', obj.encode('utf-8', 'surrogatepass'))
    if type(obj) is bytes:
        return ('bytes', obj)
    if type(obj) is list:
        return ('list', [canon(x) for x in obj])
    if type(obj) is tuple:
        return ('tuple', [canon(x) for x in obj])
    if type(obj) is dict:
        return ('dict', [(canon(k), canon(v)) for k, v in obj.items()])
    if isinstance(obj, type):
        return ('global', obj.__module__.encode(), obj.__qualname__.encode())
    red = obj.__reduce_ex__(4)
    if red[0] is copyreg.__newobj__:
        state = red[2] if len(red) > 2 else None
        return ('obj', canon(red[1][0]), canon(tuple(red[1][1:])),
                None if state is None else canon(state))
    return ('reduce', canon(red[0]), canon(tuple(red[1])))


def cbytes(data):
    '''byte string as a Coq term: short ones as a list of numerals, longer ones
    packed 7 bytes per primitive integer (C14/Pack.v)'''
    data = bytes(data)
    if len(data) <= 7:
        return '[' + ';'.join(str(c) for c in data) + ']'
    words = [str(int.from_bytes(data[k:k + 7], 'little')) for k in range(0, len(data), 7)]
    return f'(up {len(data)} [' + ';'.join(words) + ']%uint63)'


def coqv(cv):
    tag = cv[0]
    if tag == 'none':
        return 'VNone'
    if tag == 'bool':
        return '(VBool true)' if cv[1] else '(VBool false)'
    if tag == 'int':
        return f'(VInt {cz(cv[1])})'
    if tag == 'float':
        return f'(VFloat {cv[1]})'
    if tag == 'str':
        return f'(VStr {cbytes(cv[1])})'
    if tag == 'bytes':
        return f'(VBytes {cbytes(cv[1])})'
    if tag == 'list':
        return '(VList [' + '; '.join(coqv(x) for x in cv[1]) + '])'
    if tag == 'tuple':
        return '(VTuple [' + '; '.join(coqv(x) for x in cv[1]) + '])'
    if tag == 'dict':
        return '(VDict ' + coq_items(cv[1]) + ')'
    if tag == 'global':
        return f'(VGlobal {cbytes(cv[1])} {cbytes(cv[2])})'
    if tag == 'obj':
        state = 'None' if cv[3] is None else f'(Some {coqv(cv[3])})'
        return f'(VObj {coqv(cv[1])} {coqv(cv[2])} {state})'
    if tag == 'reduce':
        return f'(VReduce {coqv(cv[1])} {coqv(cv[2])})'
    raise ValueError(cv)


def coq_items(items):
    return '[' + '; '.join(f'({coqv(k)}, {coqv(v)})' for k, v in items) + ']'


def cnl(nums):
    return '[' + ';'.join(str(int(n)) for n in nums) + ']'


# --------------------------------------------------------------------------
# generators

LEAVES = [['N'], ['B', True], ['B', False], ['I', 0], ['I', 1], ['I', -1], ['I', 255], ['I', 256],
          ['I', 65535], ['I', 65536], ['I', 2 ** 31 - 1], ['I', 2 ** 31], ['I', -2 ** 31],
          ['I', -2 ** 31 - 1], ['I', 2 ** 63], ['I', -2 ** 70], ['I', 127], ['I', 128], ['I', -128],
          ['I', -129], ['I', 2 ** 2040], ['I', 3],
          ['F', 0x3ff8000000000000], ['F', 0x7ff0000000000000], ['F', 0x7ff8000000000001],
          ['F', 0x8000000000000000], ['F', 0x0000000000000001], ['F', 0x400921fb54442d18],
          ['S', ''], ['S', 'abc'], ['S', 'status'], ['S', 'output_dir'], ['S', 'é€\U0001f600'],
          ['S', 'x' * 255], ['S', 'y' * 256], ['S', 'line\nbreak'],
          ['Y', ''], ['Y', '00ff80'], ['Y', '2e' * 3], ['Y', '61' * 256],
          ['ST', 1], ['ST', 2], ['ST', 3], ['ST', 4], ['ST', 5]]


def gen_value(rng, depth=0):
    r = rng.random()
    if depth >= 3 or r < 0.45:
        leaf = rng.choice(LEAVES)
        if leaf[0] == 'I' and rng.random() < 0.3:
            return ['I', rng.choice([1, -1]) * rng.getrandbits(rng.choice([3, 8, 16, 31, 32, 64, 90]))]
        if leaf[0] == 'F' and rng.random() < 0.5:
            return ['F', rng.getrandbits(64)]
        return leaf
    if r < 0.6:
        return ['L', [gen_value(rng, depth + 1) for _ in range(rng.choice([0, 1, 1, 2, 3, 5]))]]
    if r < 0.78:
        return ['T', [gen_value(rng, depth + 1) for _ in range(rng.choice([0, 1, 2, 3, 4, 6]))]]
    if r < 0.95:
        keys = []
        for _ in range(rng.choice([0, 1, 2, 3, 5])):
            k = rng.choice([['S', rng.choice(['a', 'b', 'c', 'status', 'ké'])],
                            ['I', rng.randint(5, 9)], ['T', [['I', 10], ['S', 'z']]],
                            ['Y', '6b'], ['N'], ['F', 0x4004000000000000]])
            if k not in keys:
                keys.append(k)
        return ['D', [[k, gen_value(rng, depth + 1)] for k in keys]]
    return ['E', [['inner', ['D', [[['S', 'status'], ['ST', rng.randint(1, 5)]]]]]]]


def gen_entry(rng, name, root, status=None, outdir='own', rich=True):
    items = [[['S', 'status'], ['ST', status or rng.choice([1, 2, 3, 3, 3, 4, 5])]]]
    if outdir == 'own':
        items.append([['S', 'output_dir'], ['S', f'{root}/{name}']])
    elif outdir is not None:
        items.append([['S', 'output_dir'], ['S', outdir]])
    if rich:
        for k in range(rng.choice([0, 1, 2, 3, 5])):
            items.append([['S', rng.choice(['result', 'start_clock', 'end_clock', 'elapsed_time',
                                            'return_codes', f'k{k}'])
                           + ('' if k == 0 else str(k))], gen_value(rng)])
        if rng.random() < 0.5:
            rng.shuffle(items)
    return ['D', items]


def gen_env_spec(rng, ntasks=None):
    ntasks = ntasks or rng.choice([1, 1, 1, 2, 3, 5, 8])
    return ['E', [[f't{i}', gen_entry(rng, f't{i}', '/out')] for i in range(ntasks)]]


def strip_frame(data):
    '''protocol >= 4 pickle without its (single) FRAME opcode'''
    if len(data) > 11 and data[2] == 0x95 and \
            struct.unpack('<Q', data[3:11])[0] == len(data) - 11:
        return data[:2] + data[11:]
    return None


def variant_bytes(obj, proto, variant):
    data = pickle.dumps(obj, protocol=proto)
    if variant == 'noframe':
        return strip_frame(data)
    if variant == 'optimize':
        return pickletools.optimize(data)
    if variant == 'optimize-noframe':
        return strip_frame(pickletools.optimize(data))
    return data


def other_payload(name, rng_seed):
    '''payloads outside the modelled universe (opcode-stream level only)'''
    import collections
    import datetime
    import decimal
    import fractions
    import random
    import numpy as np
    rng = random.Random(rng_seed)
    if name == 'ndarray':
        return np.arange(rng.randint(0, 12), dtype=rng.choice(['f8', 'i4', 'u1'])).reshape(-1)
    if name == 'ndarray2d':
        return np.ones((rng.randint(1, 3), rng.randint(1, 4)))
    if name == 'npscalar':
        return np.float64(rng.random())
    if name == 'dataclass':
        return Point(rng.random(), Point(1.0, [1, 2, {'a': None}]))
    if name == 'set':
        return {1, 2, 3, 'a', (1, 2)}
    if name == 'frozenset':
        return frozenset([1, 'b', None])
    if name == 'bytearray':
        return bytearray(rng.getrandbits(8) for _ in range(rng.randint(0, 20)))
    if name == 'complex':
        return complex(1.5, -2.0)
    if name == 'ordereddict':
        return collections.OrderedDict([('b', 1), ('a', [2])])
    if name == 'datetime':
        return datetime.datetime(2020, 2, 29, 12, 0, 1)
    if name == 'decimal':
        return [decimal.Decimal('1.25'), fractions.Fraction(3, 4)]
    if name == 'shared':
        lst = [1, 2]
        dct = {'a': lst, 'b': lst}
        dct['self'] = dct
        return dct
    if name == 'range':
        return [range(3), slice(1, 2), Ellipsis, NotImplemented, int, len]
    raise ValueError(name)


OTHER = ['ndarray', 'ndarray2d', 'npscalar', 'dataclass', 'set', 'frozenset', 'bytearray',
         'complex', 'ordereddict', 'datetime', 'decimal', 'shared', 'range']


# --------------------------------------------------------------------------
# running the implementation

def put_file(path, data):
    '''fresh file with this content (unlink first: re-truncating an existing
    file is two orders of magnitude slower on ext4)'''
    unlink_any(path)
    with open(path, 'wb') as fil:
        fil.write(data)


def unlink_any(path):
    '''remove whatever is at this path: file, (dangling or looping) symlink, directory tree'''
    if os.path.islink(path) or os.path.isfile(path):
        os.unlink(path)
    elif os.path.isdir(path):
        shutil.rmtree(path)
    elif os.path.lexists(path):
        os.unlink(path)


def repair_dir(path):
    '''a task directory that was replaced by a file or a symlink is cleared away (the
    next run of the task creates its directory again)'''
    if os.path.islink(path) or os.path.isfile(path):
        os.unlink(path)


class Limits:
    '''address-space limit + alarm while feeding corrupted files (a corrupted
    length can ask for gigabytes)'''

    def __enter__(self):
        self.old = resource.getrlimit(resource.RLIMIT_AS)
        try:
            resource.setrlimit(resource.RLIMIT_AS, (4 * 2 ** 30, self.old[1]))
        except (ValueError, OSError):
            pass
        # CPython reports "deallocated bytearray object has exported buffers" through
        # the unraisable hook when a huge read fails with MemoryError: not ours to print
        self.hook = sys.unraisablehook
        sys.unraisablehook = lambda *_args: None
        return self

    def __exit__(self, *exc):
        sys.unraisablehook = self.hook
        try:
            resource.setrlimit(resource.RLIMIT_AS, self.old)
        except (ValueError, OSError):
            pass


class Timeout(BaseException):
    pass


def _alarm(*_args):
    raise Timeout()


def call_from_file(mods, path):
    '''observation of Env.from_file: ('none',) | ('env', items) | ('other', type) | ('raise', class)'''
    try:
        res = mods['Env'].from_file(path)
    except Timeout:
        raise
    except BaseException as exc:  # noqa
        return ('raise', exn_class(exc), type(exc).__name__)
    if res is None:
        return ('none',)
    if isinstance(res, mods['Env']):
        return ('env', res)
    return ('other', type(res).__name__)


def load_class(data, use_file=True):
    '''class of what pickle.load does with a file holding these bytes (the
    file-object code path of the unpickler, as in Env.from_file: pickle.loads
    differs on a zero-length read at the end of the input)'''
    try:
        if use_file:
            pickle.load(io.BufferedReader(io.BytesIO(data)))
        else:
            pickle.load(io.BytesIO(data))
    except BaseException as exc:  # noqa
        return exn_class(exc)
    return 'ok'


def prefix_classes(ctx, data, offs, case):
    '''EOF offsets among offs; every other offset must be UnpicklingError'''
    eofs, bad = [], []
    for k in offs:
        cls = load_class(data[:k], use_file=(k % 2 == 1))
        if cls == 'EOFError':
            eofs.append(k)
        elif cls != 'UnpicklingError':
            bad.append((k, cls))
    return eofs, bad


def frame_offsets(data):
    '''offsets around the frame boundaries of a pickle (empty if it does not parse)'''
    offs = set()
    try:
        for opc, arg, pos in pickletools.genops(data):
            if opc.name == 'FRAME':
                for k in (pos - 1, pos, pos + 1, pos + 9, pos + 10, pos + 9 + arg - 1,
                          pos + 9 + arg, pos + 9 + arg + 1):
                    if 0 <= k < len(data):
                        offs.add(k)
            elif arg is not None and hasattr(arg, '__len__') and len(arg) > 60000:
                # an object written outside the frames: its header and both ends
                for k in (pos, pos + 1, pos + 5, pos + 9, pos + 10, pos + len(arg)):
                    if 0 <= k < len(data):
                        offs.add(k)
    except Exception:  # noqa
        pass
    return offs


def offsets_for(rng, n, limit, data=None):
    if n <= limit:
        return list(range(n)), []
    offs = set(range(min(32, n))) | set(range(max(0, n - 32), n))
    if data is not None:
        offs |= frame_offsets(data)
    offs |= set(rng.randrange(n) for _ in range(min(limit, 250)))
    offs = sorted(offs)
    return offs, offs


def feed_prefixes(ctx, mods, data, offs, case, path):
    '''oracle on the real from_file for the prefixes of a written file
    (the file is cut shorter and shorter)'''
    put_file(path, data)
    for k in sorted(offs, reverse=True):
        os.truncate(path, k)
        obs = call_from_file(mods, path)
        ctx.count('from_file_prefix')
        if obs[0] == 'raise':
            ctx.oracle_failure(f'Env.from_file raises {obs[2]} on a truncated environment file '
                               f':: first {k} of {len(data)} bytes of {json.dumps(case)[:300]}',
                               dict(case, offset=k), key='from_file-raises-' + obs[1])
            return False
        if obs[0] == 'env' and len(obs[1]) > 0:
            ctx.oracle_failure(f'Env.from_file returns entries from a truncated file '
                               f':: first {k} of {len(data)} bytes of {json.dumps(case)[:300]}',
                               dict(case, offset=k), key='from_file-partial-entry')
            return False
    return True


def scheduler_like_mutation(mods, env, rng):
    '''what a run does in memory to the environment it got from a read: statuses,
    payloads, clocks change, entries come and go'''
    status = mods['TaskStatus']
    for name in list(env):
        entry = env[name]
        r = rng.random()
        if r < 0.25:
            del env[name]
            continue
        if isinstance(entry, dict):
            entry['status'] = rng.choice([status.WAITING, status.PENDING, status.FAILED, status.SKIPPED])
            entry['start_clock'] = rng.random()
            entry['end_clock'] = 1.0 + rng.random()
            for key in list(entry):
                val = entry[key]
                if isinstance(val, list):
                    val.append('mutated')
                elif isinstance(val, dict):
                    val['mutated'] = True
                elif key not in ('status', 'output_dir') and rng.random() < 0.3:
                    del entry[key]
    env['made-up-by-the-run'] = {'status': status.DONE}


def toggle_same_size(spec, seed):
    '''an entry spec that pickles to the same number of bytes with other content:
    DONE <-> FAILED, and one letter of a string payload changed'''
    spec = json.loads(json.dumps(spec))
    if spec[0] != 'D':
        return spec
    for item in spec[1]:
        key, val = item
        if key == ['S', 'status'] and val[0] == 'ST':
            val[1] = 4 if val[1] == 3 else 3
        elif seed % 2 and val[0] == 'S' and key != ['S', 'output_dir'] and val[1][:1].isascii() \
                and val[1][:1].isalpha():
            val[1] = ('q' if val[1][0] != 'q' else 'r') + val[1][1:]
    return spec


def reread_checks(ctx, mods, case, path, obs, want):
    '''repeated reads in one process: what a read returns is the FILE, whatever
    happened in memory to the result of an earlier read, and whatever the size and
    time stamps of the file are'''
    import random
    if obs[0] != 'env':
        return
    rng = random.Random(len(json.dumps(case)))
    scheduler_like_mutation(mods, obs[1], rng)
    again = call_from_file(mods, path)
    ctx.count('from_file_reread_after_mutation')
    if again[0] != 'env' or canon(again[1]) != want:
        ctx.oracle_failure(f'a second Env.from_file of an unchanged file does not return what the file '
                           f'holds after the first result was modified in memory :: '
                           f'{json.dumps(case)[:300]}', case, key='from_file-reread')
        return
    # rewrite with other content of the same size, same time stamps
    spec2 = ['E', [[name, toggle_same_size(ent, 1)] for name, ent in case['env'][1]]]
    if spec2 == case['env']:
        return
    stat = os.stat(path)
    obj2 = build(spec2, {}, mods)
    obj2.to_file(path)
    if os.path.getsize(path) != stat.st_size:
        ctx.count('rewrite_other_size')
    else:
        ctx.count('rewrite_same_size_same_mtime')
        os.utime(path, ns=(stat.st_atime_ns, stat.st_mtime_ns))
    third = call_from_file(mods, path)
    if third[0] != 'env' or canon(third[1]) != canon(obj2):
        ctx.oracle_failure(f'Env.from_file does not return the content of a file rewritten with '
                           f'the same size and time stamps :: {json.dumps(case)[:300]}', case,
                           key='from_file-stale-after-rewrite')


def run_dec(ctx, mods, case, out):
    cache = {}
    obj = build(case['env'], cache, mods)
    data = variant_bytes(obj, case['proto'], case['variant'])
    if data is None:
        return False
    want = canon(obj)
    back = pickle.loads(data)
    got = canon(back)
    path = os.path.join(ctx.wd(), 'dec.env' if len(data) % 2 else '.dec [a]?*~#% é.env')
    # the real to_file / from_file round trip (default protocol)
    if case['variant'] == 'plain' and case['proto'] == pickle.DEFAULT_PROTOCOL:
        if os.path.exists(path):
            os.unlink(path)
        obj.to_file(path)
        if not os.path.isfile(path):
            ctx.oracle_failure(f'Env.to_file does not write the file [{case.get("envmode", "plain")}] '
                               f':: {json.dumps(case)[:300]}', case, key='to_file-no-file')
            return False
        with open(path, 'rb') as fil:
            written = fil.read()
        obs = call_from_file(mods, path)
        if obs[0] != 'env' or canon(obs[1]) != want:
            ctx.oracle_failure(f'to_file/from_file round trip does not return the environment '
                               f':: {json.dumps(case)[:300]}', case, key='roundtrip')
        data = written
    else:
        put_file(path, data)
        obs = call_from_file(mods, path)
        if obs[0] != 'env' or canon(obs[1]) != want:
            ctx.oracle_failure(f'from_file does not return the pickled environment '
                               f':: (protocol {case["proto"]}, {case["variant"]}) '
                               f'{json.dumps(case)[:300]}', case, key='roundtrip-variant')
    reread_checks(ctx, mods, case, path, obs, want)
    offs, explicit = offsets_for(ctx.rng, len(data), case.get('limit', 400 if ctx.tier == 'quick' else 700), data)
    eofs, bad = prefix_classes(ctx, data, offs, case)
    feed_prefixes(ctx, mods, data, offs, case, path)
    for k, cls in bad:
        ctx.mismatch(f'pickle.loads of the first {k} of {len(data)} bytes gives {cls}, the model says '
                     f'EOFError/UnpicklingError', dict(case, offset=k))
    ctx.count(f'dec_proto{case["proto"]}_{case["variant"]}')
    ctx.count('prefixes_compared', len(offs))
    out.append((case, f'CDec {cbytes(data)} {coqv(got)} {cnl(explicit)} {cnl(eofs)}'))
    return any(s[0] == 'D' and ['S', 'status'] in [kv[0] for kv in s[1]] for _, s in case['env'][1])


def run_scan(ctx, mods, case, out):
    if 'env' in case:
        obj = build(case['env'], {}, mods)
    else:
        obj = other_payload(case['payload'], case['pseed'])
        if case.get('wrap'):
            obj = mods['Env']({'t': {'status': mods['TaskStatus'].DONE, 'result': obj}})
    try:
        data = pickle.dumps(obj, protocol=case['proto'])
    except Exception:  # noqa  (some payloads need protocol >= 2)
        return False
    offs, explicit = offsets_for(ctx.rng, len(data), case.get('limit', 400 if ctx.tier == 'quick' else 700), data)
    eofs, bad = prefix_classes(ctx, data, offs, case)
    for k, cls in bad:
        ctx.mismatch(f'pickle.loads of the first {k} of {len(data)} bytes gives {cls}, the model says '
                     f'EOFError/UnpicklingError', dict(case, offset=k))
    if case.get('wrap') or 'env' in case:
        path = os.path.join(ctx.wd(), 'scan.env')
        feed_prefixes(ctx, mods, data, offs, case, path)
    ctx.count(f'scan_proto{case["proto"]}')
    ctx.count('prefixes_compared', len(offs))
    out.append((case, f'CScan {cbytes(data)} {cnl(explicit)} {cnl(eofs)}'))
    return True


NATURAL = {
    'EOFError': b'',
    'UnpicklingError': b'\x80\x04\x95',
    'AttributeError': b'cvaljean.cosette.env\nNoSuchClassAnywhere\n.',
    'ImportError': b'cno_such_module_c14\nX\n.',
    'ValueError': b'\x80\x7f.',
    'OverflowError': b'\x8e' + b'\xff' * 8 + b'.',
    'TypeError': b'N)R.',
    'IndexError': None,
    'KeyError': None,
    'MemoryError': None,
    'OSError': None,
}


OS_WITNESSES = ['enoent', 'eisdir', 'enotdir', 'eloop', 'eloop-dir', 'enametoolong', 'epathtoolong',
                'dangling-symlink', 'chmod-000', 'enoent-dir']


def os_witness(ctx, which):
    '''a path whose open() fails at the operating-system level'''
    base = os.path.join(ctx.wd(), 'oswitness')
    unlink_any(base)
    os.makedirs(base)
    path = os.path.join(base, 't0', FILENAME)
    os.makedirs(os.path.dirname(path))
    if which == 'enoent':
        pass
    elif which == 'enoent-dir':
        path = os.path.join(base, 'no-such-task', FILENAME)
    elif which == 'eisdir':
        os.makedirs(path)
    elif which == 'enotdir':
        os.rmdir(os.path.dirname(path))
        put_file(os.path.dirname(path), b'not a directory')
    elif which == 'eloop':
        os.symlink(path, path)
    elif which == 'eloop-dir':
        os.rmdir(os.path.dirname(path))
        os.symlink(os.path.dirname(path), os.path.dirname(path))
    elif which == 'enametoolong':
        path = os.path.join(base, 'n' * 300, FILENAME)
    elif which == 'epathtoolong':
        path = os.path.join(base, *(['d' * 200] * 25), FILENAME)
    elif which == 'dangling-symlink':
        os.symlink(os.path.join(base, 'nowhere'), path)
    elif which == 'chmod-000':
        put_file(path, pickle.dumps(None))
        os.chmod(path, 0)
    return base, path


def run_caught(ctx, mods, case, out):
    name = case['cls']
    if case['how'] == 'os':
        base, path = os_witness(ctx, case['which'])
        try:
            with open(path, 'rb'):
                err = None
        except OSError as exc:
            err = type(exc).__name__ + f'/errno {exc.errno}'
        obs = call_from_file(mods, path)
        unlink_any(base)
        ctx.count('caught_os_' + case['which'] + ('' if err else '_opens'))
        if obs[0] == 'raise':
            ctx.oracle_failure(f'Env.from_file raises {obs[2]} for an environment file that cannot be opened '
                               f':: {case["which"]}: open() fails with {err}, {json.dumps(case)}', case,
                               key='from_file-raises-' + obs[1])
        if err:
            out.append((case, f'CCaught XOSError {"false" if obs[0] == "raise" else "true"}'))
        return True
    path = os.path.join(ctx.wd(), 'caught.env')
    if case['how'] == 'natural':
        data = NATURAL[name]
        if name == 'OSError':
            put_file(path, b'')
            os.unlink(path)
            os.makedirs(path)                       # reading a directory: IsADirectoryError
        else:
            put_file(path, data)
            cls = load_class(data, False)
            if cls != name:
                ctx.count('natural_witness_changed_class')
                return False
    else:
        data = b'cc14\n_raise\n(V' + name.encode() + b'\ntR.'
        put_file(path, data)
    obs = call_from_file(mods, path)
    if os.path.isdir(path):
        shutil.rmtree(path)
    model_name = name if name in EXN else ('ValueError' if name == 'UnicodeDecodeError' else 'Other')
    ctx.count('caught_' + case['how'])
    if obs[0] == 'raise' and (model_name in UNREADABLE) and case['how'] == 'natural':
        ctx.oracle_failure(f'Env.from_file raises {obs[2]} on an unreadable environment file '
                           f':: {data!r} {json.dumps(case)}', case, key='from_file-raises-' + obs[1])
    elif obs[0] == 'raise' and model_name in ('EOFError', 'UnpicklingError'):
        ctx.oracle_failure(f'Env.from_file raises {obs[2]} (raised while unpickling) '
                           f':: {json.dumps(case)}', case, key='from_file-raises-' + obs[1])
    out.append((case, f'CCaught X{model_name} {"false" if obs[0] == "raise" else "true"}'))
    return True


def mutate(rng, data):
    data = bytearray(data)
    kind = rng.choice(['flip', 'flip', 'set', 'del', 'ins', 'dup', 'garbage', 'tail', 'zero'])
    if kind == 'flip':
        i = rng.randrange(len(data))
        data[i] ^= 1 << rng.randrange(8)
    elif kind == 'set':
        data[rng.randrange(len(data))] = rng.randrange(256)
    elif kind == 'del':
        i = rng.randrange(len(data))
        del data[i:i + rng.randint(1, 3)]
    elif kind == 'ins':
        i = rng.randrange(len(data))
        data[i:i] = bytes(rng.randrange(256) for _ in range(rng.randint(1, 3)))
    elif kind == 'dup':
        i = rng.randrange(len(data))
        j = rng.randrange(i, len(data))
        data[i:i] = data[i:j]
    elif kind == 'garbage':
        data = bytearray(rng.randrange(256) for _ in range(rng.randint(1, 40)))
    elif kind == 'tail':
        k = rng.randrange(len(data))
        data[k:] = bytes(rng.randrange(256) for _ in range(len(data) - k))
    else:
        k = rng.randrange(len(data))
        data[k:] = bytes(len(data) - k)
    return kind, bytes(data)


def run_corrupt(ctx, mods, case):
    '''oracle only: a corrupted file is either unreadable (None) or read as an
    environment; from_file never raises'''
    path = os.path.join(ctx.wd(), 'corrupt.env')
    data = bytes.fromhex(case['data'])
    put_file(path, data)
    # CPython writes "SystemError: deallocated bytearray object has exported buffers"
    # straight to fd 2 when a huge read fails with MemoryError: keep the run quiet
    sys.stderr.flush()
    saved = os.dup(2)
    devnull = os.open(os.devnull, os.O_WRONLY)
    os.dup2(devnull, 2)
    signal.alarm(10)
    try:
        obs = call_from_file(mods, path)
    except Timeout:
        ctx.count('corrupt_timeout')
        return False
    finally:
        signal.alarm(0)
        os.dup2(saved, 2)
        os.close(saved)
        os.close(devnull)
    ctx.count('corrupt_' + case['mut'])
    ctx.count('corrupt_outcome_' + obs[0] + ('_' + obs[1] if obs[0] == 'raise' else ''))
    if obs[0] == 'raise' and obs[1] in UNREADABLE:
        ctx.oracle_failure(f'Env.from_file raises {obs[2]} on a corrupted environment file '
                           f':: ({case["mut"]}) {json.dumps(case)[:400]}', case,
                           key='from_file-raises-' + obs[1])
    elif obs[0] == 'raise':
        ctx.count('corrupt_raises_unclassified_' + obs[2])
    elif obs[0] == 'other':
        ctx.oracle_failure(f'Env.from_file returns a {obs[1]} object from a corrupted file '
                           f':: {json.dumps(case)[:400]}', case, key='from_file-returns-non-env')
    return obs[0] == 'none'


# ---- large payloads ----------------------------------------------------------

def large_payload(kind, size, seed):
    '''payloads whose pickle has about `size` bytes: several frames, objects written
    outside the frames, more than 1 MiB'''
    import random
    import numpy as np
    rng = random.Random(seed)
    if kind == 'bytes':
        return rng.randbytes(size)
    if kind == 'zeros':
        return bytes(size)
    if kind == 'str':
        return ''.join(rng.choice('abcdefghij klmnop\u00e9') for _ in range(64)) * (size // 64)
    if kind == 'ints':
        return [rng.getrandbits(31) for _ in range(size // 5)]
    if kind == 'floats':
        return [rng.random() for _ in range(size // 9)]
    if kind == 'ndarray':
        return np.arange(size // 8, dtype='f8') * 0.5
    if kind == 'chunks':
        return {f'k{i}': rng.randbytes(70000) for i in range(max(1, size // 70000))}
    if kind == 'rows':
        return [(i, float(i), f'row{i}', None) for i in range(size // 18)]
    raise ValueError(kind)


def same_pickle(obj1, obj2):
    return pickle.dumps(obj1, protocol=4) == pickle.dumps(obj2, protocol=4)


def run_large(ctx, mods, case):
    '''oracle only: big entries through to_file/from_file and write_env/read_env,
    cut at the first and last 32 bytes, around the frame boundaries and at a few
    hundred random offsets'''
    import random
    from valjean.cambronne.common import read_env, write_env
    status = mods['TaskStatus']
    root = os.path.join(ctx.wd(), 'large')
    shutil.rmtree(root, ignore_errors=True)
    os.makedirs(os.path.join(root, 'big'))
    os.makedirs(os.path.join(root, 'small'))
    payload = large_payload(case['payload'], case['size'], case['seed'])

    def fresh():
        return mods['Env']({
            'big': {'status': status.DONE, 'output_dir': os.path.join(root, 'big'),
                    'result': large_payload(case['payload'], case['size'], case['seed'])},
            'small': {'status': status.DONE, 'output_dir': os.path.join(root, 'small'), 'result': [1, 2]}})
    env = fresh()
    del payload
    names = ['big', 'small']
    what = None
    try:
        write_env(env, filename=FILENAME, fmt='pickle')
        back = read_env(root=root, names=names, filename=FILENAME, fmt='pickle')
    except BaseException as exc:  # noqa
        ctx.oracle_failure(f'write_env/read_env of a large entry raises {type(exc).__name__} '
                           f':: {json.dumps(case)}', case, key='large-roundtrip-raises')
        return False
    if sorted(back) != names or not same_pickle(dict(back['big']), dict(env['big'])) \
            or not same_pickle(dict(back['small']), dict(env['small'])):
        ctx.oracle_failure(f'read_env does not return the large DONE entry that was written '
                           f':: {json.dumps(case)}', case, key='large-roundtrip-differs')
        return False
    path = os.path.join(root, 'big', FILENAME)
    with open(path, 'rb') as fil:
        data = fil.read()
    size = len(data)
    ctx.count('large_file_bytes', size)
    rng = random.Random(case['seed'])
    offs = set(range(min(32, size))) | set(range(max(0, size - 32), size)) | frame_offsets(data)
    offs |= set(rng.randrange(size) for _ in range(case.get('noffs', 250)))
    small_want = dict(env['small'])
    for k in sorted(offs, reverse=True):
        os.truncate(path, k)
        ctx.count('large_prefixes')
        obs = call_from_file(mods, path)
        if obs[0] == 'raise':
            what = f'Env.from_file raises {obs[2]} on a truncated large environment file'
            key = 'from_file-raises-' + obs[1]
        elif obs[0] == 'env' and len(obs[1]) > 0:
            what, key = 'Env.from_file returns entries from a truncated large file', 'from_file-partial-entry'
        else:
            try:
                res = read_env(root=root, names=names, filename=FILENAME, fmt='pickle')
            except BaseException as exc:  # noqa
                what = f'read_env raises {type(exc).__name__} with a truncated large environment file'
                key = 'read_env-raises-' + exn_class(exc)
            else:
                if 'big' in res:
                    what, key = 'read_env reports as DONE a task whose large file is truncated', \
                        'read_env-reports-done'
                elif list(res) != ['small'] or not same_pickle(dict(res['small']), small_want):
                    what, key = 'read_env loses the DONE entry of a task whose file is intact', \
                        'read_env-loses-done'
        if what:
            ctx.oracle_failure(f'{what} :: first {k} of {size} bytes, {json.dumps(case)}',
                               dict(case, offset=k), key=key)
            break
    shutil.rmtree(root, ignore_errors=True)
    return what is None


# ---- multi-process histories -------------------------------------------------

MP_KINDS = ['builtins', 'helper-plain', 'helper-dataclass', 'helper-enum', 'helper-namedtuple',
            'helper-nested', 'helper-slots', 'helper-listsub', 'helper-reduce', 'helper-function',
            'helper-submodule', 'dataset', 'dataset-nobins', 'testresult-equal', 'testresult-student',
            'ndarray', 'npscalar', 'stdlib']
MP_READERS = [{'api': 'read_env'}, {'api': 'from_file'},
              {'api': 'read_env', 'preimport': ['numpy']},
              {'api': 'read_env', 'preimport': ['valjean.eponine.dataset', 'decimal']},
              {'api': 'from_file', 'preimport': ['c14_job_pkg']}]


def gen_mp_case(rng, ncases, nreaders):
    cases = []
    for i in range(ncases):
        tasks = []
        for j in range(rng.choice([1, 2, 3, 4])):
            kinds = [MP_KINDS[(i * 5 + j * 3 + k) % len(MP_KINDS)] if k == 0 else rng.choice(MP_KINDS)
                     for k in range(rng.choice([1, 1, 2, 3]))]
            tasks.append({'name': f'task{j}', 'status': rng.choice([3, 3, 3, 3, 4, 1, 5]),
                          'outdir': rng.random() < 0.9,
                          'payloads': [[kind, rng.getrandbits(30)] for kind in kinds],
                          'fault': rng.choice(['none'] * 5 + ['cut', 'delete', 'empty']),
                          'frac': rng.random()})
        cases.append({'id': str(i), 'tasks': tasks})
    return {'kind': 'mp', 'cases': cases, 'readers': MP_READERS[:nreaders]}


def run_mp(ctx, mods, case):
    '''oracle only: the files are written by one interpreter and read by fresh ones that
    have imported only the reading API (plus, for some, part of what the payloads need)'''
    import subprocess
    import c14_child
    base = os.path.join(ctx.wd(), 'mp')
    shutil.rmtree(base, ignore_errors=True)
    jobdir = os.path.join(base, 'job')
    os.makedirs(jobdir)
    c14_child.make_helpers(jobdir)
    spec = {'filename': FILENAME, 'cases': []}
    for sub in case['cases']:
        spec['cases'].append(dict(sub, root=os.path.join(base, 'out' + sub['id'])))
    env = dict(os.environ, PYTHONPATH=common.REPO + os.pathsep + jobdir, PYTHONDONTWRITEBYTECODE='1')
    script = os.path.abspath(c14_child.__file__)

    def child(side, spec_, tag):
        spath, opath = os.path.join(base, tag + '.spec.json'), os.path.join(base, tag + '.out.json')
        with open(spath, 'w') as fil:
            json.dump(spec_, fil)
        proc = subprocess.Popen([sys.executable, '-W', 'ignore', script, side, spath, opath], env=env,
                                cwd=base, stdout=subprocess.PIPE, stderr=subprocess.STDOUT, text=True)
        return proc, opath

    def finish(proc, opath, what):
        try:
            log, _ = proc.communicate(timeout=300)
        except subprocess.TimeoutExpired:
            proc.kill()
            log = 'timeout'
        if proc.returncode != 0 or not os.path.exists(opath):
            ctx.oracle_failure(f'{what} process fails :: {log[-600:]}', case, key='mp-child-fails')
            return None
        with open(opath) as fil:
            return json.load(fil)

    written = finish(*child('write', spec, 'writer'), 'the writing')
    if written is None:
        return False
    # between the two runs: crashes cut, empty or remove some files
    intact = {}
    for sub in spec['cases']:
        for task in sub['tasks']:
            path = os.path.join(sub['root'], task['name'], FILENAME)
            ok = task['outdir'] and os.path.isfile(path)
            if task['outdir'] and not ok:
                ctx.oracle_failure(f'write_env (in its own process) does not write the file of a task '
                                   f'with an output directory :: {task}', case, key='write_env-missing-file')
            if ok and task['fault'] != 'none':
                if task['fault'] == 'delete':
                    os.unlink(path)
                else:
                    size = os.path.getsize(path)
                    os.truncate(path, 0 if task['fault'] == 'empty' else min(int(task['frac'] * size), size - 1))
                ok = False
                ctx.count('mp_fault_' + task['fault'])
            intact[(sub['id'], task['name'])] = ok
    procs = [(reader, child('read', dict(spec, **reader), f'reader{k}'))
             for k, reader in enumerate(case['readers'])]
    good = True
    for reader, (proc, opath) in procs:
        got = finish(proc, opath, f'the reading ({reader})')
        if got is None:
            good = False
            continue
        ctx.count('mp_reader_' + reader['api'] + ('_pre_' + '+'.join(reader['preimport'])
                                                  if reader.get('preimport') else ''))
        unexpected = [m for m in got['loaded_before'] if m not in
                      ('numpy', 'decimal', 'datetime', 'fractions', 'array', 'uuid', 'ipaddress')
                      and not any(m == p or m.startswith(p + '.') or p.startswith(m + '.')
                                  for p in reader.get('preimport', []))]
        if unexpected:
            ctx.count('mp_reader_had_payload_modules_loaded')
        for sub in spec['cases']:
            res = got['cases'][sub['id']]
            if 'raise' in res:
                ctx.oracle_failure(f'reading in a fresh process raises {res["raise"][:120]} :: reader {reader}, '
                                   f'history {json.dumps(sub)[:300]}', dict(case, failing=sub['id']),
                                   key='mp-read-raises')
                good = False
                continue
            for task in sub['tasks']:
                name = task['name']
                want = intact[(sub['id'], name)] and (task['status'] == 3 or reader['api'] == 'from_file')
                ctx.count('mp_entries_checked')
                if want and name not in res['entries']:
                    ctx.oracle_failure(
                        f'a fresh process does not get back the DONE entry of a task whose file is intact '
                        f':: task {name} with payloads {[k for k, _ in task["payloads"]]}, reader {reader} '
                        f'(payload modules loaded before the read: {got["loaded_before"]}), history '
                        f'{json.dumps(sub)[:200]}', dict(case, failing=sub['id']), key='mp-loses-done')
                    good = False
                elif want and res['entries'][name] != written[sub['id']][name]:
                    ctx.oracle_failure(
                        f'a fresh process reads a different entry than was written :: task {name}: '
                        f'{res["entries"][name][:200]} vs {written[sub["id"]][name][:200]}, reader {reader}',
                        dict(case, failing=sub['id']), key='mp-entry-differs')
                    good = False
                elif not want and name in res['entries']:
                    ctx.oracle_failure(
                        f'a fresh process reports a task that was not DONE or whose file is damaged '
                        f':: task {name} ({task["fault"]}, status {task["status"]}), reader {reader}',
                        dict(case, failing=sub['id']), key='mp-reports-not-done')
                    good = False
    shutil.rmtree(base, ignore_errors=True)
    return good


# ---- file-system histories -------------------------------------------------

SPECIAL_NAMES = ['.hidden', '.', 'a[b]c', '[ab]', '[!x]', 'q?x', '?', 'st*r', '*', 'with space', ' lead',
                 'ünï©ødé-€', '100%', '%s', '#tag', '~tilde', '~', 'L' * 200, 'a.b.c', '-dash', 'valjean.env',
                 '{curly}', "it's", '$HOME', '!bang', 'a,b;c', 'x=y&z', 'back\\slash', '..dots', 'trail.',
                 '(paren)', '@at', '+plus', 'new\nline']
SPECIAL_NAMES.remove('.')          # '.' is the root itself, not a task directory

ENVMODES = ['plain'] * 10 + ['tmpdir-other-fs'] * 3 + ['root-other-fs'] * 2 + ['tmpdir-missing',
                                                                                 'tmpdir-is-file']
ROOTFORMS = ['plain'] * 9 + ['special', 'special', 'brackets', 'unicode', 'dot', 'trailing-slash',
                             'dotdot', 'relative', 'relative-dotdot', 'dot-relative']


def gen_fs_case(rng, idx):
    ntasks = rng.choice([1, 2, 3, 3, 4, 6])
    names = [f't{i}' for i in range(ntasks)]
    if rng.random() < 0.4:
        # task names with glob metacharacters, leading dots, spaces, unicode, very long
        pool = list(SPECIAL_NAMES)
        rng.shuffle(pool)
        names = [pool.pop() if rng.random() < 0.75 else n for n in names]
    case = gen_fs_ops(rng, idx, names)
    case['envmode'] = rng.choice(ENVMODES)
    case['rootform'] = rng.choice(ROOTFORMS)
    return case


def gen_fs_ops(rng, idx, names):
    ops = []
    nrounds = rng.choice([1, 1, 2, 3])
    for _ in range(nrounds):
        # the environment of this run
        entries = []
        for name in names:
            r = rng.random()
            if r < 0.1:
                continue                                   # task absent from this run's env
            outdir = 'own'
            r = rng.random()
            if r < 0.1:
                outdir = None
            elif r < 0.17:
                outdir = '{root}/' + rng.choice(names)     # somebody else's directory
            elif r < 0.22:
                outdir = '{root}/elsewhere'
            entries.append([name, gen_entry(rng, name, '{root}', outdir=outdir,
                                            rich=rng.random() < 0.7)])
        if rng.random() < 0.3:
            rng.shuffle(entries)
        r = rng.random()
        if r < 0.55 or not entries:
            ops.append(['write', entries])
        else:
            # crash during write_env: the first k files are complete, the k-th is cut
            k = rng.randint(1, len(entries))
            ops.append(['crashwrite', entries[:k], rng.random()])
        for _ in range(rng.choice([0, 1, 1, 2, 3])):
            name = rng.choice(names + ['elsewhere'])
            kind = rng.choice(['cut', 'cut', 'cut', 'empty', 'delete', 'garbage', 'dir',
                               'nonenv', 'stop-appended', 'taskdir-is-file', 'taskdir-symlink-loop',
                               'dangling-symlink', 'symlink-loop', 'symlink-to-dir', 'chmod-000'])
            ops.append([kind, name, rng.random(), rng.getrandbits(32)])
        rnames = list(names)
        if rng.random() < 0.3:
            rng.shuffle(rnames)
        if rng.random() < 0.2:
            rnames = rnames[:rng.randint(0, len(rnames))] + ['ghost']
        if rng.random() < 0.2:
            # tasks whose directory name no file system accepts (NAME_MAX, PATH_MAX)
            rnames.insert(rng.randint(0, len(rnames)), rng.choice(['n' * 256, 'n' * 300, 'é' * 128, 'p' * 5000]))
        ops.append(['read', rnames])
        # the same process goes on: the result of the read is modified in memory (a run),
        # files are rewritten with content of the same size, and the files are read again
        if rng.random() < 0.6:
            ops[-1] = ['read', rnames, rng.getrandbits(30)]
            for _ in range(rng.choice([0, 0, 1, 2])):
                ops.append(['rewrite', rng.choice(names), rng.getrandbits(8)])
            again = list(rnames)
            if rng.random() < 0.3:
                rng.shuffle(again)
            ops.append(['read', again, rng.getrandbits(30)])
            if rng.random() < 0.3:
                ops.append(['read', again])
    return {'kind': 'fs', 'idx': idx, 'names': names, 'ops': ops}


def subst(spec, root):
    if isinstance(spec, str):
        return spec.replace('{root}', root)
    if isinstance(spec, list):
        return [subst(s, root) for s in spec]
    return spec


SHM = '/dev/shm'


class Place:
    '''where and under which process environment a history runs: the output root as
    the caller spells it (`raw`: absolute, relative to a changed current directory,
    with a trailing slash, with '..' components, with glob metacharacters, spaces,
    unicode), its real path (`real`, the key of the harness's own bookkeeping), and
    TMPDIR / tempfile.tempdir (on another file system than the root, missing, a
    regular file).  Everything is restored and removed on exit.'''

    def __init__(self, ctx, case):
        self.ctx, self.case = ctx, case
        self.mode = case.get('envmode', 'plain')
        self.form = case.get('rootform', 'plain')
        self.extra = []

    def __enter__(self):
        import tempfile
        ctx, case = self.ctx, self.case
        self.saved = (os.getcwd(), os.environ.get('TMPDIR'), tempfile.tempdir)
        tag = f'c14-{os.getpid()}-{case["idx"]}'
        base = os.path.join(ctx.wd(), f'place{case["idx"]}')
        mode = self.mode
        if mode in ('tmpdir-other-fs', 'root-other-fs'):
            shm = os.path.join(SHM, tag)
            try:
                os.makedirs(shm, exist_ok=True)
                self.extra.append(shm)
            except OSError:
                ctx.count('skipped_no_dev_shm')
                mode = 'plain'
        if mode == 'root-other-fs':
            base = os.path.join(shm, 'place')
        shutil.rmtree(base, ignore_errors=True)
        os.makedirs(base)
        self.extra.append(base)
        if mode == 'tmpdir-other-fs':
            tmp = os.path.join(shm, 'tmp')
            os.makedirs(tmp, exist_ok=True)
            os.environ['TMPDIR'] = tmp
            tempfile.tempdir = None
        elif mode == 'tmpdir-missing':
            os.environ['TMPDIR'] = os.path.join(base, 'no-such-tmp-dir')
            tempfile.tempdir = None
        elif mode == 'tmpdir-is-file':
            put_file(os.path.join(base, 'tmp-is-a-file'), b'x')
            os.environ['TMPDIR'] = os.path.join(base, 'tmp-is-a-file')
            tempfile.tempdir = None
        ctx.count('place_env_' + mode)
        ctx.count('place_root_' + self.form)
        leaf = {'special': 'out [ab] ?*', 'brackets': 'r[0-9]', 'unicode': 'sörtie é€ #1 ~x %d',
                'dot': '.hidden-root'}.get(self.form, 'out')
        real = os.path.join(base, 'cwd', leaf)
        os.makedirs(real)
        os.makedirs(os.path.join(base, 'cwd', 'side'))
        raw = real
        if self.form == 'trailing-slash':
            raw = real + '/'
        elif self.form == 'dotdot':
            raw = os.path.join(base, 'cwd', 'side', '..', leaf)
        elif self.form == 'relative':
            os.chdir(os.path.join(base, 'cwd'))
            raw = leaf
        elif self.form == 'relative-dotdot':
            os.chdir(os.path.join(base, 'cwd', 'side'))
            raw = os.path.join('..', leaf, '')
        elif self.form == 'dot-relative':
            os.chdir(os.path.join(base, 'cwd'))
            raw = os.path.join('.', leaf)
        self.raw, self.real = raw, os.path.realpath(real)
        return self

    def __exit__(self, *exc):
        import tempfile
        os.chdir(self.saved[0])
        if self.saved[1] is None:
            os.environ.pop('TMPDIR', None)
        else:
            os.environ['TMPDIR'] = self.saved[1]
        tempfile.tempdir = self.saved[2]
        for path in self.extra:
            shutil.rmtree(path, ignore_errors=True)


def run_fs(ctx, mods, case, out):
    with Place(ctx, case) as place:
        return run_fs_at(ctx, mods, case, out, place)


def run_fs_at(ctx, mods, case, out, place):
    import random
    from valjean.cambronne.common import read_env, write_env
    root = place.real            # bookkeeping and model: real paths
    root_raw = place.raw         # what the implementation is given
    rp = os.path.realpath
    broot = root.encode()
    bfile = FILENAME.encode()
    truth = {}        # path -> ('intact', name, entry canon) | ('bad',)
    coq_ops = []
    nontrivial = [False, False]

    def fpath(name):
        return os.path.join(root, name, FILENAME)

    def snapshot():
        snap = {}
        for dirpath, _dirs, files in os.walk(root):
            for fname in files:
                p = os.path.join(dirpath, fname)
                if os.path.islink(p) or not os.path.isfile(p) or not os.access(p, os.R_OK):
                    continue
                with open(p, 'rb') as fil:
                    snap[p] = (fil.read(), os.stat(p).st_mtime_ns)
        return snap

    for op in case['ops']:
        kind = op[0]
        oldstat = {}
        if kind == 'rewrite':
            # other content of the same size at the same path, time stamps restored
            p = fpath(op[1])
            st = truth.get(p)
            if not st or st[0] != 'intact' or not os.path.isfile(p):
                continue
            entries = [[st[1], toggle_same_size(st[3], op[2])]]
            oldstat[p] = os.stat(p)
            kind = 'write'
        elif kind in ('write', 'crashwrite'):
            entries = subst(op[1], root_raw)
        if kind in ('write', 'crashwrite'):
            specs = dict((n, sp) for n, sp in entries)
            env = build(['E', entries], {}, mods)
            for name, sub in env.items():
                if 'output_dir' in sub:
                    repair_dir(sub['output_dir'].rstrip('/'))
                    os.makedirs(sub['output_dir'], exist_ok=True)
                    spelled = os.path.join(sub['output_dir'], FILENAME)
                    if os.path.islink(spelled):
                        os.unlink(spelled)
                    p = rp(spelled)
                    if os.path.isdir(p):
                        shutil.rmtree(p)
                    elif os.path.isfile(p) and not os.access(p, os.W_OK):
                        os.chmod(p, 0o644)
            # make sure every rewritten file is noticed: remove the old ones first is
            # NOT done (the implementation must truncate them itself)
            before = snapshot()
            try:
                write_env(env, filename=FILENAME, fmt='pickle')
            except BaseException as exc:  # noqa
                ctx.oracle_failure(f'write_env raises {type(exc).__name__} :: {json.dumps(case)[:300]}',
                                   case, key='write_env-raises')
                return False
            after = snapshot()
            planned = {}
            spelled_real = root_raw == root
            for name, sub in env.items():
                if 'output_dir' in sub:
                    spelled = os.path.join(sub['output_dir'], FILENAME)
                    planned[rp(spelled)] = (name, sub)
                    spelled_real = spelled_real and spelled == rp(spelled)
            written = [(p, after[p][0]) for p in after if p in planned]
            for p in after:
                if p not in planned and after[p] != before.get(p):
                    ctx.oracle_failure(f'write_env writes {os.path.relpath(p, root)}, not the '
                                       f'output_dir of any entry :: {json.dumps(case)[:300]}', case,
                                       key='write_env-wrong-file')
            for p, (name, sub) in planned.items():
                if p not in after:
                    ctx.oracle_failure(f'write_env does not write {os.path.relpath(p, root)} '
                                       f':: {json.dumps(case)[:300]}', case, key='write_env-missing-file')
                    continue
                truth[p] = ('intact', name, canon(sub), specs[name])
                obs = call_from_file(mods, p)
                if obs[0] != 'env' or canon(dict(obs[1])) != canon({name: sub}):
                    ctx.oracle_failure(f'after write_env the file of an entry with an output directory does '
                                       f'not hold that entry :: {os.path.relpath(p, root)} '
                                       f'[{place.mode}, root {place.form}] in {json.dumps(case)[:300]}', case,
                                       key='write_env-entry-not-in-file')
                if p in oldstat:
                    if os.path.getsize(p) == oldstat[p].st_size:
                        os.utime(p, ns=(oldstat[p].st_atime_ns, oldstat[p].st_mtime_ns))
                        ctx.count('fs_rewrite_same_size_same_mtime')
                    else:
                        ctx.count('fs_rewrite_other_size')
            items = [(canon(k), canon(v)) for k, v in env.items()]
            if spelled_real:
                coq_ops.append('OWriteEnv ' + coq_items(items) + ' ['
                               + '; '.join(f'({cbytes(p.encode())}, {cbytes(b)})' for p, b in written) + ']')
            else:
                # paths not spelled as real paths: the model is given the files by their real
                # paths (its write plan is compared in the histories with plainly spelled roots)
                coq_ops += [f'OPut {cbytes(p.encode())} {cbytes(b)}' for p, b in written]
            ctx.count('fs_write')
            if kind == 'crashwrite' and planned:
                # the last file written by this (interrupted) write_env is cut short
                lastname = [n for n, s in env.items() if 'output_dir' in s][-1]
                p = rp(os.path.join(env[lastname]['output_dir'], FILENAME))
                if not os.path.isfile(p):
                    continue            # already reported: write_env did not write it
                size = os.path.getsize(p)
                k = int(op[2] * size)
                with open(p, 'r+b') as fil:
                    fil.truncate(k)
                truth[p] = ('bad',)
                coq_ops.append(f'OCut {cbytes(p.encode())} {k}')
                ctx.count('fs_crash_during_write')
                nontrivial[0] = True
        elif kind == 'read':
            names = op[1]
            try:
                res = read_env(root=root_raw, names=names, filename=FILENAME, fmt='pickle')
                got = [(canon(k), canon(v)) for k, v in res.items()]
            except BaseException as exc:  # noqa
                res, got = exc, None
            # the oracle: exactly the DONE entries held by intact files of the listed tasks
            expect = {}
            for name in names:
                st = truth.get(fpath(name))
                if st and st[0] == 'intact':
                    ent = dict(st[2][1]) if st[2][0] == 'dict' else {}
                    status = ent.get(('str', b'status'))
                    if status == canon(mods['TaskStatus'].DONE):
                        expect[st[1]] = st[2]
            if got is None:
                ctx.oracle_failure(f'read_env raises {type(res).__name__} :: files '
                                   f'{sorted((os.path.relpath(p, root), s[0]) for p, s in truth.items())} '
                                   f'in {json.dumps(case)[:300]}', case,
                                   key='read_env-raises-' + exn_class(res))
            else:
                gotd = {k[1].decode(): v for k, v in got}
                for name, ent in expect.items():
                    if name not in gotd:
                        ctx.oracle_failure(f'read_env loses the DONE entry of a task whose file is intact '
                                           f':: {name} in {json.dumps(case)[:300]}', case, key='read_env-loses-done')
                    elif gotd[name] != ent:
                        ctx.oracle_failure(f'read_env returns a different entry than was written '
                                           f':: {name} in {json.dumps(case)[:300]}', case,
                                           key='read_env-entry-differs')
                for name, ent in gotd.items():
                    if name not in expect:
                        entd = dict(ent[1]) if ent[0] == 'dict' else {}
                        done = entd.get(('str', b'status')) == canon(mods['TaskStatus'].DONE)
                        what = ('reports as DONE' if done else 'returns a non-DONE entry for')
                        ctx.oracle_failure(f'read_env {what} a task which has no intact file with a '
                                           f'DONE entry :: {name} in {json.dumps(case)[:300]}', case,
                                           key='read_env-reports-done' if done else 'read_env-non-done-entry')
                if expect:
                    nontrivial[1] = True
            if len(op) > 2 and got is not None:
                # the run that follows a read changes its result in memory
                scheduler_like_mutation(mods, res, random.Random(op[2]))
                ctx.count('fs_read_result_mutated')
            coq_ops.append(f'ORead {cbytes(broot)} {cbytes(bfile)} '
                           + '[' + '; '.join(cbytes(n.encode()) for n in names) + '] '
                           + ('None' if got is None else '(Some ' + coq_items(got) + ')'))
            ctx.count('fs_read')
        else:
            name, frac, seed = op[1], op[2], op[3]
            p = fpath(name)
            bp = cbytes(p.encode())
            pdir = os.path.dirname(p)
            repair_dir(pdir)
            if os.path.islink(p):
                os.unlink(p)
            exists = os.path.isfile(p)
            if kind in ('cut', 'stop-appended', 'chmod-000') and not exists:
                continue
            os.makedirs(pdir, exist_ok=True)
            if os.path.isdir(p):
                shutil.rmtree(p)
            if exists:
                os.chmod(p, 0o644)
            ctx.count('fs_' + kind)
            nontrivial[0] = True
            if kind in ('taskdir-is-file', 'taskdir-symlink-loop', 'dangling-symlink', 'symlink-loop',
                        'symlink-to-dir', 'chmod-000'):
                # damage to the output tree that makes open() fail at the operating-system level
                if kind == 'taskdir-is-file':
                    shutil.rmtree(pdir)
                    put_file(pdir, b'this was a directory')
                elif kind == 'taskdir-symlink-loop':
                    shutil.rmtree(pdir)
                    os.symlink(pdir, pdir)
                elif kind == 'dangling-symlink':
                    unlink_any(p)
                    os.symlink(os.path.join(pdir, 'gone'), p)
                elif kind == 'symlink-loop':
                    unlink_any(p)
                    os.symlink(p, p)
                elif kind == 'symlink-to-dir':
                    unlink_any(p)
                    os.symlink(root, p)
                else:
                    os.chmod(p, 0)
                try:
                    with open(p, 'rb'):
                        opened = True
                except OSError:
                    opened = False
                if opened:
                    ctx.count('fs_' + kind + '_still_opens')      # e.g. chmod 000 as root
                else:
                    truth[p] = ('bad',)
                    coq_ops.append(f'ONoRead {bp}')
            elif kind == 'cut':
                size = os.path.getsize(p)
                if size == 0:
                    continue
                k = min(int(frac * size), size - 1)
                with open(p, 'r+b') as fil:
                    fil.truncate(k)
                truth[p] = ('bad',)
                coq_ops.append(f'OCut {bp} {k}')
            elif kind == 'empty':
                put_file(p, b'')
                truth[p] = ('bad',)
                coq_ops.append(f'OPut {bp} []')
            elif kind == 'delete':
                if exists:
                    os.unlink(p)
                truth[p] = ('bad',)
                coq_ops.append(f'ODelete {bp}')
            elif kind == 'dir':
                if exists:
                    os.unlink(p)
                os.makedirs(p)
                truth[p] = ('bad',)
                coq_ops.append(f'ONoRead {bp}')
            elif kind == 'garbage':
                grng = random.Random(seed)
                data = bytes([grng.choice([0, 1, 2, 3, 0xff, 0x7f])]) + \
                    bytes(grng.randrange(256) for _ in range(grng.randint(0, 30)))
                put_file(p, data)
                truth[p] = ('bad',)
                # an invalid load key: the class is covered by the caught-table cases;
                # for the model this file is just unreadable
                coq_ops.append(f'ONoRead {bp}')
            elif kind == 'nonenv':
                grng = random.Random(seed)
                val = grng.choice([None, 3, 'DONE', {'t0': {'status': 3}}, [1, 2], (), b'x'])
                data = pickle.dumps(val)
                put_file(p, data)
                truth[p] = ('bad',)
                coq_ops.append(f'OPut {bp} {cbytes(data)}')
            elif kind == 'stop-appended':
                # crash residue that is NOT a prefix: a cut file with a STOP opcode appended
                with open(p, 'rb') as fil:
                    data = fil.read()
                k = int(frac * len(data))
                data = data[:k] + b'.'
                if load_class(data, False) == 'ok':
                    continue
                put_file(p, data)
                truth[p] = ('bad',)
                coq_ops.append(f'ONoRead {bp}')
    out.append((case, f'CFs {cbytes(bfile)} [' + ';\n   '.join(coq_ops) + ']'))
    return all(nontrivial)


# --------------------------------------------------------------------------

def gen_cases(ctx):
    rng = ctx.rng
    quick = ctx.tier == 'quick'
    cases = []
    # --- corpus: the defect of the pinned tree and boundary cases
    tiny = ['E', [['t0', ['D', [[['S', 'status'], ['ST', 3]], [['S', 'output_dir'], ['S', '/out/t0']]]]]]]
    cases.append({'kind': 'dec', 'env': tiny, 'proto': 4, 'variant': 'plain'})
    cases.append({'kind': 'dec', 'env': ['E', []], 'proto': 4, 'variant': 'plain'})
    cases.append({'kind': 'dec', 'env': tiny, 'proto': 4, 'variant': 'noframe'})
    cases.append({'kind': 'dec', 'env': tiny, 'proto': 3, 'variant': 'plain'})
    allleaves = ['E', [['t0', ['D', [[['S', 'status'], ['ST', 3]],
                                      [['S', 'result'], ['L', LEAVES]],
                                      [['S', 'tuple'], ['T', LEAVES[:6]]],
                                      [['S', 't3'], ['T', LEAVES[:3]]],
                                      [['S', 'single'], ['L', [['N']]]]]]]]]
    for proto, variant in ((4, 'plain'), (4, 'noframe'), (3, 'plain'), (5, 'optimize')):
        cases.append({'kind': 'dec', 'env': allleaves, 'proto': proto, 'variant': variant})
    # more than one frame, objects written outside frames, 4-byte memo indices
    big = ['E', [['t0', ['D', [[['S', 'status'], ['ST', 3]],
                               [['S', 'blob'], ['S', 'z' * 70000]],
                               [['S', 'many'], ['L', [['S', f's{i}'] for i in range(300)]]],
                               [['S', 'again'], ['L', [['S', f's{i}'] for i in range(250, 300)]]]]]]]]
    cases.append({'kind': 'dec', 'env': big, 'proto': 4, 'variant': 'plain', 'limit': 40})
    for how in ('natural', 'raiser'):
        for name in EXN + ['UnicodeDecodeError', 'RuntimeError', 'ZeroDivisionError']:
            if how == 'natural' and NATURAL.get(name) is None and name != 'OSError':
                continue
            cases.append({'kind': 'caught', 'cls': name, 'how': how})
    for which in OS_WITNESSES:
        cases.append({'kind': 'caught', 'cls': 'OSError', 'how': 'os', 'which': which})
    cases.append({'kind': 'fs', 'idx': 0, 'names': ['t0', 't1'], 'ops': [
        ['write', [['t0', gen_entry(rng, 't0', '{root}', status=3, rich=False)],
                   ['t1', gen_entry(rng, 't1', '{root}', status=3, rich=False)]]],
        ['empty', 't0', 0.0, 0], ['read', ['t0', 't1']],
        ['cut', 't1', 0.5, 0], ['read', ['t0', 't1']]]})
    # repeated reads in one process around an in-memory run, same-size rewrites
    e0 = gen_entry(rng, 't0', '{root}', status=3, rich=False)
    e1 = gen_entry(rng, 't1', '{root}', status=4, rich=False)
    cases.append({'kind': 'fs', 'idx': 100000, 'names': ['t0', 't1'], 'ops': [
        ['write', [['t0', e0], ['t1', e1]]], ['read', ['t0', 't1'], 1], ['read', ['t0', 't1'], 2],
        ['rewrite', 't0', 0], ['rewrite', 't1', 1], ['read', ['t0', 't1'], 3],
        ['rewrite', 't0', 1], ['read', ['t1', 't0']]]})
    # the process environment of the write and the spelling of the paths
    ed = gen_entry(rng, 't0', '{root}', status=3, rich=False)
    ef = gen_entry(rng, 't0', '{root}', status=4, rich=False)
    eh = gen_entry(rng, '.hidden', '{root}', status=3, rich=False)
    eb = gen_entry(rng, 'a[b]c', '{root}', status=3, rich=False)
    k = 100001
    for mode in ('tmpdir-other-fs', 'root-other-fs', 'tmpdir-missing', 'tmpdir-is-file'):
        cases.append({'kind': 'fs', 'idx': k, 'names': ['t0'], 'envmode': mode, 'rootform': 'plain', 'ops': [
            ['write', [['t0', ed]]], ['read', ['t0']], ['crashwrite', [['t0', ef]], 0.6], ['read', ['t0']],
            ['write', [['t0', ed]]], ['read', ['t0'], 5], ['read', ['t0']]]})
        k += 1
    for form in ('special', 'brackets', 'unicode', 'dot', 'trailing-slash', 'dotdot', 'relative',
                 'relative-dotdot', 'dot-relative'):
        cases.append({'kind': 'fs', 'idx': k, 'names': ['.hidden', 'a[b]c', 't0'], 'envmode': 'plain',
                      'rootform': form, 'ops': [
            ['write', [['.hidden', eh], ['a[b]c', eb], ['t0', ed]]], ['read', ['.hidden', 'a[b]c', 't0']],
            ['cut', 'a[b]c', 0.5, 0], ['read', ['t0', 'a[b]c', '.hidden']]]})
        k += 1
    for mode in ('tmpdir-other-fs', 'tmpdir-missing'):
        cases.append({'kind': 'dec', 'env': tiny, 'proto': 4, 'variant': 'plain', 'envmode': mode})
    # --- written by one process, read by fresh ones (oracle only)
    cases.append(gen_mp_case(rng, 20 if quick else 200, 3 if quick else 5))
    # damaged output trees: open() of a task's file fails with ENOTDIR, ELOOP, EISDIR, ENAMETOOLONG, ...
    tasks = ['t0', 't1', 't2', 't3', 't4', 't5', 't6']
    ents = [[n, gen_entry(rng, n, '{root}', status=3, rich=False)] for n in tasks]
    cases.append({'kind': 'fs', 'idx': 100100, 'names': tasks, 'ops': [
        ['write', ents], ['taskdir-is-file', 't0', 0, 0], ['symlink-loop', 't1', 0, 0],
        ['taskdir-symlink-loop', 't2', 0, 0], ['dangling-symlink', 't3', 0, 0], ['dir', 't4', 0, 0],
        ['chmod-000', 't5', 0, 0], ['read', tasks + ['n' * 300, 'p' * 5000]],
        ['write', ents], ['symlink-to-dir', 't6', 0, 0], ['read', ['p' * 5000] + tasks]]})
    # --- large entries (oracle only): > 64 KiB (several frames), > 1 MiB
    mib = 2 ** 20
    large = [('bytes', mib + 4096), ('ints', mib + mib // 4), ('str', 300000)]
    if not quick:
        large += [('zeros', 3 * mib), ('floats', 2 * mib), ('ndarray', mib + 8), ('chunks', 2 * mib),
                  ('rows', mib + mib // 2), ('bytes', mib - 64), ('bytes', 5 * mib), ('str', mib + mib // 8),
                  ('chunks', 200000), ('ints', 400000), ('ndarray', 4 * mib), ('floats', 70000)]
    for i, (payload, size) in enumerate(large):
        cases.append({'kind': 'large', 'payload': payload, 'size': size, 'seed': rng.getrandbits(30),
                      'noffs': 200 if quick else 400})
        if i % 3 == 0:
            cases[-1]['envmode'] = 'tmpdir-other-fs'
    # --- random environments, protocols and framings, every truncation offset
    nenv = 90 if quick else 1200
    for _ in range(nenv):
        spec = gen_env_spec(rng)
        proto, variant = rng.choice([(4, 'plain'), (4, 'plain'), (4, 'noframe'), (4, 'noframe'),
                                     (3, 'plain'), (5, 'plain'), (4, 'optimize'),
                                     (4, 'optimize-noframe'), (5, 'noframe'), (3, 'optimize')])
        cases.append({'kind': 'dec', 'env': spec, 'proto': proto, 'variant': variant})
        if variant == 'plain' and proto == 4 and rng.random() < 0.4:
            cases[-1]['envmode'] = rng.choice(['tmpdir-other-fs', 'tmpdir-missing', 'tmpdir-is-file'])
    # --- opcode-stream level: other protocols, payloads outside the value universe
    nscan = 40 if quick else 600
    for i in range(nscan):
        if i % 2 == 0:
            cases.append({'kind': 'scan', 'env': gen_env_spec(rng, rng.choice([1, 2])),
                          'proto': rng.choice([0, 1, 2])})
        else:
            cases.append({'kind': 'scan', 'payload': OTHER[(i // 2) % len(OTHER)],
                          'pseed': rng.getrandbits(30), 'proto': rng.choice([0, 1, 2, 3, 4, 5]),
                          'wrap': rng.random() < 0.6})
    # --- file-system histories
    nfs = 100 if quick else 2500
    for i in range(nfs):
        cases.append(gen_fs_case(rng, i + 1))
    # --- corrupted files (oracle only)
    ncor = 1000 if quick else 20000
    for _ in range(ncor // 10):
        spec = gen_env_spec(rng, rng.choice([1, 1, 2]))
        cases.append({'kind': 'corruptgen', 'env': spec, 'n': 10, 'seed': rng.getrandbits(32)})
    # --- the model's encoder against the real unpickler
    nenc = 40 if quick else 400
    for _ in range(nenc):
        cases.append({'kind': 'enc', 'value': gen_env_spec(rng, rng.choice([1, 2]))
                      if rng.random() < 0.5 else gen_value(rng)})
    return cases


def load_mods():
    common.import_repo()
    from valjean.cosette.env import Env
    from valjean.cosette.task import TaskStatus
    return {'Env': Env, 'TaskStatus': TaskStatus}


def run_case(ctx, mods, case, out, enc_cases):
    import random
    kind = case['kind']
    if kind in ('dec', 'large') and case.get('envmode'):
        with Place(ctx, dict(case, idx=f'{kind}')):
            return run_dec(ctx, mods, case, out) if kind == 'dec' else run_large(ctx, mods, case)
    if kind == 'dec':
        return run_dec(ctx, mods, case, out)
    if kind == 'scan':
        return run_scan(ctx, mods, case, out)
    if kind == 'caught':
        return run_caught(ctx, mods, case, out)
    if kind == 'fs':
        return run_fs(ctx, mods, case, out)
    if kind == 'mp':
        return run_mp(ctx, mods, case)
    if kind == 'large':
        return run_large(ctx, mods, case)
    if kind == 'corruptgen':
        data = pickle.dumps(build(case['env'], {}, mods))
        crng = random.Random(case['seed'])
        res = False
        for _ in range(case['n']):
            mut, bad = mutate(crng, data)
            res = run_corrupt(ctx, mods, {'kind': 'corrupt', 'mut': mut, 'data': bad.hex()}) or res
        return res
    if kind == 'corrupt':
        return run_corrupt(ctx, mods, case)
    if kind == 'enc':
        enc_cases.append(case)
        return True
    raise ValueError(kind)


def parse_byte_lists(out):
    '''answer of  Eval vm_compute in map enc [...]  ->  list of bytes'''
    import re
    blocks = common.parse_eval_blocks(out)
    text = blocks[0]
    text = text[:text.rindex(':')]
    res = []
    for m in re.finditer(r'\[([^\[\]]*)\]', text.strip()[1:-1]):
        res.append(bytes(int(x) for x in re.findall(r'\d+', m.group(1))))
    return res


def run(ctx):
    mods = load_mods()
    ctx.rule = ('environments of 1-8 tasks with payloads over {None,bool,int,float,str,bytes,list,tuple,'
                'dict,TaskStatus,Env}, pickled with protocols 3/4/5, framed, unframed and optimised, '
                'each compared with the model decoder on the value and at EVERY truncation offset '
                '(250 sampled offsets for pickles > 400 bytes quick / 700 thorough); opcode-stream comparison at every offset for '
                'protocols 0-2 and payloads outside the universe; write/crash/cut/delete/garbage/read '
                'histories through the real write_env/read_env, with repeated reads in one process around '
                'in-memory modification of the result and rewrites of the same size and time stamps; '
                'histories run under several process environments (TMPDIR on another file system than the '
                'output root and vice versa, missing, a regular file) and path spellings (roots and task '
                'names with glob metacharacters, leading dots, spaces, unicode, 200 characters; relative to a '
                'changed current directory, trailing slash, .. components); '
                'environments with payload objects of job-helper, valjean (Dataset, test results), numpy and '
                'stdlib classes written by one interpreter and read by fresh ones that imported only the reading '
                'API; entries of 0.3-5 MiB cut at the first/last 32 bytes, frame boundaries and random offsets; '
                'corrupted files through the real from_file.  Non-trivial: an environment with at least one entry / a history with a '
                'damaged file and an intact DONE entry; distinct by case content')
    cases = gen_cases(ctx)
    out, enc_cases = [], []
    old_handler = signal.signal(signal.SIGALRM, _alarm)
    try:
        with Limits():
            for case in cases:
                nontrivial = run_case(ctx, mods, case, out, enc_cases)
                ctx.case_seen(case, bool(nontrivial), sample_every=211)
                ctx.count('cases_' + case['kind'])
    finally:
        signal.signal(signal.SIGALRM, old_handler)
    # ---- model side
    shards, index = [], []
    cur, cursize = [], 0
    per_shard = min(400, max(8, -(-len(out) // 15)))
    for case, term in out:
        if cur and (len(cur) >= per_shard or cursize + len(term) > 400000):
            shards.append(cur)
            cur, cursize = [], 0
        cur.append((case, term))
        cursize += len(term)
    if cur:
        shards.append(cur)
    bodies = ['Definition cases : list case :=\n [' + ';\n  '.join(t for _, t in shard)
              + '].\nEval vm_compute in bad_indices (map check_case cases).' for shard in shards]
    if enc_cases:
        specs = [coqv(canon(build(c['value'], {}, mods))) for c in enc_cases]
        bodies.append('Eval vm_compute in map enc [' + ';\n '.join(specs) + '].')
    outs = common.coq_eval(ctx.pid, IMPORTS, bodies)
    for k, shard in enumerate(shards):
        for i in common.parse_nat_list(outs[k]):
            case, term = shard[i]
            ctx.mismatch(f'{case["kind"]} case: the model disagrees with the implementation '
                         f'({term[:200]} ...)', case)
    if enc_cases:
        blobs = parse_byte_lists(outs[-1])
        if len(blobs) != len(enc_cases):
            raise common.CoqError(f'enc shard: {len(blobs)} answers for {len(enc_cases)} cases')
        for case, blob in zip(enc_cases, blobs):
            want = canon(build(case['value'], {}, mods))
            try:
                got = canon(pickle.loads(blob))
            except Exception as exc:  # noqa
                got = ('raise', type(exc).__name__)
            ctx.count('enc_loaded_by_cpython')
            if got != want:
                ctx.mismatch(f'pickle.loads(model enc v) is not v: {str(got)[:200]}', case)
    ctx.extra['model_cases_compared'] = len(out) + len(enc_cases)
    ctx.assumptions = [
        'CPython\'s pickle.loads / pickle.load is the ground truth of the unpickler model',
        'a crash while writing a file leaves a prefix of what would have been written (fault model)',
        'shared mutable containers and recursive objects are outside the value-level model '
        '(compared at opcode-stream level only)',
        'random garbage files are compared through the caught-table cases, not decoded by the model',
    ]


def replay(ctx, path):
    mods = load_mods()
    data = json.load(open(path))
    case = data['case']
    if isinstance(case, dict) and 'offset' in case:
        print('failing truncation offset:', case['offset'])
    out, enc_cases = [], []
    old_handler = signal.signal(signal.SIGALRM, _alarm)
    try:
        with Limits():
            run_case(ctx, mods, {k: v for k, v in case.items() if k != 'offset'}, out, enc_cases)
    finally:
        signal.signal(signal.SIGALRM, old_handler)
    for _, term in out:
        print('impl (as model case):', term[:2000])
        body = f'Eval vm_compute in check_case ({term}).'
        print('model agrees:', common.parse_eval_blocks(common.coq_eval(ctx.pid, IMPORTS, [body])[0])[0])
    for v in ctx.violations:
        print('oracle:', v[1][:600])
    if not ctx.violations:
        print('oracle: no failure')
    shutil.rmtree(ctx.wd(), ignore_errors=True)
    return 0

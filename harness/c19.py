'''C19: external commands.  Real RunTask.do (directly, and through Scheduler +
QueueScheduling(1) for the worker path) vs the Coq model C19/Model.v, plus the
property oracle.

A case is a list of tasks handed to one worker; every task has a name and a
list of command specifications.  A command is
  ['sh', out, err, code]   sh -c script that writes `out` to stdout, `err` to
                           stderr, appends its id to a marker file outside the
                           output root (that is how the oracle knows which
                           commands were really run) and exits with `code`
  ['kill', out, sig]       writes `out`, then kills itself with signal `sig`
  ['missing', kind]        an executable that cannot be started
'''
import json
import os
import shlex
import shutil

from vp import common
from vp.common import cz, clist, copt


def cstr(text):
    '''Coq term for the bytes of `text` (file contents are bytes, kept as str through surrogateescape): runs of
    printable characters and newlines as string literals, the other bytes through `bs`, appended (long `bs`
    lists are very slow to parse)'''
    data = text.encode('utf-8', 'surrogateescape') if isinstance(text, str) else bytes(text)
    parts, k = [], 0
    while k < len(data):
        j = k
        if 32 <= data[k] < 127 or data[k] == 10:
            while j < len(data) and (32 <= data[j] < 127 or data[j] == 10):
                j += 1
            parts.append('"' + data[k:j].decode('ascii').replace('"', '""') + '"')
        else:
            while j < len(data) and not (32 <= data[j] < 127 or data[j] == 10):
                j += 1
            parts.append('bs [' + '; '.join(str(c) for c in data[k:j]) + ']%N')
        k = j
    if not parts:
        return '""%string'
    return '(' + ' ++ '.join(parts) + ')%string'


# output that a text layer between the command and the capture file would alter: carriage returns, NUL, bytes
# that are not UTF-8, a BOM, escape sequences, long lines
RAW_CHUNKS = [b'a\rb', b'line\r\n', b'\r', b'\r\n\r\n', b'\n\r', b'\x00', b'a\x00b\x00', b'\xff\xfe', b'caf\xe9\n',
              b'\xc3', b'\xed\xa0\x80', b'\xef\xbb\xbfbom', b'\x1b[31mred\x1b[0m', b'\x80abc', b'tab\there\n',
              b'\xc3\xa9t\xc3\xa9', b'', b'x' * 700 + b'\n', b'\x0c\x0b', b'\xf0\x9f\x98\x80', b'no newline at end']


def gen_segments(rng, long_ok=False):
    '''what one command writes: (stream, bytes) pieces in the order it writes them (1 = stdout, 2 = stderr)'''
    segs = []
    for _ in range(rng.choice([1, 2, 3, 4, 6])):
        chunk = rng.choice(RAW_CHUNKS)
        if long_ok and rng.random() < 0.015:
            chunk = bytes(rng.randrange(256) for _ in range(997)) * 100      # ~100 kB, more than a pipe holds
        segs.append([rng.choice([1, 2]), chunk.hex()])
    return segs


# What commands write and what the capture files hold are BYTES.  They are carried around as str with one
# character per byte (latin-1), so that concatenating pieces and concatenating bytes are the same thing (decoding
# UTF-8 piece by piece is not: a character may be split between two pieces); nothing is ever decoded as text,
# except for messages.

def as_bytes(text):
    '''the bytes a shell printf writes for the argument `text`, one character per byte'''
    return text.encode('utf-8', 'surrogateescape').decode('latin-1')


def cbytes(content):
    '''Coq term for a byte string carried as one character per byte'''
    return cstr(content.encode('latin-1'))


def seg_text(segs, stream=None):
    data = b''.join(bytes.fromhex(h) for st, h in segs if stream is None or st == stream)
    return data.decode('latin-1')

IMPORTS = '''From Coq Require Import String List ZArith.
From VV Require Import Lib.Base C19.Model C19.Code.
Import ListNotations.
'''

SH = 'printf %s "$1"; printf %s "$2" >&2; echo "$4" >> "$5"; exit "$3"'
KILL = 'printf %s "$1"; echo "$3" >> "$4"; kill -"$2" $$'

NAMES_BAD = ['', '.', '..', 'a/b', '/abs', 'x/', 'nu\0l', '\0', '../up', './x']
NAMES_GOOD = ['t', 'task', 'a', 'A', 'b', 'stdout', 'stderr', '...', ' ', 'a b', "it's", '-n', '~', '*',
              'tâche', '日本', 'x\ny', 'a.b', '.hidden', 'R', 'a\\b', '$HOME', 'café olé']
# groups of DISTINCT names that some normalisation would identify (unicode normal forms, compatibility
# characters, case, trailing dots / spaces, zero-width joiner, no-break space): different tasks, different
# directories, each holding its own output
VARIANT_GROUPS = [
    ['caf\u00e9', 'cafe\u0301'],                      # NFC / NFD
    ['\ufb01le', 'file', 'File', 'FILE'],              # NFKC ligature, case
    ['t', 't.', 't ', ' t', 't..', 'T'],
    ['ab', 'a\u200db', 'a\u200cb', 'a\u00adb'],       # zero-width joiner / non-joiner, soft hyphen
    ['a b', 'a\u00a0b', 'a  b', 'a\tb'],               # no-break space, two spaces, tab
    ['\u212b', '\u00c5', 'A\u030a'],                  # Angstrom sign, A with ring, decomposed
    ['x\u0323\u0307', 'x\u0307\u0323'],              # combining marks in two orders
    ['run', 'run.', 'Run', 'run\u200b'],               # zero-width space
]

TEXTS = ['', 'a', 'out', 'two words', "it's", 'q"uote', 'line\n', 'a\nb\n', 'été', '$x `y`', '\\n', '%s',
         '-e', '  ', '\t', 'x' * 40]


def name_is_usable(name):
    '''the property's notion of a task name that can name a directory of its own'''
    return (name not in ('', '.', '..') and '/' not in name and '\0' not in name
            and len(name.encode('utf-8')) <= 255)


# --------------------------------------------------------------------------
# generation

def gen_cmd(rng, fail_bias):
    r = rng.random()
    if r < fail_bias * 0.35:
        return ['missing', rng.choice(['abs', 'rel', 'dir', 'empty-token', 'no-token', 'noexec'])]
    if r < fail_bias * 0.45:
        return ['kill', rng.choice(TEXTS), rng.choice([9, 15, 2])]
    if r < fail_bias:
        code = rng.choice([1, 1, 2, 3, 7, 42, 126, 127, 128, 255])
    else:
        code = 0
    if rng.random() < 0.25:
        return ['raw', gen_segments(rng, long_ok=True), code]
    return ['sh', rng.choice(TEXTS), rng.choice(TEXTS), code]


def gen_task(rng, name):
    if rng.random() < 0.15:
        # only commands that take what they write from files (their echo lines do not contain it)
        n = rng.choice([1, 2, 3, 4])
        fail_at = rng.choice([None, None] + list(range(n)))
        cmds = [['raw', gen_segments(rng), 0 if fail_at is None or i < fail_at else rng.choice([1, 2, 255])]
                for i in range(n if fail_at is None else fail_at + 1)]
        if fail_at is not None and rng.random() < 0.3:
            cmds[-1] = ['missing', rng.choice(['abs', 'rel', 'noexec'])]
        return {'name': name, 'cmds': cmds}
    n = rng.choice([0, 1, 1, 2, 2, 3, 3, 4, 5])
    # failure position everywhere: choose where (if at all) the first failure is
    cmds = []
    fail_at = rng.choice([None, None] + list(range(n))) if n else None
    for i in range(n):
        if fail_at is None or i < fail_at:
            cmds.append(gen_cmd(rng, 0.0))
        elif i == fail_at:
            cmds.append(gen_cmd(rng, 1.0))
        else:
            cmds.append(gen_cmd(rng, 0.3))
    return {'name': name, 'cmds': cmds}


def gen_cases(ctx):
    rng = ctx.rng
    quick = ctx.tier == 'quick'
    ok, bad, miss = ['sh', 'o', 'e', 0], ['sh', 'p', 'q', 3], ['missing', 'abs']
    cases = [
        # corpus: the defect of the pinned tree (empty name) and boundary cases
        {'mode': 'direct', 'tasks': [{'name': '', 'cmds': [ok]}]},
        {'mode': 'sched', 'tasks': [{'name': '', 'cmds': [ok]}, {'name': 'x', 'cmds': [ok]}]},
        {'mode': 'direct', 'tasks': [{'name': 't', 'cmds': []}]},
        {'mode': 'direct', 'tasks': [{'name': 't', 'cmds': [ok, bad, ok]}]},
        {'mode': 'direct', 'tasks': [{'name': 't', 'cmds': [bad, ok]}]},
        {'mode': 'direct', 'tasks': [{'name': 't', 'cmds': [ok, ok, bad]}]},
        {'mode': 'direct', 'tasks': [{'name': 't', 'cmds': [ok, miss, ok]}]},
        {'mode': 'sched', 'tasks': [{'name': 't', 'cmds': [ok, miss, ok]}, {'name': 'u', 'cmds': [ok]},
                                    {'name': 'a/b', 'cmds': [ok]}, {'name': 'v', 'cmds': [bad, ok]}]},
        {'mode': 'direct', 'tasks': [{'name': 't', 'cmds': [['missing', 'no-token']]}]},
        {'mode': 'direct', 'tasks': [{'name': 't', 'cmds': [ok, ['kill', 'z', 9], ok]}]},
        {'mode': 'direct', 'tasks': [{'name': 't', 'cmds': [ok, ok]}, {'name': 't', 'cmds': [bad]}]},
        {'mode': 'direct', 'tasks': [{'name': 'n' * 300, 'cmds': [ok]}]},
        {'mode': 'direct', 'tasks': [{'name': 'stdout', 'cmds': [ok]}, {'name': 'stderr', 'cmds': [ok]}]},
    ]
    for group in VARIANT_GROUPS:
        # first task succeeds, the next one fails, a third one succeeds: nobody may see the other's output
        specs = [[['sh', f'out of {k}', f'err of {k}', 0], ['sh', f'more of {k}', '', 0 if k != 1 else 3],
                  ['sh', 'late', 'late', 0]] for k in range(len(group))]
        cases.append({'mode': 'direct', 'tasks': [{'name': n, 'cmds': c} for n, c in zip(group, specs)]})
        cases.append({'mode': 'sched', 'tasks': [{'name': n, 'cmds': c} for n, c in zip(group[::-1], specs)]})
    for name in NAMES_BAD:
        cases.append({'mode': 'direct', 'tasks': [{'name': name, 'cmds': [ok, ok]}]})
    # byte-exact capture: every special chunk on stdout and on stderr; the status follows the exit codes only
    raw_cmds = [['raw', [[1, c.hex()], [2, c.hex()], [1, b'|' .hex()], [2, c[::-1].hex()]], 0] for c in RAW_CHUNKS]
    for k in range(0, len(raw_cmds), 3):
        cases.append({'mode': 'direct' if k % 2 else 'sched',
                      'tasks': [{'name': 'raw', 'cmds': raw_cmds[k:k + 3] + [['raw', [[2, b'end\r\n'.hex()]], 5]]}]})
    # a multi-byte character split between two commands / two pieces: contents are bytes, not text
    cases.append({'mode': 'direct', 'tasks': [{'name': 'split', 'cmds': [
        ['raw', [[1, 'c3'], [2, 'e2']], 0], ['raw', [[1, 'a9'], [2, '82'], [1, 'f09f'], [2, 'ac'], [1, '9880']], 0],
        ['sh', '\u00e9', '\u20ac', 0], ['raw', [[1, 'c3'], [2, 'c3']], 3]]}]})
    cases.append({'mode': 'direct', 'tasks': [{'name': 'big', 'cmds': [
        ['raw', [[1, (bytes(range(256)) * 800).hex()], [2, (b'\r\n' * 50000).hex()]], 0], ok]}]})
    # exhaustive small: failure kind x position for lists of 1..3 commands
    for n in (1, 2, 3):
        for pos in range(n):
            for fail in (bad, miss, ['kill', 'k', 15], ['sh', '', '', 255]):
                cmds = [ok] * pos + [fail] + [['sh', 'late', 'late', 0]] * (n - pos - 1)
                cases.append({'mode': 'direct', 'tasks': [{'name': 'e', 'cmds': cmds}]})
    ctx.count('corpus_and_exhaustive_small', len(cases))
    nrand = 300 if quick else 8000
    for k in range(nrand):
        mode = 'sched' if k % 3 == 0 else 'direct'
        ntasks = rng.choice([1, 2, 2, 3, 4])
        names = []
        for _ in range(ntasks):
            r = rng.random()
            if r < 0.15:
                name = rng.choice(NAMES_BAD)
            elif r < 0.17:
                name = rng.choice(['n' * 256, 'é' * 128, 'n' * 255])
            elif r < 0.9:
                name = rng.choice(NAMES_GOOD)
            else:
                name = ''.join(rng.choice('ab./ -é') for _ in range(rng.randint(0, 4)))
            if mode == 'sched' and name in names:
                continue        # one graph node per name
            if mode == 'direct' and names and rng.random() < 0.15:
                name = rng.choice(names)      # same task name run twice
            names.append(name)
        if rng.random() < 0.2:
            # equivalent-looking names side by side in one output root, each with its own commands
            group = rng.choice(VARIANT_GROUPS)
            extra = rng.sample(group, rng.randint(2, min(3, len(group))))
            names = [n for n in names if n not in extra] + extra
            rng.shuffle(names)
            ctx.count('cases_with_name_variants')
        cases.append({'mode': mode, 'tasks': [gen_task(rng, name) for name in names]})
    ctx.count('random', nrand)
    return cases


# --------------------------------------------------------------------------
# running the implementation

def build_cli(spec, ident, mark, wdir):
    kind = spec[0]
    if kind == 'sh':
        return ['sh', '-c', SH, 'sh', spec[1], spec[2], str(spec[3]), str(ident), mark]
    if kind == 'kill':
        return ['sh', '-c', KILL, 'sh', spec[1], str(spec[2]), str(ident), mark]
    if kind == 'raw':
        # the pieces come from files (any byte can be written that way), one cat per piece, in order
        segdir = os.path.join(wdir, 'seg')
        os.makedirs(segdir, exist_ok=True)
        script = []
        for k, (stream, hexa) in enumerate(spec[1]):
            path = os.path.join(segdir, f'{ident}-{k}')
            with open(path, 'wb') as fil:
                fil.write(bytes.fromhex(hexa))
            script.append(f'cat {path}' + (' >&2' if stream == 2 else ''))
        script.append('echo "$1" >> "$2"; exit "$3"')
        return ['sh', '-c', '; '.join(script), 'sh', str(ident), mark, str(spec[2])]
    sub = spec[1]
    if sub == 'abs':
        return ['/nonexistent-c19/prog', 'arg one', "it's"]
    if sub == 'rel':
        return ['no-such-command-c19', '-x']
    if sub == 'dir':
        return [wdir, 'x']
    if sub == 'noexec':
        return [os.path.join(wdir, 'plainfile'), 'x']
    if sub == 'empty-token':
        return ['']
    return []


def spec_outcome(spec):
    '''(started, code, out, err) the command has when it is executed'''
    if spec[0] == 'sh':
        return True, spec[3], as_bytes(spec[1]), as_bytes(spec[2])
    if spec[0] == 'kill':
        return True, -spec[2], as_bytes(spec[1]), ''
    if spec[0] == 'raw':
        return True, spec[2], seg_text(spec[1], 1), seg_text(spec[1], 2)
    return False, None, '', ''


def rel_components(path, root):
    rel = os.path.relpath(path, root)
    if rel == '.':
        return ['R']
    return ['R'] + rel.split('/')


def run_case(case, wdir, mods):
    '''run the real code on one case; returns the observation'''
    RunTask, Config, TaskStatus, DepGraph, Scheduler, QueueScheduling = mods
    shutil.rmtree(wdir, ignore_errors=True)
    os.makedirs(wdir)
    with open(os.path.join(wdir, 'plainfile'), 'w') as fil:
        fil.write('not executable\n')
    root = os.path.join(wdir, 'root')
    mark = os.path.join(wdir, 'mark')
    config = Config()
    config.set('path', 'output-root', root)
    tasks, clis_all = [], []
    ident = 0
    for tspec in case['tasks']:
        clis = []
        for spec in tspec['cmds']:
            clis.append(build_cli(spec, ident, mark, wdir))
            ident += 1
        clis_all.append(clis)
        tasks.append(RunTask.from_clis(tspec['name'], clis))
    obs = []

    def status_name(status):
        return {TaskStatus.DONE: 'DONE', TaskStatus.FAILED: 'FAILED'}.get(status, str(status))

    def entry_obs(status, upd, exc):
        out = {'status': status, 'codes': None, 'dir': None, 'exc': exc}
        if isinstance(upd, dict) and 'return_codes' in upd:
            # a recorded code that is not an integer exit status is kept as an impossible value
            # so that the oracle (return codes = codes of the commands run) reports it
            out['codes'] = [int(c) if isinstance(c, int) and not isinstance(c, bool) else -999983
                            for c in upd['return_codes']]
        if isinstance(upd, dict) and 'output_dir' in upd:
            out['dir'] = rel_components(upd['output_dir'], root)
            out['paths_in_dir'] = all(
                os.path.dirname(os.path.realpath(upd[key])) == os.path.realpath(upd['output_dir'])
                and os.path.basename(upd[key]) == key for key in ('stdout', 'stderr') if key in upd)
        return out

    if case['mode'] == 'direct':
        for task in tasks:
            try:
                res = task.do(env={}, config=config)
            except Exception as exc:      # what the worker does with it: FAILED
                obs.append(entry_obs('FAILED', None, type(exc).__name__))
                continue
            upd, status = res
            obs.append(entry_obs(status_name(status), upd.get(task.name), None))
    else:
        graph = DepGraph.from_dependency_dictionary({task: set() for task in tasks})
        sched = Scheduler(hard_graph=graph, backend=QueueScheduling(n_workers=1))
        try:
            env = sched.schedule(config=config)
        except Exception as exc:          # the run itself failed
            return {'run_failed': type(exc).__name__, 'tasks': [], 'files': [], 'ran': [], 'clis': clis_all}
        for task in tasks:
            ent = env.get(task.name)
            if ent is None:
                obs.append(entry_obs('MISSING', None, None))
            else:
                obs.append(entry_obs(status_name(ent.get('status')), ent, None))
    files = []
    for dirpath, dirnames, filenames in os.walk(root):
        dirnames.sort()
        for fname in sorted(filenames):
            full = os.path.join(dirpath, fname)
            with open(full, 'rb') as fil:
                files.append([rel_components(full, root), fil.read().decode('latin-1')])
        if not dirnames and not filenames and dirpath != root:
            files.append([rel_components(dirpath, root) + [''], '<empty directory>'])
    ran = []
    if os.path.exists(mark):
        ran = [int(x) for x in open(mark).read().split()]
    return {'tasks': obs, 'files': files, 'ran': ran, 'clis': clis_all}


# --------------------------------------------------------------------------
# the property oracle (independent of the model)

def in_order(chunks, text):
    pos = 0
    for chunk in chunks:
        k = text.find(chunk, pos)
        if k < 0:
            return False
        pos = k + len(chunk)
    return True


def echo_order_problem(chunks, text, clis, trailing):
    '''`chunks`: for every command that was started, in order, the bytes it wrote into this stream; `trailing`:
    whether a command that could not be started follows.  The stream must read  G1 c1 G2 c2 ... Gn cn T  where every
    gap G (the echo of the command, whatever its format) is non-empty and ends with a newline, i.e. was written
    after the previous command's output and before the command's own, and T is empty unless commands without output
    (or one that could not be started) follow.  Returns a description of what is wrong, or None.'''
    shapes = [shlex.join(cli).encode('utf-8', 'surrogateescape').decode('latin-1') for cli in clis]
    pos, pending = 0, 0
    for k, chunk in enumerate(chunks):
        pending += 1
        if not chunk:
            continue
        if any(chunk in shape for shape in shapes):
            return None                      # the output could be mistaken for a part of an echo line: no verdict
        at = text.find(chunk, pos)
        if at < 0:
            return None                      # reported by the content clause
        gap = text[pos:at]
        if not gap or not gap.endswith('\n'):
            return (f'the output of command {k} starts at byte {at}, right after {text[max(0, pos - 20):pos]!r}: '
                    f'its echo line was not written between the previous output and its own (gap {gap[-40:]!r})')
        pos, pending = at + len(chunk), 0
    tail = text[pos:]
    if trailing:
        pending += 1
    if pending == 0 and tail:
        return f'{tail[:80]!r} was written after the output of the last command'
    if pending and (not tail or not tail.endswith('\n')):
        return f'the echo lines of the last {pending} command(s) are missing after the last output'
    return None


def oracle(ctx, case, obs):
    def fail(what, key):
        ctx.oracle_failure(f'{what} :: {json.dumps(case)[:400]}', case, key=key)

    if 'run_failed' in obs:
        fail(f'the run itself failed with {obs["run_failed"]}', 'run-failed')
        return
    files = {tuple(p): c for p, c in obs['files']}
    ran_all = obs['ran']
    ident = 0
    owners = {}
    last = {t['name']: k for k, t in enumerate(case['tasks'])}
    for k, (tspec, tob) in enumerate(zip(case['tasks'], obs['tasks'])):
        name = tspec['name']
        ids = list(range(ident, ident + len(tspec['cmds'])))
        ident += len(tspec['cmds'])
        outcomes = [spec_outcome(s) for s in tspec['cmds']]
        ran = [i for i in ran_all if i in ids]
        if tob['status'] not in ('DONE', 'FAILED'):
            fail(f'task {name!r} ends with status {tob["status"]}', 'status-not-final')
            continue
        # commands that left a trace, in order of execution, the last run of a repeated name counts
        ran_cmds = [outcomes[i - ids[0]] for i in ran]
        all_zero = (len(ran) == len(ids) and all(o[0] and o[1] == 0 for o in outcomes))
        if not name_is_usable(name):
            # no directory of its own can exist for this task: it must fail (even with no command at all)
            if tob['status'] != 'FAILED':
                fail(f'task with unusable name {name!r} is {tob["status"]}', 'unusable-name-not-failed')
            continue
        if (tob['status'] == 'DONE') != all_zero:
            fail(f'task {name!r}: status {tob["status"]} but commands run {ran} of {ids} with outcomes '
                 f'{[(o[0], o[1]) for o in outcomes]}', 'done-iff-all-zero')
        # through the first failure, nothing after it
        expect = []
        for i, o in zip(ids, outcomes):
            if not o[0]:
                break
            expect.append(i)
            if o[1] != 0:
                break
        if ran != expect:
            fail(f'task {name!r}: commands run {ran}, expected {expect} (through the first failure)',
                 'not-prefix-through-first-failure')
        if tob['codes'] is not None and tob['codes'] != [o[1] for o in ran_cmds]:
            fail(f'task {name!r}: return codes {tob["codes"]} but the commands run returned '
                 f'{[o[1] for o in ran_cmds]}', 'return-codes')
        if tob['codes'] is None and all(o[0] for o in outcomes):
            fail(f'task {name!r}: every command could be started but no return codes recorded',
                 'no-return-codes')
        # the directory
        tdir = ('R', name)
        if tob['dir'] is not None and tuple(tob['dir']) != tdir:
            fail(f'task {name!r}: output directory {tob["dir"]} is not <root>/<name>', 'directory')
        if tob.get('paths_in_dir') is False:
            fail(f'task {name!r}: stdout/stderr paths not inside the output directory', 'paths-not-in-dir')
        owners[tdir] = name
        if last[name] != k:
            continue          # the same task is run again later: its files are rewritten then
        out, err = files.get(tdir + ('stdout',)), files.get(tdir + ('stderr',))
        if out is None or err is None:
            fail(f'task {name!r}: capture files missing in {tdir}', 'capture-missing')
            continue
        want_out = ''.join(o[2] for o in ran_cmds)
        if out != want_out:
            fail(f'task {name!r}: stdout file {out!r}, commands wrote {want_out!r}', 'stdout-content')
        if not in_order([o[3] for o in ran_cmds], err):
            fail(f'task {name!r}: stderr file {err!r} does not contain {[o[3] for o in ran_cmds]} in order',
                 'stderr-content')
        # echo line of every command before that command's own output and after the previous one's (for commands
        # whose command line does not contain what they write: the raw ones)
        started = [(spec, o) for spec, o in zip(tspec['cmds'], outcomes)][:len(expect)]
        if ran == expect and all(spec[0] == 'raw' for spec, _ in started):
            clis = obs['clis'][k]
            trailing = len(expect) < len(outcomes) and not outcomes[len(expect)][0] \
                and all(o[1] == 0 for _, o in started)
            problem = echo_order_problem([o[3] for _, o in started], err, clis, trailing)
            ctx.count('echo_order_checked_runtask')
            if problem:
                fail(f'task {name!r}: stderr file: {problem}', 'echo-order')
    # every file below the root lies in the directory of exactly one task
    for path in files:
        if len(path) != 3 or path[:2] not in owners or path[2] not in ('stdout', 'stderr'):
            fail(f'file {list(path)} does not belong to the directory of a task', 'stray-file')



# --------------------------------------------------------------------------
# the other command-running tasks: CheckoutTask / BuildTask (valjean/cosette/code.py) with stand-in executables
#
# code case: {'mode': 'code', 'tasks': [{'kind': 'checkout'|'build', 'name', 'exe': 'script'|'missing'|'vanish',
#             'steps': [[out, err, code], [out, err, code]], + constructor options}]}
# the stand-in for git / cmake is a generated shell script that appends its step and arguments to a marker file,
# writes the step's texts to both streams and exits with the step's code ('vanish': it deletes itself during the
# first step, so that the second command cannot be started; 'missing': it does not exist at all)

STUB = """#!/bin/sh
case "$1" in %(second)s) step=1;; *) step=0;; esac
{ printf '%%s\\037' "%(ident)s" "$step" "$@"; echo; } >> "%(mark)s"
n=0
while :; do
  if [ -f "$0.$step.$n.1" ]; then cat "$0.$step.$n.1"
  elif [ -f "$0.$step.$n.2" ]; then cat "$0.$step.$n.2" >&2
  else break; fi
  n=$((n+1))
done
code=$(cat "$0.$step.code")
%(vanish)s
exit "$code"
"""

CODE_FLAGS = [None, [], ['--depth', '1'], ['-q', "it's"], ['--origin', 'up stream']]
CODE_TARGETS = [None, [], ['all'], ['lib', 'doc x']]


def gen_code_task(rng, name):
    kind = rng.choice(['checkout', 'build'])
    r = rng.random()
    c0 = 0 if r < 0.6 else rng.choice([1, 2, 128, 255])
    c1 = 0 if rng.random() < 0.6 else rng.choice([1, 3, 127, 255])
    task = {'kind': kind, 'name': name,
            'exe': 'script' if rng.random() < 0.8 else rng.choice(['missing', 'vanish']),
            'steps': [[rng.choice(TEXTS), rng.choice(TEXTS), c0], [rng.choice(TEXTS), rng.choice(TEXTS), c1]]}
    if rng.random() < 0.4:      # pieces on both streams in a known order, bytes that a text layer would alter
        task['steps'] = [[gen_segments(rng), c0], [gen_segments(rng), c1]]
    if kind == 'checkout':
        task['flags'] = rng.choice(CODE_FLAGS)
        task['ref'] = rng.choice([None, None, 'v1.0', 'main', 'feature/x'])
    else:
        task['configure_flags'] = rng.choice(CODE_FLAGS)
        task['build_flags'] = rng.choice(CODE_FLAGS)
        task['targets'] = rng.choice(CODE_TARGETS)
    return task


def gen_code_cases(ctx):
    rng = ctx.rng
    cases = []
    ok, ko = ['o', 'e', 0], ['p', 'q', 1]
    for kind in ('checkout', 'build'):
        for steps in ([ok, ok], [ok, ko], [ko, ok], [ko, ko]):
            for opts in ({}, {'ref': 'v1', 'flags': ['-q'], 'configure_flags': ['-DX=1'], 'build_flags': ['-j2'],
                             'targets': ['all']}):
                task = {'kind': kind, 'name': 'code', 'exe': 'script', 'steps': [list(x) for x in steps]}
                base = ({'flags': None, 'ref': None} if kind == 'checkout'
                        else {'configure_flags': None, 'build_flags': None, 'targets': None})
                task.update({k: opts.get(k, v) for k, v in base.items()})
                cases.append({'mode': 'code', 'tasks': [task]})
        for exe in ('missing', 'vanish'):
            task = {'kind': kind, 'name': 'code', 'exe': exe, 'steps': [list(ok), list(ok)]}
            task.update({'flags': None, 'ref': None} if kind == 'checkout'
                        else {'configure_flags': None, 'build_flags': None, 'targets': None})
            cases.append({'mode': 'code', 'tasks': [task]})
        for name in ['', '..', 'a/b', '.']:
            task = {'kind': kind, 'name': name, 'exe': 'script', 'steps': [list(ok), list(ok)]}
            task.update({'flags': None, 'ref': None} if kind == 'checkout'
                        else {'configure_flags': None, 'build_flags': None, 'targets': None})
            cases.append({'mode': 'code', 'tasks': [task]})
    inter = [[1, b'o1\r\n'.hex()], [2, b'e1\r'.hex()], [1, b'o2\x00\xff'.hex()], [2, b'e2 caf\xe9\n'.hex()],
             [1, b'o3'.hex()], [2, b''.hex()], [2, b'e3\n'.hex()]]
    split = [[1, 'e2'], [2, '82'], [1, 'ac'], [2, 'c3'], [2, 'a9'], [1, 'f0'], [1, '9f98'], [2, '80']]
    for kind in ('checkout', 'build'):
        task = {'kind': kind, 'name': 'split', 'exe': 'script', 'steps': [[split, 0], [split[::-1], 0]]}
        task.update({'flags': None, 'ref': None} if kind == 'checkout'
                    else {'configure_flags': None, 'build_flags': None, 'targets': None})
        cases.append({'mode': 'code', 'tasks': [task]})
        for c0, c1 in ((0, 0), (0, 2), (3, 0)):
            task = {'kind': kind, 'name': 'inter', 'exe': 'script', 'steps': [[inter, c0], [inter[::-1], c1]]}
            task.update({'flags': None, 'ref': None} if kind == 'checkout'
                        else {'configure_flags': None, 'build_flags': None, 'targets': None})
            cases.append({'mode': 'code', 'tasks': [task]})
    ctx.count('code_corpus', len(cases))
    nrand = 60 if ctx.tier == 'quick' else 1500
    for _ in range(nrand):
        names = []
        for _ in range(rng.choice([1, 2, 2, 3])):
            r = rng.random()
            name = (rng.choice(NAMES_BAD) if r < 0.12 else rng.choice(rng.choice(VARIANT_GROUPS)) if r < 0.4
                    else rng.choice(NAMES_GOOD))
            if name not in names and '\n' not in name:
                names.append(name)
        cases.append({'mode': 'code', 'tasks': [gen_code_task(rng, name) for name in names]})
    ctx.count('code_random', nrand)
    return cases


def code_steps(task, exe, out_root, src_dir):
    """the command lines the task issues (transcription of the interface of git / cmake that code.py uses)"""
    name = task['name']
    if task['kind'] == 'checkout':
        return [[exe, 'clone'] + list(task['flags'] or []) + ['--', 'the-repository', os.path.join(out_root, name)],
                [exe, 'checkout', task['ref'] if task['ref'] is not None else 'master']]
    build = [exe, '--build', os.path.join(out_root, name)]
    for target in task['targets'] or []:
        build += ['--target', target]
    return [[exe] + list(task['configure_flags'] or []) + [src_dir], build + list(task['build_flags'] or [])]


def step_segments(st):
    '''a step is [out, err, code] (out on stdout, then err on stderr) or [[(stream, hex), ...], code] (pieces
    written alternately to the two streams, in this order)'''
    if isinstance(st[0], list):
        return st[0], st[1]
    return [[1, st[0].encode('utf-8').hex()], [2, st[1].encode('utf-8').hex()]], st[2]


def code_outcomes(task):
    """(started, code, what the step writes into the shared log, '') of the two steps when they are executed"""
    if task['exe'] == 'missing':
        return [(False, None, '', ''), (False, None, '', '')]
    outs = []
    for st in task['steps']:
        segs, code = step_segments(st)
        outs.append((True, code, seg_text(segs), ''))
    if task['exe'] == 'vanish':
        outs[1] = (False, None, '', '')
    return outs


def run_code_case(case, wdir, mods):
    from valjean.cosette.code import CheckoutTask, BuildTask
    RunTask, Config, TaskStatus = mods[:3]
    shutil.rmtree(wdir, ignore_errors=True)
    os.makedirs(os.path.join(wdir, 'bin'))
    src_dir = os.path.join(wdir, 'src')
    os.makedirs(src_dir)
    out_root, log_root, mark = os.path.join(wdir, 'root'), os.path.join(wdir, 'logs'), os.path.join(wdir, 'mark')
    config = Config()
    config.set('path', 'output-root', out_root)
    config.set('path', 'log-root', log_root)
    obs, clis_all = [], []
    for k, task in enumerate(case['tasks']):
        exe = os.path.join(wdir, 'bin', f'tool{k}')
        if task['exe'] != 'missing':
            with open(exe, 'w') as fil:
                fil.write(STUB % {'second': 'checkout' if task['kind'] == 'checkout' else '--build',
                                  'ident': k, 'mark': mark,
                                  'vanish': 'rm -f "$0"' if task['exe'] == 'vanish' else ''})
            os.chmod(exe, 0o755)
            for step, st in enumerate(task['steps']):
                segs, code = step_segments(st)
                for n, (stream, hexa) in enumerate(segs):
                    with open(f'{exe}.{step}.{n}.{stream}', 'wb') as fil:
                        fil.write(bytes.fromhex(hexa))
                with open(f'{exe}.{step}.code', 'w') as fil:
                    fil.write(str(code))
        clis_all.append(code_steps(task, exe, out_root, src_dir))
        if task['kind'] == 'checkout':
            cls = type('StubCheckout', (CheckoutTask,), {'GIT': exe})
            obj = cls(task['name'], repository='the-repository', flags=task['flags'], ref=task['ref'])
        else:
            cls = type('StubBuild', (BuildTask,), {'CMAKE': exe})
            obj = cls(task['name'], src_dir, targets=task['targets'], configure_flags=task['configure_flags'],
                      build_flags=task['build_flags'])
        entry = {'status': None, 'exc': None, 'dir': None}
        try:
            upd, status = obj.do(env={}, config=config)
            entry['status'] = {TaskStatus.DONE: 'DONE', TaskStatus.FAILED: 'FAILED'}.get(status, str(status))
            mine = upd.get(task['name'], {}) if isinstance(upd, dict) else {}
            if 'output_dir' in mine:
                entry['dir'] = rel_components(mine['output_dir'], out_root)
            for key in ('checkout_log', 'build_log'):
                if key in mine:
                    entry['log_path'] = ['L'] + rel_components(mine[key], log_root)[1:]
        except Exception as exc:      # what the worker does with it: FAILED
            entry['status'], entry['exc'] = 'FAILED', type(exc).__name__
        obs.append(entry)
    files = {}
    for tag, top in (('R', out_root), ('L', log_root)):
        for dirpath, dirnames, filenames in os.walk(top):
            dirnames.sort()
            for fname in sorted(filenames):
                full = os.path.join(dirpath, fname)
                with open(full, 'rb') as fil:
                    files['/'.join([tag] + rel_components(full, top)[1:])] = fil.read().decode('latin-1')
            if dirpath != top:
                files.setdefault('/'.join([tag] + rel_components(dirpath, top)[1:]) + '/', '<dir>')
    calls = []
    if os.path.exists(mark):
        for line in open(mark, encoding='utf-8').read().split('\n'):
            if line:
                fields = line.split('\037')[:-1]
                calls.append([int(fields[0]), int(fields[1]), fields[2:]])
    stray = [p for p in os.listdir(wdir) if p not in ('bin', 'src', 'root', 'logs', 'mark')]
    return {'tasks': obs, 'files': files, 'calls': calls, 'clis': clis_all, 'stray': stray}


def oracle_code(ctx, case, obs):
    def fail(what, key):
        ctx.oracle_failure(f'{what} :: {json.dumps(case)[:500]}', case, key=key)

    files = obs['files']
    owned = set()
    if obs['stray']:
        fail(f'files created outside the output and log roots: {obs["stray"]}', 'code-outside-roots')
    last = {t['name']: k for k, t in enumerate(case['tasks'])}
    for k, (task, tob) in enumerate(zip(case['tasks'], obs['tasks'])):
        name, kind = task['name'], task['kind']
        outs = code_outcomes(task)
        ran = [c[1] for c in obs['calls'] if c[0] == k]
        if tob['status'] not in ('DONE', 'FAILED'):
            fail(f'{kind} task {name!r} ends with status {tob["status"]}', 'code-status-not-final')
            continue
        if not name_is_usable(name):
            if tob['status'] != 'FAILED':
                fail(f'{kind} task with unusable name {name!r} is {tob["status"]}', 'code-unusable-name-not-failed')
            continue
        all_zero = ran == [0, 1] and all(o[0] and o[1] == 0 for o in outs)
        if (tob['status'] == 'DONE') != all_zero:
            fail(f'{kind} task {name!r}: status {tob["status"]} but steps run {ran} with outcomes '
                 f'{[(o[0], o[1]) for o in outs]}', 'code-done-iff-all-zero')
        expect = []
        for step, o in enumerate(outs):
            if not o[0]:
                break
            expect.append(step)
            if o[1] != 0:
                break
        if ran != expect:
            fail(f'{kind} task {name!r}: steps run {ran}, expected {expect} (through the first failure)',
                 'code-not-prefix-through-first-failure')
        tdir, tlog = f'R/{name}/', f'L/{name}.log'
        owned.update((tdir, tlog))
        if tob['dir'] is not None and tob['dir'] != ['R', name]:
            fail(f'{kind} task {name!r}: output directory {tob["dir"]} is not <root>/<name>', 'code-directory')
        if tob.get('log_path') is not None and tob['log_path'] != ['L', name + '.log']:
            fail(f'{kind} task {name!r}: log {tob["log_path"]} is not <log-root>/<name>.log', 'code-log-path')
        if last[name] != k:
            continue
        if tlog not in files:
            fail(f'{kind} task {name!r}: no log file {tlog}', 'code-log-missing')
            continue
        chunks = [x for step in ran for x in (outs[step][2], outs[step][3])]
        not_run = [outs[step][2] for step in (0, 1) if step not in ran and len(outs[step][2]) > 3]
        if not in_order(chunks, files[tlog]):
            fail(f'{kind} task {name!r}: log {files[tlog]!r} does not contain {chunks} in order', 'code-log-content')
        if ran == expect:
            trailing = len(expect) < 2 and not outs[len(expect)][0] and all(outs[st][1] == 0 for st in expect)
            problem = echo_order_problem([outs[step][2] for step in ran], files[tlog], obs['clis'][k], trailing)
            ctx.count('echo_order_checked_code')
            if problem:
                fail(f'{kind} task {name!r}: log: {problem}', 'code-echo-order')
    for path in files:
        if path not in owned and not any(path.startswith(d) for d in owned if d.endswith('/')):
            fail(f'{path} does not belong to a task of the case', 'code-stray-file')


def coq_code_items(case, obs):
    items = []
    for task, tob, clis in zip(case['tasks'], obs['tasks'], obs['clis']):
        name = task['name']
        if len(name.encode('utf-8', 'surrogateescape')) > 250 or tob['status'] not in ('DONE', 'FAILED'):
            continue
        steps = []
        for cli, (started, code, out, err) in zip(clis, code_outcomes(task)):
            outcome = f'(Exited {cz(code)} {cbytes(out)} {cbytes(err)})' if started else 'CannotStart'
            steps.append('(mk_ccmd ' + clist([cstr(tok) for tok in cli]) + ' ' + outcome + ')')
        log = obs['files'].get(f'L/{name}.log') if name_is_usable(name) else None
        has_dir = name_is_usable(name) and (f'R/{name}/' in obs['files']
                                            or any(p.startswith(f'R/{name}/') for p in obs['files']))
        items.append('(' + cstr(name) + ', ' + clist(steps) + ', (mk_code_obs '
                     + ('DONE' if tob['status'] == 'DONE' else 'FAILED') + ' ' + copt(log, cbytes) + ' '
                     + ('true' if has_dir else 'false') + '))')
    return items

# --------------------------------------------------------------------------
# the model side

def coq_outcome(spec):
    started, code, out, err = spec_outcome(spec)
    if not started:
        return 'CannotStart'
    return f'(Exited {cz(code)} {cbytes(out)} {cbytes(err)})'


def coq_case(case, obs):
    tasks = []
    for tspec, clis in zip(case['tasks'], obs['clis']):
        cmds = ['(mk_ccmd ' + clist([cstr(tok) for tok in cli]) + ' ' + coq_outcome(spec) + ')'
                for spec, cli in zip(tspec['cmds'], clis)]
        tasks.append('(mk_task ' + cstr(tspec['name']) + ' ' + clist(cmds) + ')')
    observations = []
    for tob in obs['tasks']:
        status = 'DONE' if tob['status'] == 'DONE' else 'FAILED'
        observations.append('(mk_obs ' + status + ' '
                            + copt(tob['codes'], lambda cs: clist([cz(c) for c in cs])) + ' '
                            + copt(tob['dir'], lambda d: clist([cstr(c) for c in d])) + ')')
    files = ['(' + clist([cstr(c) for c in path]) + ', ' + cbytes(content) + ')'
             for path, content in obs['files']]
    return ('(' + clist(tasks) + ',\n  ' + clist(observations) + ',\n  ' + clist(files) + ')')


def model_applies(case, obs):
    '''names the file system refuses (too long) are outside the model: oracle only'''
    if 'run_failed' in obs:
        return False
    if sum(len(content) for _, content in obs['files']) > 2500:
        return False
    if sum(len(h) // 2 for t in case['tasks'] for spec in t['cmds'] if spec[0] == 'raw' for _, h in spec[1]) > 2500:
        return False          # (too big for a Coq literal: the oracle compares these byte for byte)
    for tspec, tob in zip(case['tasks'], obs['tasks']):
        if len(tspec['name'].encode('utf-8', 'surrogateescape')) > 255:
            return False
        if tob['status'] not in ('DONE', 'FAILED'):
            return False
    return True


def load_mods():
    common.import_repo()
    from valjean.config import Config
    from valjean.cosette.run import RunTask
    from valjean.cosette.task import TaskStatus
    from valjean.cosette.depgraph import DepGraph
    from valjean.cosette.scheduler import Scheduler
    from valjean.cosette.backends.queue import QueueScheduling
    return RunTask, Config, TaskStatus, DepGraph, Scheduler, QueueScheduling


def nontrivial(case, obs):
    return any(len(t['cmds']) >= 2 for t in case['tasks']) and bool(obs.get('ran'))


def run(ctx):
    mods = load_mods()
    ctx.rule = ('corpus (empty/invalid names, every failure kind at every position of 1..3 commands) + random '
                'task lists (1-4 tasks of 0-5 commands, first failure position uniform, failures = non-zero exit / '
                'signal / executable that cannot be started, names incl. invalid, repeated, unicode, too long), '
                'run directly through RunTask.do and through Scheduler+QueueScheduling(1); non-trivial = some '
                'task has >= 2 commands and at least one command really ran; distinct by case content; 20% of the cases '
                'hold names that a normalisation would identify (NFC/NFD/NFKC, case, trailing dots/spaces, zero-width '
                'characters); plus CheckoutTask / BuildTask (code.py) driven with generated stand-in executables for '
                'git / cmake (codes per step, both streams, missing or vanishing executable, flags / ref / targets)')
    import time
    cases = gen_cases(ctx)
    wdir = os.path.join(ctx.wd(), 'c19')
    compared = []
    t_impl = time.time()
    for case in cases:
        obs = run_case(case, wdir, mods)
        oracle(ctx, case, obs)
        ctx.case_seen(case, nontrivial(case, obs), sample_every=97)
        ctx.count('mode_' + case['mode'])
        for tspec, tob in zip(case['tasks'], obs.get('tasks', [])):
            ctx.count('task_' + tob['status'])
            ctx.count('tasks')
            if tob.get('exc'):
                ctx.count('task_raised_' + tob['exc'])
            if not name_is_usable(tspec['name']):
                ctx.count('unusable_name')
            for spec in tspec['cmds']:
                ctx.count('cmd_' + spec[0] + ('' if spec[0] != 'sh' else ('_zero' if spec[3] == 0 else '_nonzero')))
                if spec[0] == 'raw':
                    ctx.count('raw_bytes', sum(len(h) // 2 for _, h in spec[1]))
        if model_applies(case, obs):
            compared.append((case, obs))
        else:
            ctx.count('oracle_only_cases')
    # the other command-running tasks (code.py) with stand-in executables
    code_items, code_cases = [], []
    for case in gen_code_cases(ctx):
        obs = run_code_case(case, wdir, mods)
        oracle_code(ctx, case, obs)
        ctx.case_seen(case, bool(obs['calls']), sample_every=53)
        ctx.count('mode_code')
        for task, tob in zip(case['tasks'], obs['tasks']):
            ctx.count(f'code_{task["kind"]}_{tob["status"]}')
            if tob.get('exc'):
                ctx.count('code_raised_' + tob['exc'])
        for item in coq_code_items(case, obs):
            code_items.append(item)
            code_cases.append((case, obs))
    shutil.rmtree(wdir, ignore_errors=True)
    t_impl = time.time() - t_impl
    t_coq = time.time()
    shard_size = 60
    shards = []
    for k in range(0, len(compared), shard_size):
        items = [coq_case(case, obs) for case, obs in compared[k:k + shard_size]]
        shards.append('Definition cases : list (list ctask * list obs * files) :=\n ['
                      + ';\n '.join(items) + '].\nEval vm_compute in bad_indices (map check_case cases).')
    nshards = len(shards)
    for k in range(0, len(code_items), 150):
        shards.append('Definition cases : list (string * list ccmd * code_obs) :=\n ['
                      + ';\n '.join(code_items[k:k + 150])
                      + '].\nEval vm_compute in bad_indices (map check_code_case cases).')
    outs = common.coq_eval(ctx.pid, IMPORTS, shards)
    for k, out in enumerate(outs[nshards:]):
        for i in common.parse_nat_list(out):
            case, obs = code_cases[k * 150 + i]
            ctx.mismatch('code task, implementation observed ' + json.dumps({'tasks': obs['tasks'],
                                                                             'files': obs['files']})[:600],
                         {'case': case, 'observed': {'tasks': obs['tasks'], 'files': obs['files'],
                                                     'calls': obs['calls']}})
    ctx.extra['code_tasks_compared'] = len(code_items)
    for k, out in enumerate(outs[:nshards]):
        for i in common.parse_nat_list(out):
            case, obs = compared[k * shard_size + i]
            ctx.mismatch('implementation observed ' + json.dumps({'tasks': obs['tasks'], 'files': obs['files']})[:600],
                         {'case': case, 'observed': {'tasks': obs['tasks'], 'files': obs['files']}})
    ctx.extra['model_cases_compared'] = len(compared)
    ctx.extra['phase_seconds'] = {'implementation_and_oracle': round(t_impl, 1),
                                  'model_in_coq': round(time.time() - t_coq, 1)}
    ctx.assumptions = ['sh -c with printf/exit/kill behaves as specified (the outcome given to the model for a '
                       'command is what that command does when it is executed)',
                       'the marker file written by a command tells that the command was run',
                       'commands do not touch the capture files other than through their stdout/stderr']


def replay(ctx, path):
    mods = load_mods()
    data = json.load(open(path))
    case = data['case']['case'] if 'case' in data['case'] else data['case']
    wdir = os.path.join(ctx.wd(), 'c19')
    if case.get('mode') == 'code':
        obs = run_code_case(case, wdir, mods)
        print('case:', json.dumps(case))
        print('impl:', json.dumps({k: obs[k] for k in ('tasks', 'files', 'calls', 'stray')}))
        oracle_code(ctx, case, obs)
        for v in ctx.violations:
            print('oracle:', v[1][:600])
        items = coq_code_items(case, obs)
        if items:
            body = ('Eval vm_compute in map (fun c => (check_code_case c, code_model (fst (fst c)) (snd (fst c)))) '
                    + clist(items) + '.')
            print('model:', common.coq_eval(ctx.pid, IMPORTS, [body])[0][:3000])
        shutil.rmtree(ctx.wd(), ignore_errors=True)
        return 0
    obs = run_case(case, wdir, mods)
    print('case:', json.dumps(case))
    print('impl:', json.dumps({'tasks': obs.get('tasks'), 'files': obs.get('files'), 'ran': obs.get('ran'),
                               'run_failed': obs.get('run_failed')}))
    oracle(ctx, case, obs)
    for v in ctx.violations:
        print('oracle:', v[1][:600])
    if model_applies(case, obs):
        body = ('Definition c := ' + coq_case(case, obs) + '.\n'
                'Eval vm_compute in (check_case c, let es := model_trace (fst (fst c)) in '
                '(fst es, flatten_fs (w_fs (snd es)))).')
        print('model:', common.coq_eval(ctx.pid, IMPORTS, [body])[0])
    shutil.rmtree(ctx.wd(), ignore_errors=True)
    return 0

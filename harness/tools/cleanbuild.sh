#!/bin/bash
# timed clean build of a copy of the Coq development under /tmp/coqcopy (does not touch /verif/coq)
rm -rf /tmp/coqcopy; mkdir -p /tmp/coqcopy
cd /verif/coq
find . -name '*.v' -not -path './Run/*' | while read f; do mkdir -p /tmp/coqcopy/$(dirname $f); cp $f /tmp/coqcopy/$f; done
cd /tmp/coqcopy
find . -name '*.v' | sed 's|^\./||' | sort > files.txt
(echo "-Q . VV"; echo "-arg -w -arg -notation-overridden,-deprecated,-ambiguous-paths"; cat files.txt) > _CoqProject
coq_makefile -f _CoqProject -o Makefile >/dev/null 2>&1
start=$(date +%s)
timeout 3000 make -j${1:-12} TIMED=1 > build.log 2>&1
echo "EXIT $? after $(( $(date +%s) - start )) s" >> build.log

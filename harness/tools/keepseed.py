#!/usr/bin/env python3
'''keepseed.py <src dir> <property id> <k> <caught by> <needs...>  : store a confirmed seeded change'''
import json, os, shutil, sys
src, pid, k, caught = sys.argv[1:5]
needs = ' '.join(sys.argv[5:])
dst = f'/verif/seeded/{pid}-{k}'
os.makedirs(dst, exist_ok=True)
for name in ('patch.diff', 'demo.py', 'README.md'):
    if os.path.exists(os.path.join(src, name)):
        shutil.copy(os.path.join(src, name), os.path.join(dst, name))
json.dump({
    'property': pid,
    'breaks': pid,
    'needs_to_manifest': needs,
    'confirmed': 'harness/tools/seedcheck.sh %s seeded/%s-%s : demo.py exits 0 on the unchanged checkout and non-zero '
                 'with patch.diff applied (scratch worktree of /repo); existing tests of the touched package pass '
                 'with the patch (run by the sub-agent that wrote it, see README.md)' % (pid, pid, k),
    'caught_by': caught,
}, open(os.path.join(dst, 'meta.json'), 'w'), indent=1)
print('kept', dst)

#!/usr/bin/env python3
'''Model-mutation score: how tightly does the per-run correspondence pin the Coq model to the code?

  modelmut.py <property id> [max mutants] [seed]

1. runs the property's quick check once on /repo keeping the generated cases files (they embed what
   the implementation returned);
2. mutates the model sources the cases files import (one small change per mutant: <=? <-> <?,
   leb <-> ltb, && <-> ||, andb <-> orb, existsb <-> forallb, a negb dropped, true <-> false,
   +1 / -1 dropped), in a scratch copy of coq/;
3. rebuilds and re-evaluates the kept cases against each mutant: a mutant is KILLED when some case
   now disagrees (or the cases no longer type-check), SURVIVES otherwise.
Survivors are either equivalent mutants or weak spots of the correspondence; they are listed in
/verif/evidence/modelmut/<id>.json for inspection.  Nothing under /verif/coq is modified.'''
import json, os, random, re, shutil, subprocess, sys, time

V = '/verif'
pid = sys.argv[1]
maxm = int(sys.argv[2]) if len(sys.argv) > 2 else 40
seed = int(sys.argv[3]) if len(sys.argv) > 3 else 0
work = f'/tmp/modelmut-{pid}-{os.getpid()}'
kept = os.path.join(work, 'kept')
os.makedirs(kept)
env = dict(os.environ, VERIF_KEEP_CASES=kept, VERIF_SEARCH='1')   # VERIF_SEARCH: evidence goes elsewhere
t0 = time.time()
subprocess.run([f'{V}/check', pid, '--tier', 'quick'], env=env, stdout=subprocess.DEVNULL, stderr=subprocess.DEVNULL)
cases = sorted(x for x in os.listdir(kept) if x.endswith('.v'))
if not cases:
    sys.exit('no cases kept')
mods = set()
for c in cases:
    text = open(os.path.join(kept, c)).read()
    for stmt in re.findall(r'From\s+VV\s+Require\s+(?:Import\s+|Export\s+)?((?:[A-Za-z_][\w\']*(?:\.[A-Za-z_][\w\']*)*\s*)+)\.(?:\s|$)', text):
        mods.update(stmt.split())
targets = sorted(m.replace('.', '/') + '.vo' for m in mods)
srcs = [t[:-1] for t in targets if not t.startswith('Lib/') and os.path.exists(f'{V}/coq/{t[:-1]}')
        and not re.search(r'(Replay|Check|TextCheck|Lits|Pack)\.v$', t[:-1])]    # checker / literal helpers, not models
# transitive: models imported by those (same directory family), not proofs
def deps(src):
    out = set()
    for m in re.findall(r'VV\s+Require\s+(?:Import\s+|Export\s+)?([^.]*(?:\.[A-Za-z_]\w*)*[^.]*)\.', open(f'{V}/coq/{src}').read()):
        pass
    return out
OPS = [(r'<=\?', '<?'), (r'<\?', '<=?'), (r'\bNat\.leb\b', 'Nat.ltb'), (r'\bNat\.ltb\b', 'Nat.leb'),
       (r'\bZ\.leb\b', 'Z.ltb'), (r'\bZ\.ltb\b', 'Z.leb'), (r'&&', '||'), (r'\|\|', '&&'),
       (r'\bandb\b', 'orb'), (r'\borb\b', 'andb'), (r'\bexistsb\b', 'forallb'), (r'\bforallb\b', 'existsb'),
       (r'\bnegb\b', 'id'), (r'\btrue\b', 'false'), (r'\bfalse\b', 'true'), (r'\+ 1\b', '+ 0'), (r'- 1\b', '- 0'),
       (r'\bfle\b', 'flt'), (r'\bflt\b', 'fle'), (r'\bfirstn\b', 'skipn')]

def strip_comments_mask(text):
    mask = [True] * len(text)
    depth = i = 0
    while i < len(text):
        if text.startswith('(*', i):
            depth += 1; mask[i] = mask[i + 1] = False; i += 2; continue
        if text.startswith('*)', i) and depth:
            depth -= 1; mask[i] = mask[i + 1] = False; i += 2; continue
        if depth:
            mask[i] = False
        i += 1
    return mask

mutants = []
for src in srcs:
    text = open(f'{V}/coq/{src}').read()
    mask = strip_comments_mask(text)
    # only inside Definition/Fixpoint bodies: skip lines of Lemma/Theorem/Proof blocks
    inproof = [False] * len(text)
    for m in re.finditer(r'(?ms)^\s*(Lemma|Theorem|Example|Corollary|Remark|Fact)\b.*?^\s*(Qed|Defined)\.', text):
        for i in range(m.start(), m.end()):
            inproof[i] = True
    heads = [(m.start(), m.group(2)) for m in
             re.finditer(r'(?m)^\s*(Definition|Fixpoint|Function|Inductive|Record)\s+([\w\']+)', text)]

    def enclosing(pos):
        name = ''
        for start, nm in heads:
            if start <= pos:
                name = nm
            else:
                break
        return name
    # the comparison / checking functions the cases files call are the CHECKER, not the model:
    # a laxer comparison survives trivially and says nothing about the tie
    checker = re.compile(r'(check|eqb|_eq$|same|close|agree|compare|diagnose|bad_|_ok$|final_ok|run_ops|writes_ok|replay|expected_arg|all_workers_gone)', re.I)
    for pat, rep in OPS:
        for m in re.finditer(pat, text):
            if mask[m.start()] and not inproof[m.start()] and not checker.search(enclosing(m.start())):
                mutants.append((src, m.start(), m.end(), rep, text[max(0, m.start() - 40):m.end() + 30].replace('\n', ' ')))
random.Random(seed).shuffle(mutants)
mutants = mutants[:maxm]
tree = os.path.join(work, 'coq')
def fresh_tree():
    # a REAL copy (never hard links: coqc rewrites .vo files in place), refreshed incrementally
    os.makedirs(tree, exist_ok=True)
    subprocess.run(['rsync', '-a', '--delete', '--exclude', 'Makefile*', '--exclude', '.Makefile*',
                    f'{V}/coq/', tree + '/'], check=True)
    subprocess.run(['coq_makefile', '-f', '_CoqProject', '-o', 'Makefile'], cwd=tree, stdout=subprocess.DEVNULL,
                   stderr=subprocess.DEVNULL)


def evaluate():
    '''returns 'killed' / 'survived' / 'nocompile' '''
    r = subprocess.run(['timeout', '900', 'make', '-j8'] + targets, cwd=tree, stdout=subprocess.PIPE,
                       stderr=subprocess.STDOUT, text=True)
    if r.returncode != 0:
        return 'nocompile'
    procs = [subprocess.Popen(['bash', '-c', f'ulimit -s unlimited 2>/dev/null; exec timeout 600 coqc -Q {tree} VV '
                               f'-w -notation-overridden,-deprecated,-ambiguous-paths -R {kept} Kept {kept}/{c}'],
                              stdout=subprocess.PIPE, stderr=subprocess.STDOUT, text=True) for c in cases]
    verdict = 'survived'
    for p in procs:
        out, _ = p.communicate()
        if p.returncode != 0:
            verdict = 'killed'        # cases no longer type-check / evaluation fails
        elif re.search(r'=\s*\[\s*\d', out):
            verdict = 'killed'
    for c in cases:
        for ext in ('.vo', '.glob', '.vok', '.vos'):
            try:
                os.unlink(os.path.join(kept, c[:-2] + ext))
            except OSError:
                pass
    return verdict

fresh_tree()
base = evaluate()
report = {'property': pid, 'model_files': srcs, 'cases_files': len(cases), 'baseline': base, 'mutants': []}
if base != 'survived':
    report['error'] = 'the unmutated model does not agree with the kept cases: ' + base
else:
    for src, a, b, rep, ctxt in mutants:
        fresh_tree()
        text = open(f'{V}/coq/{src}').read()
        dst = os.path.join(tree, src)
        open(dst, 'w').write(text[:a] + rep + text[b:])
        verdict = evaluate()
        report['mutants'].append({'file': src, 'offset': a, 'from': text[a:b], 'to': rep, 'context': ctxt,
                                  'verdict': verdict})
        print(verdict, src, a, repr(text[a:b]), '->', rep, flush=True)
counts = {}
for m in report['mutants']:
    counts[m['verdict']] = counts.get(m['verdict'], 0) + 1
report['counts'] = counts
report['wall_s'] = round(time.time() - t0)
os.makedirs(f'{V}/evidence/modelmut', exist_ok=True)
json.dump(report, open(f'{V}/evidence/modelmut/{pid}.json', 'w'), indent=1)
shutil.rmtree(work, ignore_errors=True)
print(pid, counts)

#!/bin/bash
# coqchk_some.sh C01 C02 ...: re-check only the given property files (after a change of their
# sources) and replace their sections in /verif/coqchk.log.
cd /verif/coq
for id in "$@"; do
  m=VV.Props.$id
  tmp=$(mktemp)
  echo "==== coqchk -silent -o -Q . VV $m" > $tmp
  s=$(date +%s)
  timeout 2400 coqchk -silent -o -Q . VV $m >> $tmp 2>&1
  echo "---- exit $? after $(( $(date +%s) - s )) s" >> $tmp
  python3 - "$m" "$tmp" <<'PY'
import re, sys
m, tmp = sys.argv[1], sys.argv[2]
log = open('/verif/coqchk.log').read()
new = open(tmp).read()
pat = re.compile(r'==== coqchk -silent -o -Q \. VV ' + re.escape(m) + r'\n.*?---- exit \d+ after \d+ s\n', re.S)
log = pat.sub(lambda _: new, log) if pat.search(log) else log + new
open('/verif/coqchk.log', 'w').write(log)
PY
  rm -f $tmp
done

#!/bin/bash
# seedcheck.sh <property id> <dir with patch.diff and demo.py> [extra check ids...]
# Applies the seeded change in a scratch worktree of /repo (outside /repo and /verif), runs the
# demonstration on the unchanged and on the changed code, then the property's check against the
# changed checkout (VERIF_REPO), and removes the worktree.
pid=$1; dir=$(cd "$2" && pwd); shift 2
wt=/tmp/wt-seed-$$
git -C /repo worktree add -q $wt HEAD || exit 2
cd $wt
echo "== demo on unchanged code"; PYTHONPATH=$wt timeout 300 /venv/bin/python -W ignore "$dir"/demo.py 2>&1 | grep -v conda | tail -3; echo "exit ${PIPESTATUS[0]}"
if ! git apply "$dir/patch.diff"; then echo "PATCH DOES NOT APPLY"; git -C /repo worktree remove --force $wt; exit 2; fi
echo "== demo on changed code"; PYTHONPATH=$wt timeout 300 /venv/bin/python -W ignore "$dir"/demo.py 2>&1 | grep -v conda | tail -3; echo "exit ${PIPESTATUS[0]}"
for c in $pid "$@"; do
  echo "== check $c on changed code"
  VERIF_REPO=$wt /verif/check $c 2>&1 | grep -E "VIOLATION|KNOWN|OK |violation" | head -6 | cut -c1-200
  for f in /verif/.work/evidence-alt/replays/$c-*.json; do [ -f "$f" ] && python3 -c "
import json,sys; d=json.load(open('$f')); print('   ', d['kind'], ':', d['what'][:260])"; done
done
cd /; git -C /repo worktree remove --force $wt

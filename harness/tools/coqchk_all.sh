#!/bin/bash
# independent re-check of every property file (and everything it depends on) with coqchk -o
cd /verif/coq
mods=$(ls Props/*.v | sed 's|Props/\(.*\)\.v|VV.Props.\1|' | tr '\n' ' ')
echo "coqchk -silent -o -Q . VV $mods" > /verif/coqchk.log
( time timeout 7200 coqchk -silent -o -Q . VV $mods ) >> /verif/coqchk.log 2>&1
echo "exit $?" >> /verif/coqchk.log

#!/bin/bash
# Independent re-check of every property file (and everything it depends on) with `coqchk -o`,
# one property at a time, each under a timeout (coqchk has no VM: files proved by large
# vm_compute sweeps can take very long).  Writes /verif/coqchk.log.
cd /verif/coq
: > /verif/coqchk.log
for f in Props/*.v; do
  m=VV.Props.$(basename $f .v)
  echo "==== coqchk -silent -o -Q . VV $m" >> /verif/coqchk.log
  s=$(date +%s)
  timeout ${1:-2400} coqchk -silent -o -Q . VV $m >> /verif/coqchk.log 2>&1
  echo "---- exit $? after $(( $(date +%s) - s )) s" >> /verif/coqchk.log
done

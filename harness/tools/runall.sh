#!/bin/bash
# run every registered quick check once, sequentially; print one line per check
cd "$(dirname "$0")/../.."
for p in $(python3 -c "import json; print(' '.join(c['property_id'] for c in json.load(open('MANIFEST.json'))['checks']))"); do
  s=$(date +%s)
  out=$(./check $p --tier ${1:-quick} 2>&1)
  code=$?
  echo "$p exit=$code $(( $(date +%s) - s ))s :: $(echo "$out" | grep -E 'VIOLATION|KNOWN-FINDING|OK |violation' | head -3 | tr '\n' ' ' | cut -c1-260)"
done

#!/bin/bash
# seedregress.sh [extra seed root]: every stored seeded change (seeded/Cxx-k, plus <root>/cxx-k if given)
# is applied in a scratch worktree and the property's quick check must report a violation.
# Properties run in parallel (3 at a time), the seeds of one property one after the other.
# Output: .work/seedregress/<name>.out, summary on stdout.
cd /verif; out=${OUT:-.work/seedregress}; rm -rf $out; mkdir -p $out
one_prop() {
  pid=$1; shift
  for d in "$@"; do
    name=$(basename $d)
    /verif/harness/tools/seedcheck.sh $pid $d 2>&1 | grep -E "^exit|VIOLATION|OK |oracle :|correspondence :|harness :|PATCH" | cut -c1-250 | head -6 > /verif/$out/$pid--$name.out
  done
}
export -f one_prop; export out
for n in 01 02 03 04 05 06 07 08 09 10 11 12 13 14 15 16 17 18 19 20; do
  dirs=$(ls -d $([ -z "$ONLY_EXTRA" ] && echo seeded/C$n-*) ${1:+$1/c$n-*} 2>/dev/null | tr '\n' ' ')
  echo "C$n ${dirs% }"
done | xargs -P 3 -L 1 bash -c 'one_prop "$@"' _
python3 - <<'PY'
import glob, re, os
bad = []
n = 0
for f in sorted(glob.glob('/verif/' + os.environ.get('OUT', '.work/seedregress') + '/*.out')):
    b = open(f).read(); n += 1
    name = os.path.basename(f)[:-4]
    if 'PATCH DOES NOT' in b: bad.append((name, 'patch-fails'))
    elif 'no-failing-input-found' in b: bad.append((name, 'CORR-ONLY'))
    elif re.search(r'^VIOLATION', b, re.M): pass
    elif re.search(r': OK ', b): bad.append((name, 'MISSED'))
    else: bad.append((name, '?'))
print(n, 'seeds evaluated;', len(bad), 'not caught by an oracle:', bad)
PY

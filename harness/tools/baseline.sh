#!/bin/bash
# Runs the pinned baseline (BASELINE.json cmd) on a snapshot worktree of /repo HEAD (or $1) and compares
# with the stable_pass list. Prints tests of the baseline that no longer pass.
rev=${1:-HEAD}
wt=/tmp/wt-baseline-$$
git -C /repo worktree add -q $wt $rev || exit 2
cd $wt && GIT_CONFIG_GLOBAL=/dev/null timeout 3000 /venv/bin/python -m pytest -ra -q -p no:cacheprovider --timeout=900 --continue-on-collection-errors --junitxml=/tmp/baseline-$$.xml > /tmp/baseline-$$.log 2>&1
tail -3 /tmp/baseline-$$.log
python3 - /tmp/baseline-$$.xml <<'PY'
import json, sys, xml.etree.ElementTree as ET
base = set(json.load(open('/root/.vp/BASELINE.json'))['stable_pass'])
passed = set()
for tc in ET.parse(sys.argv[1]).getroot().iter('testcase'):
    ok = not any(ch.tag in ('failure', 'error', 'skipped') for ch in tc)
    name = tc.get('classname', '') + '::' + tc.get('name', '')
    if ok:
        passed.add(name)
missing = sorted(base - passed)
print('baseline tests:', len(base), 'passing now:', len(base & passed), 'no longer passing:', len(missing))
for m in missing[:40]:
    print('  ', m)
PY
cd /; git -C /repo worktree remove --force $wt; rm -f /tmp/baseline-$$.xml

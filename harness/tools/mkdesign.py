#!/usr/bin/env python3
'''Inline design.d/*.md into DESIGN.md between the AS-BUILT markers, and merge
known_findings.d/*.json into known_findings.json.'''
import json, os, re
V = '/verif'
text = open(f'{V}/DESIGN.md').read()
b, e = '<!-- BEGIN AS-BUILT (generated from design.d by harness/tools/mkdesign.py) -->', '<!-- END AS-BUILT -->'
parts = []
names = sorted(os.listdir(f'{V}/design.d'), key=lambda n: (n.startswith('Sched'), n))
for name in names:
    if name.endswith('.md'):
        body = open(f'{V}/design.d/{name}').read().strip()
        # demote headings so that they nest under section 9
        body = re.sub(r'^(#+) ', lambda m: '#' * max(3, len(m.group(1)) + 2) + ' ', body, flags=re.M)
        parts.append(f'<!-- {name} -->\n{body}\n')
block = b + '\n\n' + '\n'.join(parts) + '\n' + e
if b in text:
    text = text[:text.index(b)] + block + text[text.index(e) + len(e):]
else:
    text = text.rstrip() + '\n\n' + block + '\n'
open(f'{V}/DESIGN.md', 'w').write(text)
allf = []
d = f'{V}/known_findings.d'
for name in sorted(os.listdir(d)):
    if name.endswith('.json'):
        allf += json.load(open(os.path.join(d, name))).get('findings', [])
json.dump({'comment': 'merged from known_findings.d/*.json by harness/tools/mkdesign.py; status "known" entries '
                      'suppress exactly the violation whose key equals "match"; "fixed" entries suppress nothing',
           'findings': allf}, open(f'{V}/known_findings.json', 'w'), indent=1)
print('DESIGN.md as-built block:', len(parts), 'notes; known_findings.json:', len(allf), 'entries')

#!/usr/bin/env python3
'''Inline design.d/*.md into DESIGN.md between the AS-BUILT markers, and merge
known_findings.d/*.json into known_findings.json.'''
import json, os, re
V = '/verif'
text = open(f'{V}/DESIGN.md').read()
b, e = '<!-- BEGIN AS-BUILT (generated from design.d by harness/tools/mkdesign.py) -->', '<!-- END AS-BUILT -->'
parts = []
names = sorted(os.listdir(f'{V}/design.d'), key=lambda n: (n.startswith('Sched'), n))
for name in names:
    if name.endswith('.md'):
        body = open(f'{V}/design.d/{name}').read().strip()
        # demote headings so that they nest under section 9
        body = re.sub(r'^(#+) ', lambda m: '#' * max(3, len(m.group(1)) + 2) + ' ', body, flags=re.M)
        parts.append(f'<!-- {name} -->\n{body}\n')
block = b + '\n\n' + '\n'.join(parts) + '\n' + e
if b in text:
    text = text[:text.index(b)] + block + text[text.index(e) + len(e):]
else:
    text = text.rstrip() + '\n\n' + block + '\n'
open(f'{V}/DESIGN.md', 'w').write(text)
# ---- section 10: seeded changes
sb, se = '<!-- BEGIN SEEDS (generated from seeded/*/meta.json) -->', '<!-- END SEEDS -->'
rows = ['| seed | property | what it needs to manifest | caught by |', '|---|---|---|---|']
sd = f'{V}/seeded'
for name in sorted(os.listdir(sd)):
    mp = os.path.join(sd, name, 'meta.json')
    if os.path.exists(mp):
        m = json.load(open(mp))
        rows.append('| `seeded/%s` | %s | %s | %s |' % (name, m['property'], m['needs_to_manifest'].replace('|', '/'),
                                                    m['caught_by'].replace('|', '/')))
text = open(f'{V}/DESIGN.md').read()
block = sb + '\n' + '\n'.join(rows) + '\n' + se
if sb in text:
    text = text[:text.index(sb)] + block + text[text.index(se) + len(se):]
    open(f'{V}/DESIGN.md', 'w').write(text)
# ---- section 0: summary table
tb, te = '<!-- BEGIN SUMMARY (generated) -->', '<!-- END SUMMARY -->'
rows = ['| property | theorems in `Props/` | stdlib axioms under them | quick check: cases / wall s | seeded changes kept (all caught) | known findings |',
        '|---|---|---|---|---|---|']
known = {}
d1 = f'{V}/known_findings.d'
for name in sorted(os.listdir(d1)):
    if name.endswith('.json'):
        for x in json.load(open(os.path.join(d1, name))).get('findings', []):
            if x.get('status') == 'known':
                known.setdefault(x['property'], []).append(x.get('match'))
for n in range(1, 21):
    pid = f'C{n:02d}'
    ep = f'{V}/evidence/{pid}.json'
    if not os.path.exists(ep):
        continue
    ev = json.load(open(ep))
    cov = ev['coverage']
    ax = [t[len('stdlib axiom: '):] for t in cov.get('trusted_base', []) if t.startswith('stdlib axiom: ')]
    nseed = len([x for x in os.listdir(f'{V}/seeded') if x.startswith(pid + '-')])
    rows.append('| %s | %d | %s | %d / %.0f | %d | %s |' % (
        pid, cov.get('obligations', 0), 'none' if not ax else 'Reals + classic + funext (via Flocq)',
        cov.get('evaluations', 0), ev.get('wall_s', 0), nseed, ', '.join('`%s`' % k for k in known.get(pid, [])) or '-'))
text = open(f'{V}/DESIGN.md').read()
block = tb + '\n' + '\n'.join(rows) + '\n' + te
if tb in text:
    text = text[:text.index(tb)] + block + text[text.index(te) + len(te):]
    open(f'{V}/DESIGN.md', 'w').write(text)
# ---- section 10: model-mutation scores
mb, me = '<!-- BEGIN MODELMUT (generated from evidence/modelmut/*.json) -->', '<!-- END MODELMUT -->'
rows = ['| property | model files mutated | mutants | killed by the kept cases | survived | did not compile |', '|---|---|---|---|---|---|']
md = f'{V}/evidence/modelmut'
if os.path.isdir(md):
    for name in sorted(os.listdir(md)):
        r = json.load(open(os.path.join(md, name)))
        c = r.get('counts', {})
        rows.append('| %s | %s | %d | %d | %d | %d |' % (r['property'], ', '.join(r.get('model_files', [])), len(r.get('mutants', [])),
                                                   c.get('killed', 0), c.get('survived', 0), c.get('nocompile', 0)))
text = open(f'{V}/DESIGN.md').read()
block = mb + '\n' + '\n'.join(rows) + '\n' + me
if mb in text:
    text = text[:text.index(mb)] + block + text[text.index(me) + len(me):]
    open(f'{V}/DESIGN.md', 'w').write(text)
# ---- section 7: axioms actually reported by Print Assumptions (from the evidence files)
ab, ae = '<!-- BEGIN AXIOMS (generated from evidence/*.json) -->', '<!-- END AXIOMS -->'
rows = ['| property | theorems (obligations discharged) | assumptions printed by `Print Assumptions` |', '|---|---|---|']
for n in range(1, 21):
    pid = f'C{n:02d}'
    ep = f'{V}/evidence/{pid}.json'
    if os.path.exists(ep):
        cov = json.load(open(ep))['coverage']
        ax = [t[len('stdlib axiom: '):] for t in cov.get('trusted_base', []) if t.startswith('stdlib axiom: ')]
        rows.append('| %s | %d/%d | %s |' % (pid, cov.get('discharged', 0), cov.get('obligations', 0),
                                             ', '.join('`%s`' % a for a in ax) or 'none (closed under the global context)'))
text = open(f'{V}/DESIGN.md').read()
block = ab + '\n' + '\n'.join(rows) + '\n' + ae
if ab in text:
    text = text[:text.index(ab)] + block + text[text.index(ae) + len(ae):]
    open(f'{V}/DESIGN.md', 'w').write(text)
# ---- section 6.1: fix commits and known findings
import subprocess
fb, fe = '<!-- BEGIN FIXES (generated from git log of /repo and known_findings.d) -->', '<!-- END FIXES -->'
log = subprocess.run(['git', '-C', '/repo', 'log', '--reverse', '--format=%h %s', '42a56b7..HEAD'],
                     stdout=subprocess.PIPE, text=True).stdout.strip().split('\n')
rows = ['| commit in /repo | repair |', '|---|---|']
for line in log:
    h, _, msg = line.partition(' ')
    if msg.startswith('fix:'):
        rows.append('| `%s` | %s |' % (h, msg[4:].strip().replace('|', '/')))
rows.append('')
rows.append('Known findings (recorded, not repaired; each check prints `KNOWN-FINDING:` for exactly this key and '
            'still reports any other violation):')
rows.append('')
rows.append('| property | match key | what fails |')
rows.append('|---|---|---|')
d0 = f'{V}/known_findings.d'
for name in sorted(os.listdir(d0)):
    if name.endswith('.json'):
        for x in json.load(open(os.path.join(d0, name))).get('findings', []):
            if x.get('status') == 'known':
                rows.append('| %s | `%s` | %s |' % (x['property'], x.get('match'), x['what'].replace('|', '/')))
text = open(f'{V}/DESIGN.md').read()
block = fb + '\n' + '\n'.join(rows) + '\n' + fe
if fb in text:
    text = text[:text.index(fb)] + block + text[text.index(fe) + len(fe):]
    open(f'{V}/DESIGN.md', 'w').write(text)
allf = []
d = f'{V}/known_findings.d'
for name in sorted(os.listdir(d)):
    if name.endswith('.json'):
        allf += json.load(open(os.path.join(d, name))).get('findings', [])
json.dump({'comment': 'merged from known_findings.d/*.json by harness/tools/mkdesign.py; status "known" entries '
                      'suppress exactly the violation whose key equals "match"; "fixed" entries suppress nothing',
           'findings': allf}, open(f'{V}/known_findings.json', 'w'), indent=1)
print('DESIGN.md as-built block:', len(parts), 'notes; known_findings.json:', len(allf), 'entries')

#!/bin/bash
# refcheck.sh <dir with patch.diff> <property id>: run the property's quick check against a checkout with a
# (supposedly harmless) refactoring applied; the check should stay quiet
dir=$(cd "$1" && pwd); pid=$2
wt=/tmp/wt-ref-$$
git -C /repo worktree add -q $wt HEAD || exit 2
cd $wt
if ! git apply "$dir/patch.diff" 2>/dev/null; then echo "$pid $(basename $dir): PATCH DOES NOT APPLY"; cd /; git -C /repo worktree remove --force $wt; exit 2; fi
out=$(VERIF_SEARCH_TIMEOUT=90 VERIF_REPO=$wt /verif/check $pid 2>&1)
code=$?
echo "$pid $(basename $dir): exit=$code $(echo "$out" | grep -E 'VIOLATION|OK ' | head -2 | tr '\n' ' ' | cut -c1-200)"
if [ $code -ne 0 ]; then for f in /verif/.work/evidence-alt/replays/$pid-*.json; do [ -f "$f" ] && python3 -c "
import json; d=json.load(open('$f')); print('      ', d['kind'], ':', d['what'][:400])"; done; fi
cd /; git -C /repo worktree remove --force $wt

'''C10: numbers read from Tripoli-4 listings and Apollo3 HDF5 files are the
numbers written there.

Tripoli-4: synthetic listings are assembled from the response layouts of the
shipped example listings (spectrum, spectrum by time steps, generic
energy-integrated response, keff block; groups and time steps printed upwards
or downwards; several editions, responses, scoring zones; signs, zeros, "NOT
YET CONVERGED") around a drawn abstract document, parsed with the real
``Parser(...).parse_from_number/index(...).to_browser()`` and every dataset is
compared with the ground truth of the document (oracle, by bounds look-up) and
with the Coq model of the post-grammar pipeline (C10/Model.v, bit-exact).
Text level (C10/Text.v): the text of every generated edition block must be the
text the model printer prints for the document, and what the model parser
extracts from it must be what the real pyparsing grammar extracted (observed
in front of the transform layer); the same comparison runs on the result
blocks of the shipped example listings whose layout the model parser knows.

Apollo3: h5py writes files from drawn abstract trees following the layout
documented in hdf5_reader.py; ``Reader(...).to_browser()``, ``Picker.pick_*``,
the ground truth and the Coq model of reader and picker (C10/Apollo.v) are
compared.'''
import json
import os
import struct

import numpy as np

from vp import common
from vp.common import cz, cn, cb, clist, copt, cstr

IMPORTS = '''From Coq Require Import List ZArith String.
From VV Require Import Lib.Base Lib.B64 C11.Pystr C10.Model C10.Floats C10.Apollo C10.Check.
From VV Require Import C10.Text C10.TextCheck.
Import ListNotations.
Local Open Scope string_scope.
'''

DATA = 'tests/eponine/tripoli4/data'
STARS = '*' * 78


def fbits(x):
    return common.canon_bits(float(x))


# --------------------------------------------------------------------------
# Tripoli-4: document -> text (layouts cut out of ttsSimplePacket20.d.res.ceav5,
# gauss_E_time_mu_phi.res.ceav5, cylindreDecR_with_kij_on_mesh.d.res.ceav5)

def header(repo):
    lines = open(os.path.join(repo, DATA, 'ttsSimplePacket20.d.res.ceav5'), encoding='utf-8',
                 errors='ignore').read().split('\n')
    i_init = next(i for i, l in enumerate(lines) if 'initialization time' in l)
    return lines[:i_init + 1]


def response_head(resp):
    out = ['', '', STARS, 'RESPONSE FUNCTION : %s' % resp['function']]
    if resp.get('name') is not None:
        out.append('RESPONSE NAME : %s' % resp['name'])
    if resp.get('score_name'):
        out.append('SCORE NAME : %s' % resp['score_name'])
    out += ['ENERGY DECOUPAGE NAME : %s' % resp['decoupage'], '', '', ' PARTICULE : NEUTRON ', STARS, '']
    return out


def zone_head(zone):
    return ['\t scoring mode : %s' % zone['mode'],
            '\t scoring zone : \t Volume \t num of volume : %d' % zone['vol'],
            '\t Volume in cm3: 1.000000e+00', '', '']


def spectrum_lines(rows, disc):
    out = ['\t SPECTRUM RESULTS', '\t number of first discarded batches : %d' % disc, '',
           '\t group (MeV) \t\t score   \t sigma_% \t score/lethargy', '']
    for row in rows:
        out.append('%s - %s\t%s\t%s\t%s' % tuple(row))
    out.append('')
    return out


def integrated_lines(integ, disc, used):
    out = ['\t ENERGY INTEGRATED RESULTS', '', '\t number of first discarded batches : %d' % disc, '']
    if integ is None:
        out += ['\t NOT YET CONVERGED ', '']
    else:
        out += ['number of batches used: %d\t%s\t%s' % (used, integ[0], integ[1]), '']
    out.append('')
    return out


def time_head(k, tmin, tmax):
    return ['\t TIME STEP NUMBER : %d' % k, '\t ------------------------------------',
            '\t\t time min. = %s' % tmin, '\t\t time max. = %s' % tmax, '']


def generic_lines(gen, used):
    return ['', STARS, 'RESPONSE FUNCTION : %s' % gen['function'], STARS, '',
            '\tENERGY INTEGRATED RESULTS', '',
            'number of batches used:\t%d\t%s\t%s' % (used, gen['score'], gen['sigma']), '', '']


def keff_lines(kef):
    return ['', STARS, 'RESPONSE FUNCTION : KEFFS', STARS, '', '\tENERGY INTEGRATED RESULTS', '',
            'number of batches used:\t%d' % kef['used'], '',
            ' KSTEP  %s\t%s' % tuple(kef['KSTEP']), ' KCOLL  %s\t%s' % tuple(kef['KCOLL']),
            ' KTRACK %s\t%s' % tuple(kef['KTRACK']), '',
            '  \t  estimators  \t\t\t  correlations   \t  combined values  \t  combined sigma%',
            '  \t  KSTEP <-> KCOLL  \t    \t  %s  \t  %s  \t  %s' % tuple(kef['c01']),
            '  \t  KSTEP <-> KTRACK  \t    \t  %s  \t  %s  \t  %s' % tuple(kef['c02']),
            '  \t  KCOLL <-> KTRACK  \t    \t  %s  \t  %s  \t  %s' % tuple(kef['c12']), '',
            '  \t  full combined estimator  %s\t%s' % tuple(kef['full']), '', '', '']


def mesh_lines(mesh, used):
    '''mesh response (layout of box_dyn.res.ceav5 / tungstene.d.res.ceav5)'''
    out = response_head(mesh)
    out += ['\t scoring mode : %s' % mesh['mode'], '\t scoring zone : \t Results on a mesh: ',
            '\t Cell   \t  tally   \t  sigma (percent)', '', '']
    nu, nv, nw = mesh['shape']
    cells = [(i, j, k) for i in range(nu) for j in range(nv) for k in range(nw)]

    def block(vals):
        return ['\t (%d,%d,%d)\t %s\t%s' % (c + tuple(v)) for c, v in zip(cells, vals)]
    for k, stp in enumerate(mesh['steps']):
        if mesh['with_time']:
            out += ['\t TIME STEP NUMBER: %d' % k, '\t ------------------------------------',
                    '\t\t time min. = %s' % stp['tmin'], '\t\t time max. = %s' % stp['tmax'],
                    '\t\t\t (in neut.cm.s^-1)', '']
        for rng_ in stp['ranges']:
            out += ['Energy range (in MeV): %s - %s' % (rng_['a'], rng_['b'])] + block(rng_['cells']) + ['']
            if rng_.get('entropy'):         # layout of entropy.d.res.ceav5
                out += [' \t Boltzmann Entropy of sources = %s' % rng_['entropy'][0],
                        '\t Shannon Entropy of sources = %s' % rng_['entropy'][1], '']
        if stp['eint'] is not None:
            out += ['', 'ENERGY INTEGRATED RESULTS :'] + block(stp['eint']) + ['']
        out += ['number of batches used: %d\t%s\t%s' % (used, stp['integ'][0], stp['integ'][1]), '']
    out += ['']
    return out


IFP_DIMS = ['X', 'Y', 'Z', 'Phi', 'Theta', 'E']


def ifp_lines(tables):
    '''IFP adjoint criticality edition (layout of test_adjoint_small.d.res): tables by
    volume (Vol, E) or by kinematic variables (X, Y, Z[, Phi, Theta], E); the first
    column runs fastest'''
    out = ['', STARS, '', 'IFP_ADJOINT_CRITICALITY EDITION', '', STARS, '']
    for tab in tables:
        out += ['IFP_ADJOINT_FLUX', '', 'SCORE NAME: %s' % tab['name'], '',
                'IFP CYCLE LENGTH = %d' % tab['cycle'], '', STARS, '']
        if tab['kind'] == 'vol':
            out += ['  Vol                  E (min | max)   score [a.u.]       sigma_%', '']
            for row in tab['rows']:
                out.append('%5d %13s %13s %13s %13s' % tuple(row))
        else:
            out += [''.join('%25s' % (d + ' (min | max)') for d in tab['dims']) + '   score [a.u.]       sigma_%',
                    '']
            for row in tab['rows']:
                out.append(' '.join('%13s' % x for x in row).rstrip())
        out += ['', STARS, '']
    return out


def edition_lines(edi):
    out = ['*' * 57, '', ' RESULTS ARE GIVEN FOR SOURCE INTENSITY : 1.000000e+00', '*' * 57, '', '',
           ' Mean weight leakage = 7.111140e+02\t sigma = 4.388024e+00\t sigma% = 6.170634e-01', '', '',
           ' Edition after batch number : %d' % edi['batch'], '']
    for resp in edi['responses']:
        out += response_head(resp)
        for zone in resp['zones']:
            out += zone_head(zone)
            for k, stp in enumerate(zone['steps']):
                if zone['with_time']:
                    out += time_head(k, stp['tmin'], stp['tmax'])
                out += spectrum_lines(stp['rows'], edi['disc'])
                out += integrated_lines(stp['integ'], edi['disc'], edi['used'])
            out += ['']
    for mesh in edi.get('meshes', []):
        out += mesh_lines(mesh, edi['used'])
    for gen in edi['generic']:
        out += generic_lines(gen, edi['used'])
    if edi.get('keff'):
        out += keff_lines(edi['keff'])
    if edi.get('ifp'):
        out += ifp_lines(edi['ifp'])
    out += ['', ' simulation time (s) : %d' % edi['time'], '', '']
    return out


def listing_text(doc, head):
    lines = list(head)
    for edi in doc['editions']:
        lines += ['', ' batch number : %d' % edi['batch'], '']
        lines += edition_lines(edi)
    lines += [' Type and parameters of random generator at the end of simulation: ',
              '\t DRAND48_RANDOM 13236 22148 49521  COUNTER\t807336835', '', '',
              '=' * 69, '\tNORMAL COMPLETION', '=' * 69, '']
    return '\n'.join(lines)


# --------------------------------------------------------------------------
# Tripoli-4: drawing a document

def numeral(rng, kind='score'):
    r = rng.random()
    if kind == 'sigma':
        if r < 0.15:
            return '0.000000e+00'
        return '%.6e' % (10 ** rng.uniform(-3, 2))
    if r < 0.15:
        return '0.000000e+00'
    if r < 0.2:
        return '-0.000000e+00'
    val = 10 ** rng.uniform(-12, 6) * (1 if rng.random() < 0.7 else -1)
    return '%.6e' % val


def edges(rng, n, lo, hi):
    '''n + 1 distinct increasing edges, as numerals'''
    while True:
        vals = sorted(10 ** rng.uniform(lo, hi) for _ in range(n + 1))
        nums = ['%.6e' % v for v in vals]
        if len(set(float(x) for x in nums)) == n + 1:
            return nums


def draw_zone(rng, vol, mode, bounds, downward):
    with_time = rng.random() < 0.45
    nsteps = rng.choice([1, 2, 2, 3]) if with_time else 1
    if with_time:
        if rng.random() < 0.5:
            tedges = edges(rng, nsteps, -9, 3)
        else:
            tedges = ['0.000000e+00'] + edges(rng, nsteps - 1, -9, 3) if nsteps > 1 \
                else ['0.000000e+00', '1.000000e+35']
        tdown = rng.random() < 0.5 and nsteps > 1
        pairs = [(tedges[i], tedges[i + 1]) for i in range(nsteps)]
        if tdown:
            pairs.reverse()
    else:
        pairs = [(None, None)]
    groups = [(bounds[i], bounds[i + 1]) for i in range(len(bounds) - 1)]
    if downward:
        groups = [(b, a) for a, b in reversed(groups)]
    steps = []
    for tmin, tmax in pairs:
        rows = [[a, b, numeral(rng), numeral(rng, 'sigma'), numeral(rng)] for a, b in groups]
        integ = None if rng.random() < 0.2 else [numeral(rng), numeral(rng, 'sigma')]
        steps.append({'tmin': tmin, 'tmax': tmax, 'rows': rows, 'integ': integ})
    return {'mode': mode, 'vol': vol, 'with_time': with_time, 'steps': steps}


def draw_doc(rng):
    nedit = rng.choice([1, 2, 2, 3])
    batch = 0
    editions = []
    nresp = rng.choice([1, 2, 2, 3, 4])
    shapes = []
    for ires in range(nresp):
        ngroups = rng.choice([1, 2, 3, 4, 6])
        shapes.append({'function': rng.choice(['FLUX', 'FLUX', 'REACTION', 'COURANT']) if False else 'FLUX',
                       'name': 'resp_%d' % ires, 'decoupage': 'DEC_%d' % ires,
                       'bounds': edges(rng, ngroups, -11, 1.3), 'downward': rng.random() < 0.6,
                       'vols': rng.sample(range(1, 9), rng.choice([1, 2, 3])),
                       'mode': rng.choice(['SCORE_COLL', 'SCORE_TRACK'])})
    for _ in range(nedit):
        batch += rng.randint(1, 400)
        responses = []
        for shp in shapes:
            zones = [draw_zone(rng, vol, shp['mode'], shp['bounds'], shp['downward']) for vol in shp['vols']]
            responses.append({'function': shp['function'], 'name': shp['name'], 'decoupage': shp['decoupage'],
                              'zones': zones})
        generic = []
        for fun in rng.sample(['TOTAL FISSION RATE', 'PRODUCTION', 'REMOVAL LIFETIME'], rng.choice([0, 1, 2])):
            generic.append({'function': fun, 'score': numeral(rng), 'sigma': numeral(rng, 'sigma')})
        keff = None
        if rng.random() < 0.5:
            def kk():
                return ['%.6e' % rng.uniform(0.5, 1.5), '%.6e' % rng.uniform(0.01, 2)]
            keff = {'used': rng.randint(2, 90), 'KSTEP': kk(), 'KCOLL': kk(), 'KTRACK': kk(),
                    'c01': ['%.6e' % rng.uniform(-1, 1)] + kk(), 'c02': ['%.6e' % rng.uniform(-1, 1)] + kk(),
                    'c12': ['%.6e' % rng.uniform(-1, 1)] + kk(), 'full': kk()}
        editions.append({'batch': batch, 'disc': rng.randint(0, 50), 'used': rng.randint(1, 300),
                         'time': rng.randint(0, 5000), 'responses': responses, 'generic': generic,
                         'keff': keff})
    return {'editions': editions}


def other_digits(num, rng):
    '''another numeral of exactly the same width (same sign, same exponent)'''
    mant, exp = num.split('e')
    out = []
    for pos, cha in enumerate(mant):
        if cha.isdigit():
            lead = not any(c.isdigit() for c in mant[:pos])
            out.append(str(rng.randint(1, 9)) if lead else str(rng.randint(0, 9)))
        else:
            out.append(cha)
    return ''.join(out) + 'e' + exp


def same_length_variant(doc, rng):
    '''the same layout with other digits in the printed values (bounds, names and
    structure kept): a listing of exactly the same byte length and another content'''
    new = json.loads(json.dumps(doc))
    for edi in new['editions']:
        edi['time'] = int(''.join(str(rng.randint(1, 9)) for _ in str(edi['time'])))
        for resp in edi['responses']:
            for zone in resp['zones']:
                for stp in zone['steps']:
                    for row in stp['rows']:
                        row[2:] = [other_digits(x, rng) for x in row[2:]]
                    if stp['integ'] is not None:
                        stp['integ'] = [other_digits(x, rng) for x in stp['integ']]
        for mesh in edi.get('meshes', []):
            for stp in mesh['steps']:
                for rng_ in stp['ranges']:
                    rng_['cells'] = [[other_digits(x, rng) for x in c] for c in rng_['cells']]
                if stp['eint'] is not None:
                    stp['eint'] = [[other_digits(x, rng) for x in c] for c in stp['eint']]
                stp['integ'] = [other_digits(x, rng) for x in stp['integ']]
        for gen in edi['generic']:
            gen['score'], gen['sigma'] = other_digits(gen['score'], rng), other_digits(gen['sigma'], rng)
    return new


def draw_unconverged_doc(rng):
    '''a document in which spectra by time steps have NOT YET CONVERGED integrated
    results in some steps while the first printed step is converged'''
    for _ in range(200):
        doc = draw_doc(rng)
        found = False
        for edi in doc['editions']:
            for resp in edi['responses']:
                for zone in resp['zones']:
                    if zone['with_time'] and len(zone['steps']) >= 2:
                        zone['steps'][0]['integ'] = [numeral(rng), numeral(rng, 'sigma')]
                        for k in rng.sample(range(1, len(zone['steps'])), rng.randint(1, len(zone['steps']) - 1)):
                            zone['steps'][k]['integ'] = None
                        found = True
        if found:
            return doc
    return doc


def draw_mesh(rng, ires):
    '''a mesh score: cells x energy ranges x time steps, each axis printed upwards
    or downwards independently, with or without the energy-integrated mesh'''
    shape = rng.choice([(1, 1, 3), (2, 1, 2), (1, 2, 2), (2, 2, 1), (1, 1, 1), (2, 2, 2)])
    ncell = shape[0] * shape[1] * shape[2]
    bounds = edges(rng, rng.choice([1, 2, 2, 3, 3]), -11, 1.3)
    groups = [(bounds[i], bounds[i + 1]) for i in range(len(bounds) - 1)]
    if rng.random() < 0.5:
        groups = [(b, a) for a, b in reversed(groups)]
    with_time = rng.random() < 0.55
    nsteps = rng.choice([2, 2, 3, 4]) if with_time else 1
    if with_time:
        tedges = edges(rng, nsteps, -9, 3)
        pairs = [(tedges[i], tedges[i + 1]) for i in range(nsteps)]
        if rng.random() < 0.5:
            pairs.reverse()
    else:
        pairs = [(None, None)]
    with_eint = rng.random() < 0.7
    with_entropy = not with_time and len(groups) >= 2 and rng.random() < 0.8   # (no time axis for entropies)
    steps = []
    for tmin, tmax in pairs:
        ranges = [{'a': a, 'b': b, 'cells': [[numeral(rng), numeral(rng, 'sigma')] for _ in range(ncell)]}
                  for a, b in groups]
        eint = [[numeral(rng), numeral(rng, 'sigma')] for _ in range(ncell)] if with_eint else None
        if with_entropy:
            for k, rng_ in enumerate(ranges):
                rng_['entropy'] = ['%.6e' % (0.1 + 0.07 * k + rng.uniform(0, 0.05)),
                                   '%.6e' % (0.5 + 0.09 * k + rng.uniform(0, 0.05))]
        steps.append({'tmin': tmin, 'tmax': tmax, 'ranges': ranges, 'eint': eint,
                      'integ': [numeral(rng), numeral(rng, 'sigma')]})
    return {'function': 'FLUX', 'name': 'mesh_resp_%d' % ires, 'score_name': 'mesh_score_%d' % ires,
            'decoupage': 'GRID_%d' % ires, 'mode': 'SCORE_TRACK', 'shape': list(shape),
            'with_time': with_time, 'steps': steps}


def draw_ifp_table(rng, num):
    '''at least two entries along every index, all values distinct'''
    def e3(x):
        return '%.3e' % x
    nen = rng.choice([2, 3])
    eedges = sorted(set(float(e3(10 ** rng.uniform(-9, 1.2))) for _ in range(nen + 6)))[:nen + 1]
    while len(eedges) < nen + 1:
        eedges.append(eedges[-1] * 3.0)
    rows = []
    count = [0]

    def value():
        count[0] += 1
        return [e3(0.01 * count[0] + rng.uniform(0, 0.004)), e3(0.5 + 0.03 * count[0])]
    if num % 3 == 0:
        vols = sorted(rng.sample(range(1, 40), rng.choice([2, 3, 4])))
        for ien in range(nen):
            for vol in vols:
                rows.append([vol, e3(eedges[ien]), e3(eedges[ien + 1])] + value())
        return {'kind': 'vol', 'name': 'flux_vol_%d' % num, 'cycle': rng.randint(2, 9), 'rows': rows}
    dims = ['X', 'Y', 'Z'] + (['Phi', 'Theta'] if num % 3 == 2 else []) + ['E']
    axes = {}
    for dim in dims[:-1]:
        nbin = 2 if len(dims) > 4 else rng.choice([2, 3])
        lo = rng.choice([-5.0, -3.142, 0.0, -1.0])
        axes[dim] = [float(e3(lo + k * rng.choice([1.571, 2.5, 5.0]))) for k in range(nbin + 1)]
        axes[dim] = sorted(set(axes[dim]))
    axes['E'] = eedges
    sizes = [len(axes[d]) - 1 for d in dims]
    total = 1
    for size in sizes:
        total *= size
    for flat in range(total):
        idx, rest = [], flat
        for size in sizes:              # the first column runs fastest
            idx.append(rest % size)
            rest //= size
        row = []
        for dim, k in zip(dims, idx):
            row += [e3(axes[dim][k]), e3(axes[dim][k + 1])]
        rows.append(row + value())
    return {'kind': 'kin', 'dims': dims, 'name': 'FluxAdj_%d' % num, 'cycle': rng.randint(2, 9), 'rows': rows}


def expected_ifp(tab):
    '''cell = the row printed for these bounds (look-up in the sorted bounds)'''
    if tab['kind'] == 'vol':
        vols = sorted(set(r[0] for r in tab['rows']))
        eds = sorted(set(float(x) for r in tab['rows'] for x in r[1:3]))
        val, err = np.full((len(vols), len(eds) - 1), np.nan), np.full((len(vols), len(eds) - 1), np.nan)
        for vol, elo, ehi, sco, sig in tab['rows']:
            idx = (vols.index(vol), eds.index(float(elo)))
            val[idx] = float(sco)
            err[idx] = np.float64(float(sig)) * np.float64(float(sco)) * 0.01
        return {'bins': {'Vol': vols, 'E': eds}, 'val': val, 'err': err}
    dims = tab['dims']
    axes = {d: sorted(set(float(x) for r in tab['rows'] for x in r[2 * k:2 * k + 2])) for k, d in enumerate(dims)}
    shape = tuple((len(axes[d]) - 1) if d in axes else 1 for d in IFP_DIMS) + (1,)
    val, err = np.full(shape, np.nan), np.full(shape, np.nan)
    for row in tab['rows']:
        idx = [0] * 7
        for k, dim in enumerate(dims):
            idx[IFP_DIMS.index(dim)] = axes[dim].index(float(row[2 * k]))
        val[tuple(idx)] = float(row[-2])
        err[tuple(idx)] = np.float64(float(row[-1])) * np.float64(float(row[-2])) * 0.01
    return {'bins': axes, 'val': val, 'err': err}


def ifp_oracle(tab, res, fail):
    exp = expected_ifp(tab)
    dset = res.get('score')
    if dset is None or tuple(dset.value.shape) != exp['val'].shape:
        fail(f'IFP table {tab["name"]}: shape {getattr(getattr(dset, "value", None), "shape", None)}, '
             f'expected {exp["val"].shape}', 't4-ifp-shape')
        return
    if not same(dset.value, exp['val']):
        fail(f'IFP table {tab["name"]}: a value is not the one printed on the row of its '
             + ('(volume, group)' if tab['kind'] == 'vol' else 'cell and group'), 't4-ifp-value')
    if not same(dset.error, exp['err']):
        fail(f'IFP table {tab["name"]}: error is not value * sigma% * 0.01 of the same row', 't4-ifp-error')
    for dim, edges_ in exp['bins'].items():
        if not same(dset.bins[dim], edges_):
            fail(f'IFP table {tab["name"]}: bins {dim} are not the printed bounds', 't4-ifp-bins')


def draw_mesh_doc(rng):
    doc = draw_doc(rng)
    for edi in doc['editions']:
        edi['responses'] = edi['responses'][:rng.choice([0, 1])]
    nmesh = rng.choice([1, 1, 2])
    protos = [draw_mesh(rng, k) for k in range(nmesh)]
    for num, edi in enumerate(doc['editions']):
        edi['meshes'] = protos if num == 0 else [draw_mesh(rng, k) for k in range(nmesh)]
        if rng.random() < 0.6:
            first = rng.randrange(3)
            edi['ifp'] = [draw_ifp_table(rng, first + k) for k in range(rng.choice([1, 2, 3]))]
    return doc


def expected_mesh(mesh):
    '''value[u, v, w, i, j] = the tally printed for cell (u, v, w) in the energy
    range whose bounds are {ebins[i], ebins[i+1]} of the time step whose bounds
    are (tbins[j], tbins[j+1])'''
    nu, nv, nw = mesh['shape']
    first = mesh['steps'][0]['ranges']
    eset = sorted(set(float(r['a']) for r in first) | set(float(r['b']) for r in first))
    if mesh['with_time']:
        tset = sorted(set(float(s['tmin']) for s in mesh['steps']) | set(float(s['tmax']) for s in mesh['steps']))
        ntim = len(tset) - 1
    else:
        tset, ntim = [], 1
    shape = (nu, nv, nw, len(eset) - 1, ntim)
    val, err = np.full(shape, np.nan), np.full(shape, np.nan)
    ival, ierr = np.full((nu, nv, nw, ntim), np.nan), np.full((nu, nv, nw, ntim), np.nan)
    sval, serr = np.full((ntim,), np.nan), np.full((ntim,), np.nan)
    cells = [(i, j, k) for i in range(nu) for j in range(nv) for k in range(nw)]

    def perc(sig, sco):
        return np.float64(float(sig)) * np.float64(float(sco)) * 0.01
    for stp in mesh['steps']:
        jtime = tset.index(float(stp['tmin'])) if mesh['with_time'] else 0
        for rng_ in stp['ranges']:
            ien = eset.index(min(float(rng_['a']), float(rng_['b'])))
            for cell, (sco, sig) in zip(cells, rng_['cells']):
                val[cell + (ien, jtime)] = float(sco)
                err[cell + (ien, jtime)] = perc(sig, sco)
        if stp['eint'] is not None:
            for cell, (sco, sig) in zip(cells, stp['eint']):
                ival[cell + (jtime,)] = float(sco)
                ierr[cell + (jtime,)] = perc(sig, sco)
        sval[jtime] = float(stp['integ'][0])
        serr[jtime] = perc(stp['integ'][1], stp['integ'][0])
    entropies = None
    if first[0].get('entropy'):
        entropies = np.full((2, len(eset) - 1), np.nan)
        for rng_ in mesh['steps'][0]['ranges']:
            ien = eset.index(min(float(rng_['a']), float(rng_['b'])))
            entropies[0, ien], entropies[1, ien] = float(rng_['entropy'][0]), float(rng_['entropy'][1])
    return {'ebins': eset, 'tbins': tset, 'val': val, 'err': err, 'ival': ival, 'ierr': ierr,
            'sval': sval, 'serr': serr, 'entropies': entropies}


def mesh_oracle(ctx, mesh, res, fail):
    exp = expected_mesh(mesh)
    lab = mesh['name']
    dset = res.get('score')
    want_shape = exp['val'].shape + (1, 1)
    if dset is None or dset.value.shape != want_shape:
        fail(f'mesh {lab}: score shape {getattr(getattr(dset, "value", None), "shape", None)}, expected '
             f'{want_shape}', 't4-mesh-shape')
        return
    if not same(dset.value, exp['val']):
        fail(f'mesh {lab}: a tally is not the one printed for its cell, energy range and time step',
             't4-mesh-value')
    if not same(dset.error, exp['err']):
        fail(f'mesh {lab}: error is not value * sigma% * 0.01', 't4-mesh-error')
    if not same(dset.bins['e'], exp['ebins']) or not same(dset.bins['t'], exp['tbins']):
        fail(f'mesh {lab}: energy/time bins are not the printed bounds in increasing order', 't4-mesh-bins')
    for axis, num in zip('uvw', mesh['shape']):
        if not same(dset.bins[axis], list(range(num))):
            fail(f'mesh {lab}: space bins {axis}', 't4-mesh-bins')
    iset = res.get('score_eintegrated')
    if mesh['steps'][0]['eint'] is not None:
        if iset is None or iset.value.shape != exp['ival'].shape[:3] + (1, exp['ival'].shape[3], 1, 1):
            fail(f'mesh {lab}: no / misshapen energy-integrated mesh', 't4-mesh-eintegrated')
        else:
            if not same(iset.value, exp['ival']) or not same(iset.error, exp['ierr']):
                fail(f'mesh {lab}: energy-integrated tally of a cell is not the one printed for that cell '
                     'and time step', 't4-mesh-eintegrated')
            if not same(iset.bins['t'], exp['tbins']) or \
                    not same(iset.bins['e'], [exp['ebins'][0], exp['ebins'][-1]]):
                fail(f'mesh {lab}: bins of the energy-integrated mesh', 't4-mesh-eintegrated')
    elif iset is not None:
        fail(f'mesh {lab}: an energy-integrated mesh that was not printed', 't4-mesh-eintegrated')
    for num, key in enumerate(('boltzmann_entropy', 'shannon_entropy')):
        eset_ = res.get(key)
        if exp['entropies'] is None:
            if eset_ is not None:
                fail(f'mesh {lab}: {key} that was not printed', 't4-mesh-entropy')
        elif eset_ is None or np.asarray(eset_.value).shape != (1, 1, 1, len(exp['ebins']) - 1, 1, 1, 1) \
                or not same(eset_.value, exp['entropies'][num]):
            fail(f'mesh {lab}: {key} of an energy range is not the one printed after that range', 't4-mesh-entropy')
        elif not same(eset_.bins['e'], exp['ebins']):
            fail(f'mesh {lab}: energy bins of {key}', 't4-mesh-entropy')
    sset = res.get('score_seintegrated' if mesh['with_time'] else 'score_integrated')
    if sset is None or not same(sset.value, exp['sval']) or not same(sset.error, exp['serr']):
        fail(f'mesh {lab}: space and energy integrated result differs from the printed one',
             't4-mesh-integrated')
    elif mesh['with_time'] and not same(sset.bins['t'], exp['tbins']):
        fail(f'mesh {lab}: time bins of the integrated result', 't4-mesh-integrated')


class CellView:
    '''one cell of a mesh dataset seen as an energy x time spectrum (for the Coq model)'''

    def __init__(self, dset, cell):
        self.value = np.asarray(dset.value)[cell]
        self.error = np.asarray(dset.error)[cell]
        self.bins = dset.bins


def mesh_cell_case(mesh, res, icell):
    '''the energy x time plane of one cell as a case of the post-grammar model'''
    nu, nv, nw = mesh['shape']
    cell = (icell // (nv * nw), (icell // nw) % nv, icell % nw)
    zone = {'with_time': mesh['with_time'], 'steps': [
        {'tmin': stp['tmin'], 'tmax': stp['tmax'],
         'rows': [[r['a'], r['b'], r['cells'][icell][0], r['cells'][icell][1]] for r in stp['ranges']],
         'integ': None if stp['eint'] is None else stp['eint'][icell]} for stp in mesh['steps']]}
    view = {'score': CellView(res['score'], cell)}
    if mesh['with_time'] and mesh['steps'][0]['eint'] is not None and 'score_eintegrated' in res:
        view['score_eintegrated'] = CellView(res['score_eintegrated'], cell)
    return zone_case(zone, view)


# --------------------------------------------------------------------------
# Tripoli-4: ground truth by look-up (independent of the flip logic)

def expected_zone(zone):
    '''bins and cell contents: the value at [i][j] is the score printed for
    the group whose bounds are {ebins[i], ebins[i+1]} in the time step whose
    bounds are (tbins[j], tbins[j+1])'''
    rows0 = zone['steps'][0]['rows']
    eset = sorted(set(float(r[0]) for r in rows0) | set(float(r[1]) for r in rows0))
    ne = len(eset) - 1
    if zone['with_time']:
        tset = sorted(set(float(s['tmin']) for s in zone['steps'])
                      | set(float(s['tmax']) for s in zone['steps']))
        nt = len(tset) - 1
    else:
        tset, nt = [], 1
    val = np.full((ne, nt), np.nan)
    err = np.full((ne, nt), np.nan)
    leth = np.full((ne, nt), np.nan)
    ival = np.full((nt,), np.nan)
    ierr = np.full((nt,), np.nan)
    for stp in zone['steps']:
        jtime = tset.index(float(stp['tmin'])) if zone['with_time'] else 0
        assert not zone['with_time'] or tset[jtime + 1] == float(stp['tmax'])
        for row in stp['rows']:
            lo, hi = sorted((float(row[0]), float(row[1])))
            i = eset.index(lo)
            assert eset[i + 1] == hi
            val[i, jtime] = float(row[2])
            err[i, jtime] = np.float64(float(row[3])) * np.float64(float(row[2])) * 0.01
            leth[i, jtime] = float(row[4])
        if stp['integ'] is not None:
            ival[jtime] = float(stp['integ'][0])
            ierr[jtime] = np.float64(float(stp['integ'][1])) * np.float64(float(stp['integ'][0])) * 0.01
    return {'ebins': eset, 'tbins': tset, 'val': val, 'err': err, 'leth': leth, 'ival': ival, 'ierr': ierr}


def same(a, b):
    a = np.asarray(a, dtype=float).reshape(-1)
    b = np.asarray(b, dtype=float).reshape(-1)
    return a.shape == b.shape and all(fbits(x) == fbits(y) for x, y in zip(a, b))


def find_items(browser, **labels):
    '''content items carrying exactly these metadata values'''
    return [res for res in browser.content if all(res.get(k) == v for k, v in labels.items())]


def t4_oracle(ctx, edi, browser, case, requested):
    '''every dataset of the browser against the ground truth of the edition'''
    def fail(what, key):
        ctx.oracle_failure(f'{what} :: edition {edi["batch"]} of listing {case["listing"]}', case, key=key)
    glob = browser.globals
    if glob.get('batch_number') != requested or glob.get('edition_batch_number') != edi['batch'] \
            or requested != edi['batch']:
        fail(f'edition {requested} requested, batch_number {glob.get("batch_number")} / '
             f'edition_batch_number {glob.get("edition_batch_number")} returned', 't4-wrong-edition')
    if glob.get('simulation_time') != edi['time']:
        fail('simulation time of another edition', 't4-wrong-time')
    seen = 0
    for resp in edi['responses']:
        for zone in resp['zones']:
            sel = find_items(browser, response_function=resp['function'], response_name=resp['name'],
                                    scoring_zone_id=zone['vol'], scoring_mode=zone['mode'],
                                    energy_split_name=resp['decoupage'])
            if len(sel) != 1:
                fail(f'{len(sel)} results for response {resp["name"]} zone {zone["vol"]}', 't4-missing-result')
                continue
            seen += 1
            res = sel[0]['results']
            exp = expected_zone(zone)
            dset = res.get('score')
            if dset is None:
                fail('no score dataset', 't4-missing-result')
                continue
            shape = (1, 1, 1, len(exp['ebins']) - 1, max(1, len(exp['tbins']) - 1), 1, 1)
            if dset.value.shape != shape:
                fail(f'score shape {dset.value.shape}, expected {shape}', 't4-shape')
                continue
            if not same(dset.value, exp['val']):
                fail(f'score of response {resp["name"]} zone {zone["vol"]} is not the printed value '
                     'of the group/time step its bins designate', 't4-value')
            if not same(dset.error, exp['err']):
                fail(f'error of response {resp["name"]} zone {zone["vol"]} is not value * sigma% * 0.01',
                     't4-error')
            lset = res.get('score/lethargy')
            if lset is None or not same(lset.value, exp['leth']):
                fail(f'score/lethargy of response {resp["name"]} zone {zone["vol"]} is not the printed value '
                     'of the group/time step its bins designate', 't4-lethargy')
            dis = res.get('discarded_batches')
            if dis is None or not same(dis.value, [edi['disc']]):
                fail(f'discarded batches of response {resp["name"]} zone {zone["vol"]} differ from the '
                     'printed number', 't4-batches')
            if not same(dset.bins['e'], exp['ebins']):
                fail(f'energy bins {dset.bins["e"].tolist()} are not the printed bounds in increasing order',
                     't4-ebins')
            if not same(dset.bins['t'], exp['tbins']):
                fail(f'time bins {dset.bins["t"].tolist()} are not the printed bounds in increasing order',
                     't4-tbins')
            if zone['with_time']:
                iset = res.get('score_eintegrated')
                if iset is None:
                    fail('no energy-integrated dataset', 't4-missing-result')
                else:
                    if not same(iset.value, exp['ival']) or not same(iset.error, exp['ierr']):
                        fail(f'energy-integrated result of response {resp["name"]} zone {zone["vol"]} '
                             'differs from the printed one', 't4-integrated')
                    if not same(iset.bins['t'], exp['tbins']) or \
                            not same(iset.bins['e'], [exp['ebins'][0], exp['ebins'][-1]]):
                        fail('bins of the energy-integrated result', 't4-integrated-bins')
            else:
                iset = res.get('score_integrated')
                if iset is None:
                    fail('no integrated dataset', 't4-missing-result')
                elif not same(iset.value, exp['ival']) or not same(iset.error, exp['ierr']):
                    fail(f'integrated result of response {resp["name"]} zone {zone["vol"]} differs '
                         'from the printed one (NaN when not converged)', 't4-integrated')
    for mesh in edi.get('meshes', []):
        sel = find_items(browser, response_name=mesh['name'], scoring_zone_type='Mesh',
                         score_name=mesh['score_name'], energy_split_name=mesh['decoupage'])
        if len(sel) != 1:
            fail(f'{len(sel)} results for mesh {mesh["name"]}', 't4-missing-result')
            continue
        seen += 1
        mesh_oracle(ctx, mesh, sel[0]['results'], fail)
    for tab in edi.get('ifp', []):
        sel = find_items(browser, response_type='ifp_adj_crit_edition', score_name=tab['name'],
                         ifp_cycle_length=tab['cycle'])
        if len(sel) != 1:
            fail(f'{len(sel)} results for the IFP table {tab["name"]}', 't4-missing-result')
            continue
        seen += 1
        ifp_oracle(tab, sel[0]['results'], fail)
    for gen in edi['generic']:
        sel = find_items(browser, response_function=gen['function'])
        if len(sel) != 1:
            fail(f'{len(sel)} results for {gen["function"]}', 't4-missing-result')
            continue
        seen += 1
        dset = sel[0]['results'].get('score_generic')
        want = np.float64(float(gen['sigma'])) * np.float64(float(gen['score'])) * 0.01
        if dset is None or not same(dset.value, [float(gen['score'])]) or not same(dset.error, [want]):
            fail(f'{gen["function"]}: value/error differ from the printed ones', 't4-generic')
    if edi.get('keff'):
        kef = edi['keff']
        printed = {'KSTEP': kef['KSTEP'], 'KCOLL': kef['KCOLL'], 'KTRACK': kef['KTRACK'],
                   'KSTEP-KCOLL': kef['c01'][1:], 'KSTEP-KTRACK': kef['c02'][1:],
                   'KCOLL-KTRACK': kef['c12'][1:], 'full combination': kef['full']}
        corr = {'KSTEP-KCOLL': kef['c01'][0], 'KSTEP-KTRACK': kef['c02'][0], 'KCOLL-KTRACK': kef['c12'][0]}
        for est, (valn, sign) in printed.items():
            sel = find_items(browser, response_function='KEFFS', keff_estimator=est)
            if len(sel) != 1:
                fail(f'{len(sel)} keff results for estimator {est}', 't4-missing-result')
                continue
            seen += 1
            dset = sel[0]['results'].get('keff')
            want = np.float64(float(sign)) * np.float64(float(valn)) * 0.01
            if dset is None or not same(dset.value, [float(valn)]) or not same(dset.error, [want]):
                fail(f'keff {est}: value/error differ from the printed ones', 't4-keff')
            cset = sel[0]['results'].get('correlation_keff')
            if est in corr and (cset is None or not same(cset.value, [float(corr[est])])):
                fail(f'keff {est}: correlation differs from the printed one', 't4-keff')
    extra = [r for r in browser.content if r.get('response_type') not in ('keff_auto',)]
    if len(extra) != seen:
        fail(f'{len(extra)} results returned, {seen} printed', 't4-extra-results')


def zone_case(zone, res):
    '''Coq literal of one model case: printed numbers and what came back'''
    def zrow(r):
        return '(%s, %s, %s, %s)' % (cz(fbits(r[0])), cz(fbits(r[1])), cz(fbits(r[2])), cz(fbits(r[3])))
    steps = []
    for stp in zone['steps']:
        integ = 'None' if stp['integ'] is None else \
            '(Some (%s, %s))' % (cz(fbits(stp['integ'][0])), cz(fbits(stp['integ'][1])))
        tmin = cz(fbits(stp['tmin'])) if zone['with_time'] else cz(0)
        tmax = cz(fbits(stp['tmax'])) if zone['with_time'] else cz(0)
        steps.append('(%s, %s, %s, %s)' % (tmin, tmax, clist([zrow(r) for r in stp['rows']]), integ))

    def bits(arr):
        return clist([cz(fbits(x)) for x in np.asarray(arr, dtype=float).reshape(-1)])
    dset = res['score']
    if zone['with_time'] and 'score_eintegrated' in res:
        iset = res['score_eintegrated']
        integ = '(%s, %s, %s)' % (bits(iset.value), bits(iset.error), bits(iset.bins['e']))
    else:
        integ = '([], [], [])'
    return '(%s, %s, (%s, %s, %s, %s, %s))' % (cb(zone['with_time']), clist(steps), bits(dset.bins['e']),
                                              bits(dset.bins['t']), bits(dset.value), bits(dset.error),
                                              integ)


# --------------------------------------------------------------------------
# Tripoli-4, text level: the block of an edition (what the scanner hands to the
# grammar), the document it was printed from, and what the REAL pyparsing
# grammar extracted from it, observed before the transform layer (recorders put
# in front of the parse actions of the grammar elements; they return None, the
# tokens go on unchanged).  Compared inside Coq with the model printer and the
# model parser of C10/Text.v (check_gen / check_ship in C10/TextCheck.v).

NUMCH = set('0123456789+-.eE')
TAPPED = ('response', 'scoreblock', 'genericscoreblock', 'keffblock')


def is_num(tok):
    return tok != '' and set(tok) <= NUMCH and any(c.isdigit() for c in tok)


def plain(obj):
    '''ParseResults -> python lists / dicts, leaves unchanged'''
    if hasattr(obj, 'as_dict') and hasattr(obj, 'as_list'):
        names = list(obj.keys())
        if names:
            return {k: plain(obj[k]) for k in names}
        return [plain(x) for x in obj]
    if isinstance(obj, (list, tuple)):
        return [plain(x) for x in obj]
    return obj


def install_tap():
    '''recorders on the grammar elements; None when the grammar is organised otherwise'''
    from valjean.eponine.tripoli4 import grammar
    tap = getattr(grammar, '_verif_tap', None)
    if tap is not None:
        return tap
    elts = {name: getattr(grammar, name, None) for name in TAPPED}
    if any(el is None or not isinstance(getattr(el, 'parseAction', None), list) for el in elts.values()):
        return None
    tap = {'rec': {}}

    def recorder(tag):
        def rec(_text, loc, toks):
            tap['rec'][(loc, tag)] = plain(toks[0])
        return rec
    for name, el in elts.items():
        el.parseAction.insert(0, recorder(name))
    grammar._verif_tap = tap
    return tap


class NumTab:
    '''numeral tokens of a text with the bits of their float()'''
    def __init__(self, text):
        self.toks, self.index, self.bybits = [], {}, {}
        for tok in text.split():
            self.add(tok)

    def add(self, tok):
        if tok in self.index or not is_num(tok):
            return
        try:
            bits = fbits(float(tok))
        except ValueError:
            return
        self.index[tok] = len(self.toks)
        self.bybits.setdefault(bits, len(self.toks))
        self.toks.append((tok, bits))

    def of_value(self, val):
        '''index of a token whose float() is this number (len = none)'''
        try:
            if isinstance(val, (str, bytes, list, dict)) or val is None:
                raise TypeError
            return self.bybits.get(fbits(float(val)), len(self.toks))
        except (TypeError, ValueError):
            return len(self.toks)

    def coq(self):
        return clist(['(%s, %s)' % (cbstr(t), cz(b)) for t, b in self.toks])


def cbstr(text):
    data = text.encode('utf-8')
    if all(c >= 32 or c == 9 for c in data) and all(c < 127 for c in data):
        return '"' + text.replace('"', '""') + '"%bs'
    return '(bsn [' + '; '.join(str(c) for c in data) + ']%N)'


def coq_lines(block):
    '''the lines of a block as a table of distinct lines and identifiers'''
    lines = block.split('\n')
    if lines and lines[-1] == '':
        lines.pop()
    uniq, ids = {}, []
    for line in lines:
        ids.append(uniq.setdefault(line, len(uniq)))
    return (clist([cbstr(u) for u in uniq]), clist([str(i) for i in ids]), lines)


def r_m(k):
    return 'Rm %d' % k


def real_integ(integ, tab):
    if integ is None:
        return [r_m(40)]
    if not isinstance(integ, dict):
        return [r_m(99)]
    out = [r_m(41), 'Rn %d' % tab.of_value(integ.get('discarded_batches'))]
    if 'not_converged' in integ:
        return out + [r_m(42)]
    return out + [r_m(43)] + ['Rn %d' % tab.of_value(integ.get(k)) for k in ('used_batches', 'score', 'sigma')]


def real_zone(rec, tab):
    '''atoms of a raw score block (spectrum layouts)'''
    out = [r_m(10), 'Rw %s' % cbstr(str(rec.get('scoring_mode'))),
           'Rn %d' % (tab.of_value(rec.get('scoring_zone_id')) if rec.get('scoring_zone_type') == 'Volume'
                      else len(tab.toks))]
    groups = rec.get('spectrum_res') or []
    top = rec.get('integrated_res')
    for k, grp in enumerate(groups):
        out.append(r_m(20))
        if not isinstance(grp, dict) or set(grp) - {'time_step', 'discarded_batches', 'spectrum_vals',
                                                     'integrated_res'}:
            out.append(r_m(99))
            continue
        if 'time_step' in grp:
            out += [r_m(21)] + ['Rn %d' % tab.of_value(x) for x in grp['time_step']]
        else:
            out.append(r_m(22))
        out.append('Rn %d' % tab.of_value(grp.get('discarded_batches')))
        for row in grp.get('spectrum_vals', []):
            out += [r_m(30)] + ['Rn %d' % tab.of_value(x) for x in row]
        integ = grp.get('integrated_res')
        if integ is None and k == len(groups) - 1:
            integ = top
        out += real_integ(integ, tab) + [r_m(23)]
    out.append(r_m(11))
    return out


def real_generic(rec, tab):
    if 'not_converged' in rec:
        return [r_m(51)]
    return [r_m(50)] + ['Rn %d' % tab.of_value(rec.get(k)) for k in ('used_batches', 'score', 'sigma')]


def real_keff(rec, tab):
    out = [r_m(60), 'Rn %d' % tab.of_value(rec.get('used_batches'))]
    ests = rec.get('res_per_estimator')
    corr = rec.get('correlation_mat')
    full = rec.get('full_comb_estimation')
    if not isinstance(ests, list) or [e[0] for e in ests] != ['KSTEP', 'KCOLL', 'KTRACK'] \
            or not isinstance(corr, list) or not isinstance(full, list) \
            or [tuple(c[0]) for c in corr] != [('KSTEP', 'KCOLL'), ('KSTEP', 'KTRACK'), ('KCOLL', 'KTRACK')]:
        return out + [r_m(99)]
    for est in ests:
        out += ['Rn %d' % tab.of_value(x) for x in est[1:]]
    for cor in corr:
        out += ['Rn %d' % tab.of_value(x) for x in cor[1:]]
    return out + ['Rn %d' % tab.of_value(x) for x in full]


def real_block(records, pres, tab):
    '''atoms of a whole edition: responses in the order of the text'''
    out = [r_m(80), 'Rn %d' % tab.of_value(pres.get('batch_data', {}).get('edition_batch_number'))]
    locs = sorted(records)
    resp_locs = [loc for loc, tag in locs if tag == 'response']
    for i, rloc in enumerate(resp_locs):
        end = resp_locs[i + 1] if i + 1 < len(resp_locs) else float('inf')
        rec = records[(rloc, 'response')]
        out += [r_m(70), 'Rw %s' % cbstr(str(rec.get('response_function')))]
        for key, mark in (('response_name', 71), ('score_name', 72), ('energy_split_name', 73)):
            if key in rec:
                out += [r_m(mark), 'Rw %s' % cbstr(str(rec[key]))]
        for loc, tag in locs:
            if rloc <= loc < end and tag != 'response':
                sub = records[(loc, tag)]
                out += {'scoreblock': real_zone, 'genericscoreblock': real_generic,
                        'keffblock': real_keff}[tag](sub, tab)
        out.append(r_m(79))
    times = pres.get('batch_data', {})
    return out + ['Rn %d' % tab.of_value(times.get('simulation_time')), r_m(89)]


def coq_doc(edi, tab):
    '''Coq literal of the document of an edition (numerals by index in the table)'''
    def num(val):
        tok = val if isinstance(val, str) else '%d' % val
        tab.add(tok)
        return '(n %d)' % tab.index.get(tok, len(tab.toks))

    def words(text):
        return clist(['lit_b %s' % cbstr(w) for w in text.split()])

    def integ(stp):
        res = 'None' if stp['integ'] is None else \
            '(Some (%s, %s, %s))' % (num(edi['used']), num(stp['integ'][0]), num(stp['integ'][1]))
        return '(Some (mk_dinteg %s %s))' % (num(edi['disc']), res)
    resps = []
    for resp in edi['responses']:
        zones = []
        for zone in resp['zones']:
            steps = []
            for k, stp in enumerate(zone['steps']):
                tim = '(Some (%s, %s, %s))' % (num(k), num(stp['tmin']), num(stp['tmax'])) \
                    if zone['with_time'] else 'None'
                rows = clist(['mk_drow ' + ' '.join(num(x) for x in row) for row in stp['rows']])
                steps.append('mk_dstep %s %s %s %s' % (tim, num(edi['disc']), rows, integ(stp)))
            zones.append('mk_dzone (lit_b %s) %s %s' % (cbstr(zone['mode']), num(zone['vol']), clist(steps)))
        attrs = []
        if resp.get('name') is not None:
            attrs.append('ARespName %s' % words(resp['name']))
        if resp.get('score_name'):
            attrs.append('AScoreName %s' % words(resp['score_name']))
        attrs.append('ADecoupage %s' % words(resp['decoupage']))
        resps.append('mk_dresp %s %s (BZones %s)' % (words(resp['function']), clist(attrs), clist(zones)))
    for gen in edi['generic']:
        resps.append('mk_dresp %s [] (BGeneric %s %s %s)' % (words(gen['function']), num(edi['used']),
                                                           num(gen['score']), num(gen['sigma'])))
    if edi.get('keff'):
        kef = edi['keff']

        def tup(vals):
            return '(' + ', '.join(num(v) for v in vals) + ')'
        resps.append('mk_dresp [lit_b "KEFFS"%%bs] [] (BKeff (mk_dkeff %s (%s, %s, %s) (%s, %s, %s) %s))'
                     % (num(kef['used']), tup(kef['KSTEP']), tup(kef['KCOLL']), tup(kef['KTRACK']),
                        tup(kef['c01']), tup(kef['c02']), tup(kef['c12']), tup(kef['full'])))
    return '(fun n : N -> str => mk_doc %s %s %s)' % (num(edi['batch']), clist(resps), num(edi['time']))


def gen_text_case(edi, block, records, pres):
    '''Coq literal of a check_gen case'''
    tab = NumTab(block)
    real = clist(real_block(records, pres, tab))
    doc = coq_doc(edi, tab)            # may append numerals that are not in the text
    uniq, ids, _ = coq_lines(block)
    return '(%s, %s, %s, %s, %s)' % (tab.coq(), uniq, ids, doc, real)


def ship_text_case(block, records):
    '''Coq literal of a check_ship case and the description of its result blocks'''
    tab = NumTab(block)
    uniq, ids, _ = coq_lines(block)
    blocks, descr = [], []
    expanded = block.expandtabs()      # pyparsing locates tokens in the text with tabs expanded
    for (loc, tag) in sorted(records):
        if tag == 'response':
            continue
        kind = {'scoreblock': 0, 'genericscoreblock': 1, 'keffblock': 2}[tag]
        atoms = {0: real_zone, 1: real_generic, 2: real_keff}[kind](records[(loc, tag)], tab)
        off = expanded.count('\n', 0, loc)
        blocks.append('(%d, %d, %s)' % (off, kind, clist(atoms)))
        descr.append({'line': off, 'element': tag})
    return '(%s, %s, %s, %s)' % (tab.coq(), uniq, ids, clist(blocks)), descr


def shipped_listings(repo):
    '''the example listings the tests of valjean read'''
    folder = os.path.join(repo, DATA)
    return sorted(f for f in os.listdir(folder) if '.res' in f and not f.startswith('failure'))


def run_shipped(ctx, tap):
    '''result blocks of the shipped listings as the real grammar sees them'''
    from valjean.eponine.tripoli4.parse import Parser
    cases, index = [], []
    quick = ctx.tier == 'quick'
    for name in shipped_listings(common.REPO):
        path = os.path.join(common.REPO, DATA, name)
        if quick and os.path.getsize(path) > 400000:
            ctx.count('t4_shipped_skipped_quick')
            continue
        try:
            par = Parser(path)
            numbers = par.batch_numbers()
        except Exception:  # noqa
            ctx.count('t4_shipped_unreadable')
            continue
        for number in (numbers[-1:] if quick else numbers[-2:]):
            block = par.scan_res[number]
            if quick and len(block) > 20000:
                ctx.count('t4_shipped_skipped_quick')
                continue
            tap['rec'] = {}
            try:
                par.parse_from_number(number)
            except Exception:  # noqa
                ctx.count('t4_shipped_unreadable')
                continue
            records = tap['rec']
            if not any(tag != 'response' for _, tag in records):
                continue
            lit, descr = ship_text_case(block, records)
            cases.append(lit)
            index.append({'kind': 't4ship', 'listing': name, 'edition': number, 'blocks': descr})
            ctx.count('t4_shipped_editions')
    return cases, index


def run_t4(ctx, nlist, tap=None):
    from valjean.eponine.tripoli4.parse import Parser
    rng = ctx.rng
    head = header(common.REPO)
    wdir = ctx.wd()
    cases, index = [], []
    textcases, textindex = [], []
    ntext = nlist if ctx.tier != 'quick' else max(1, nlist // 3)
    for num in range(nlist):
        doc = draw_doc(rng)
        text = listing_text(doc, head)
        path = os.path.join(wdir, f't4_{num}.res')
        with open(path, 'w', encoding='utf-8') as fil:
            fil.write(text)
        case = {'kind': 't4', 'listing': num, 'doc': doc}
        ctx.count('t4_listings')
        ctx.count('t4_editions', len(doc['editions']))
        try:
            par = Parser(path)
            numbers = par.batch_numbers()
        except Exception as exc:  # noqa
            ctx.oracle_failure(f'Parser raises {type(exc).__name__} on a generated listing :: {num}', case,
                               key='t4-parser-raises')
            continue
        if numbers != [e['batch'] for e in doc['editions']]:
            ctx.oracle_failure(f'editions {numbers} found, {[e["batch"] for e in doc["editions"]]} written '
                               f':: {num}', case, key='t4-editions')
            continue
        order = list(range(len(numbers)))
        rng.shuffle(order)
        for idx in order:
            edi = doc['editions'][idx]
            if tap is not None:
                tap['rec'] = {}
            try:
                if rng.random() < 0.5:
                    pres = par.parse_from_number(edi['batch'])
                    ctx.count('t4_parse_from_number')
                else:
                    pres = par.parse_from_index(rng.choice([idx, idx - len(numbers)]))
                    ctx.count('t4_parse_from_index')
                browser = pres.to_browser()
            except Exception as exc:  # noqa
                ctx.oracle_failure(f'parsing raises {type(exc).__name__} on a generated listing :: edition '
                                   f'{edi["batch"]} of {num}', case, key='t4-parser-raises')
                continue
            t4_oracle(ctx, edi, browser, case, edi['batch'])
            if tap is not None and num < ntext:
                textcases.append(gen_text_case(edi, par.scan_res[edi['batch']], tap['rec'], pres.pres))
                textindex.append({'kind': 't4', 'listing': num, 'edition': edi['batch'], 'doc': doc,
                                  'level': 'text'})
                ctx.count('t4_text_editions')
            for resp in edi['responses']:
                for zone in resp['zones']:
                    sel = find_items(browser, response_function=resp['function'], response_name=resp['name'],
                                            scoring_zone_id=zone['vol'], scoring_mode=zone['mode'])
                    if len(sel) == 1 and 'score' in sel[0]['results']:
                        cases.append(zone_case(zone, sel[0]['results']))
                        index.append({'kind': 't4', 'listing': num, 'edition': edi['batch'],
                                      'response': resp['name'], 'zone': zone['vol'], 'doc': doc})
                        ctx.count('t4_zone_downward' if float(zone['steps'][0]['rows'][0][0])
                                  > float(zone['steps'][0]['rows'][0][1]) else 't4_zone_upward')
                        ctx.count('t4_zone_time' if zone['with_time'] else 't4_zone_notime')
            # the sample written to the evidence shows what the edition contains (responses, zones, printed rows)
            ctx.case_seen({'kind': 't4', 'listing': num, 'edition': edi['batch'],
                           'responses': [{'function': r.get('function'), 'name': r.get('name'),
                                          'zones': [{'vol': z.get('vol'), 'with_time': z.get('with_time'),
                                                     'first_step_rows': z['steps'][0]['rows'][:3]}
                                                    for z in r.get('zones', [])][:2]}
                                         for r in edi.get('responses', [])][:2]}, True, sample_every=97)
        os.unlink(path)
    return cases, index, textcases, textindex


def run_t4_mesh(ctx, nlist):
    '''listings with mesh scores (oracle per cell, energy range and time step;
    the energy x time plane of sampled cells goes to the post-grammar model)'''
    from valjean.eponine.tripoli4.parse import Parser
    rng = ctx.rng
    head = header(common.REPO)
    cases, index = [], []
    for num in range(nlist):
        doc = draw_mesh_doc(rng)
        path = os.path.join(ctx.wd(), f't4mesh_{num}.res')
        with open(path, 'w', encoding='utf-8') as fil:
            fil.write(listing_text(doc, head))
        case = {'kind': 't4', 'listing': f'mesh{num}', 'doc': doc}
        ctx.count('t4_mesh_listings')
        try:
            par = Parser(path)
            for edi in doc['editions']:
                browser = par.parse_from_number(edi['batch']).to_browser()
                t4_oracle(ctx, edi, browser, case, edi['batch'])
                for tab in edi.get('ifp', []):
                    ctx.count('t4_ifp_table_' + (tab['kind'] if tab['kind'] == 'vol' else '%dd' % len(tab['dims'])))
                for mesh in edi['meshes']:
                    ctx.count('t4_mesh_time_%s' % ('none' if not mesh['with_time'] else
                                                   'down' if float(mesh['steps'][0]['tmin'])
                                                   > float(mesh['steps'][-1]['tmin']) else 'up'))
                    ctx.count('t4_mesh_energy_%s' % ('down' if float(mesh['steps'][0]['ranges'][0]['a'])
                                                     > float(mesh['steps'][0]['ranges'][0]['b']) else 'up'))
                    ctx.count('t4_mesh_eintegrated_%s' % ('yes' if mesh['steps'][0]['eint'] else 'no'))
                    if mesh['steps'][0]['ranges'][0].get('entropy'):
                        ctx.count('t4_mesh_entropy_%d_ranges' % len(mesh['steps'][0]['ranges']))
                    sel = find_items(browser, response_name=mesh['name'], scoring_zone_type='Mesh')
                    if len(sel) == 1 and 'score' in sel[0]['results']:
                        ncell = mesh['shape'][0] * mesh['shape'][1] * mesh['shape'][2]
                        for icell in rng.sample(range(ncell), min(2, ncell)):
                            try:
                                cases.append(mesh_cell_case(mesh, sel[0]['results'], icell))
                            except (IndexError, KeyError):
                                continue        # misshapen result: the oracle has reported it
                            index.append({'kind': 't4', 'listing': f'mesh{num}', 'edition': edi['batch'],
                                          'response': mesh['name'], 'zone': f'cell {icell}', 'doc': doc})
                ctx.case_seen({'kind': 't4mesh', 'listing': num, 'edition': edi['batch']}, True,
                              sample_every=31)
        except Exception as exc:  # noqa
            ctx.oracle_failure(f'parsing raises {type(exc).__name__} on a generated listing with mesh scores '
                               f':: {num}', case, key='t4-parser-raises')
        os.unlink(path)
    return cases, index


# --------------------------------------------------------------------------
# Apollo3: abstract tree -> HDF5 file, ground truth, Coq literal

SCALARS = ('KEFF', 'KINF', 'MIGRATIONAREA')


def draw_tree(rng):
    '''abstract standard-layout tree: dict of outputs'''
    tree = {}
    for iout in range(rng.choice([1, 1, 2])):
        oname = rng.choice(['output_%d', 'output_%d', 'output_cœur_%d', 'output_long_name_of_a_calculation_%d']) % iout
        ngr = rng.choice([1, 2, 3, 4])
        zones = {}
        total = {}
        for nam in rng.sample(SCALARS, rng.choice([1, 2, 3])):
            total[nam] = [rng.uniform(0.5, 1.5)]
        for nam in rng.sample(['FLUX', 'ABSORPTION', 'PRODUCTION'], rng.choice([0, 1, 2, 3])):
            total[nam] = [rng.uniform(-1, 10) for _ in range(ngr)]
        zones['totaloutput'] = {'total': total}
        for izone in range(rng.choice([1, 2, 3])):
            # labels are arbitrary UTF-8 strings stored as fixed-length bytes: non-ASCII characters,
            # spaces inside, long names
            zname = rng.choice(['fuel', 'clad', 'mod', 'q', 'Zone_A', 'z', 'cœur', 'zone réflecteur ',
                                'a_rather_long_zone_name_for_a_moderator_region_']) + str(izone)
            isotopes = rng.sample(['U235', 'U238', 'Xe135', 'I135', 'Sm149', 'O16', 'H1_H2O', 'PF_résiduel',
                                   'H1 in H2O', 'Am242m_état_métastable_with_a_long_name', 'Résidu'],
                                  rng.choice([0, 0, 1, 2, 3]))
            zone = {'flux': [rng.uniform(0, 10) for _ in range(ngr)] if rng.random() < 0.9 else None,
                    'isotopes': isotopes, 'concen': [rng.uniform(1e-6, 1e-1) for _ in isotopes], 'groups': {}}

            def draw_group(per_result_info):
                grp = {'results': {}, 'aniso': None, 'aniso_by_result': {}}
                top = rng.choice([None, 1, 2, 4])
                grp['aniso'] = top
                # reaction ids are arbitrary strings: a few lower-case ones (they come after
                # 'nbAnisotropy' in h5py's iteration order)
                for rnam in rng.sample(['Absorption', 'Fission', 'NuFission', 'Total', 'Diffusion', 'Nexcess',
                                        'MultigroupSpectrum', 'scattering', 'transfer'], rng.randint(1, 6)):
                    if rnam == 'MultigroupSpectrum':
                        size = ngr * rng.choice([1, 2, 3])
                    elif rnam in ('Diffusion', 'scattering') and (top or per_result_info):
                        nan = top or 1
                        if per_result_info and rng.random() < 0.7:
                            nan = rng.choice([1, 2, 3])
                            grp['aniso_by_result'][rnam] = nan
                        size = ngr * nan
                    else:
                        size = ngr
                        if per_result_info and rng.random() < 0.3:
                            grp['aniso_by_result'][rnam] = 1
                    grp['results'][rnam] = [rng.uniform(-5, 5) for _ in range(size)]
                return grp
            if rng.random() < 0.8:
                zone['groups']['macro'] = draw_group(True)
            for iso in isotopes:
                if rng.random() < 0.85:
                    zone['groups'][iso] = draw_group(False)
            zones[zname] = zone
        tree[oname] = {'ng': ngr, 'zones': zones}
    storage = rng.choice(STORAGES)
    for out in tree.values():
        out['storage'] = storage
    return tree


def write_hdf(tree, path):
    import h5py
    set_storage(next(iter(tree.values())).get('storage', '<f4'))
    with h5py.File(path, 'w') as hfile:
        info = hfile.create_group('info')
        info['NOUT'] = np.array([len(tree)], dtype=STORE['i'])
        geom = hfile.create_group('geometry')
        geom['NGEO'] = np.array([len(tree)], dtype=STORE['i'])
        for iout, (oname, out) in enumerate(tree.items()):
            gname = f'geometry_{iout}'
            ginfo = info.create_group(oname)
            ginfo['GEOMID'] = np.array([gname.encode()], dtype='S10')
            ginfo['NG'] = np.array([out['ng']], dtype=STORE['i'])
            znames = [z for z in out['zones'] if z != 'totaloutput']
            ggeo = geom.create_group(gname)
            ggeo['NZONE'] = np.array([len(znames)], dtype=STORE['i'])
            ggeo['VOLUME'] = np.array([1.0 + k for k in range(len(znames))], dtype=STORE['f'])
            ggeo['ZONENAME'] = np.array([z.encode('utf-8') for z in znames],
                                        dtype='S%d' % max([12] + [len(z.encode('utf-8')) + 2 for z in znames]))
            gout = hfile.create_group(oname)
            for zname, zone in out['zones'].items():
                gzone = gout.create_group(zname)
                if zname == 'totaloutput':
                    for nam, vals in zone['total'].items():
                        gzone[nam] = np.array(vals, dtype=STORE['f'])
                    continue
                gzone['NISOT'] = np.array([len(zone['isotopes'])], dtype=STORE['i'])
                if zone['isotopes']:
                    gzone['ISOTOPE'] = np.array(
                        [(i + '   ').encode('utf-8') for i in zone['isotopes']],
                        dtype='S%d' % max(12, max(len(i.encode('utf-8')) for i in zone['isotopes']) + 5))
                    gzone['CONCEN'] = np.array(zone['concen'], dtype=STORE['d'])
                if zone['flux'] is not None:
                    gzone['FLUX'] = np.array(zone['flux'], dtype=STORE['f'])
                for gname2, grp in zone['groups'].items():
                    ggrp = gzone.create_group(gname2)
                    for rnam, vals in grp['results'].items():
                        ggrp[rnam] = np.array(vals, dtype=STORE['f'])
                    if grp['aniso'] is not None or grp['aniso_by_result']:
                        ginf = ggrp.create_group('info')
                        if grp['aniso'] is not None:
                            ginf['nbAnisotropy'] = np.array([grp['aniso']], dtype=STORE['i'])
                        for rnam, nan in grp['aniso_by_result'].items():
                            ginf.create_group(rnam)['nbAnisotropy'] = np.array([nan], dtype=STORE['i'])


STORE = {'f': '<f4', 'd': '<f8', 'i': '<i4'}     # number types of the file being written / compared


def set_storage(kind):
    '''the layout fixes names and shapes, not the HDF5 number types: single or
    double precision, little- or big-endian, 4- or 8-byte integers'''
    order = kind[0]
    STORE['f'] = order + kind[1:]
    STORE['d'] = order + 'f8'
    STORE['i'] = order + ('i8' if kind[1:] == 'f8' else 'i4')


STORAGES = ['<f4', '<f4', '>f4', '<f8', '>f8']


def f32(vals):
    '''the numbers as they are stored (precision of the file)'''
    return [float(np.dtype(STORE['f']).type(v)) for v in vals]


def truth_items(tree):
    '''every stored result with its labels, stored numbers, expected shape/bins'''
    set_storage(next(iter(tree.values())).get('storage', '<f4'))
    items = []
    for oname, out in tree.items():
        ngr = out['ng']
        for zname, zone in out['zones'].items():
            if zname == 'totaloutput':
                for nam, vals in zone['total'].items():
                    if nam in SCALARS:
                        items.append((oname, zname, None, nam, f32(vals), 'scalar', None))
                    else:
                        items.append((oname, zname, None, nam, f32(vals), 'groups', (ngr,)))
                continue
            if zone['flux'] is not None:
                items.append((oname, zname, None, 'FLUX', f32(zone['flux']), 'groups', (ngr,)))
            for iso, con in zip(zone['isotopes'], zone['concen']):
                items.append((oname, zname, iso, 'concentration', [float(con)], 'scalar', None))
            for gname, grp in zone['groups'].items():
                for rnam, vals in grp['results'].items():
                    size = len(vals)
                    if size == ngr:
                        kind, shape = 'groups', (ngr,)
                    elif rnam == 'MultigroupSpectrum':
                        kind, shape = 'multi', (size // ngr, ngr)
                    else:
                        kind, shape = 'aniso', (size // ngr, ngr)
                    items.append((oname, zname, gname, rnam, f32(vals), kind, shape))
    return items


def ds_obs(dset):
    val = np.asarray(dset.value)
    bins = [(k, len(v)) for k, v in dset.bins.items()]
    return {'scalar': val.ndim == 0, 'shape': list(val.shape), 'vals': [float(x) for x in val.reshape(-1)],
            'bins': bins, 'what': dset.what,
            'err_nan': bool(np.all(np.isnan(np.asarray(dset.error, dtype=float))))}


def check_against_truth(ctx, obs, item, who, case):
    oname, zname, iso, nam, vals, kind, shape = item
    lab = f'{oname}/{zname}/{iso or "-"}/{nam}'
    if isinstance(obs, str):
        ctx.oracle_failure(f'{who} raises {obs} for {lab} :: file {case["file"]}', case,
                           key=f'ap3-{who}-raises')
        return
    want_bins = {'scalar': [], 'groups': [('groups', shape[0] if shape else 0)],
                 'aniso': [('anisotropies', shape[0]), ('groups', shape[1])] if shape and len(shape) == 2 else [],
                 'multi': [('incident neutron groups', shape[0]), ('groups', shape[1])]
                 if shape and len(shape) == 2 else []}[kind]
    if not same(obs['vals'], vals):
        ctx.oracle_failure(f'{who}: array of {lab} is not the stored one :: file {case["file"]}', case,
                           key=f'ap3-{who}-values')
    if obs['scalar'] != (kind == 'scalar') or (shape is not None and obs['shape'] != list(shape)):
        ctx.oracle_failure(f'{who}: shape {obs["shape"]} of {lab}, expected {shape} :: file {case["file"]}',
                           case, key=f'ap3-{who}-shape')
    if [tuple(b) for b in obs['bins']] != want_bins:
        ctx.oracle_failure(f'{who}: bins {obs["bins"]} of {lab}, expected {want_bins} :: file {case["file"]}',
                           case, key=f'ap3-{who}-bins')
    if obs['what'] != nam.lower():
        ctx.oracle_failure(f'{who}: what = {obs["what"]} for {lab} :: file {case["file"]}', case,
                           key=f'ap3-{who}-what')


def coq_tree(tree):
    '''Coq literal of the abstract tree (C10/Apollo.v)'''
    set_storage(next(iter(tree.values())).get('storage', '<f4'))
    def arr(vals):
        return clist([cz(fbits(x)) for x in f32(vals)])
    outs = []
    for oname, out in tree.items():
        zones = []
        for zname, zone in out['zones'].items():
            if zname == 'totaloutput':
                ch = ['(%s, Arr %s)' % (cstr(n), arr(v)) for n, v in sorted(zone['total'].items())]
                zones.append('(%s, Grp %s)' % (cstr(zname), clist(ch)))
                continue
            ch = {}
            ch['NISOT'] = 'Arr %s' % clist([cz(len(zone['isotopes']))])
            if zone['isotopes']:
                ch['ISOTOPE'] = 'Names %s' % clist([cstr(i) for i in zone['isotopes']])
                ch['CONCEN'] = 'Arr %s' % clist([cz(fbits(c)) for c in zone['concen']])
            if zone['flux'] is not None:
                ch['FLUX'] = 'Arr %s' % arr(zone['flux'])
            for gname, grp in zone['groups'].items():
                gch = {n: 'Arr %s' % arr(v) for n, v in grp['results'].items()}
                if grp['aniso'] is not None or grp['aniso_by_result']:
                    ich = {}
                    if grp['aniso'] is not None:
                        ich['nbAnisotropy'] = 'Arr %s' % clist([cz(grp['aniso'])])
                    for rnam, nan in grp['aniso_by_result'].items():
                        ich[rnam] = 'Grp [("nbAnisotropy", Arr %s)]' % clist([cz(nan)])
                    gch['info'] = 'Grp %s' % clist(['(%s, %s)' % (cstr(k), v) for k, v in sorted(ich.items())])
                ch[gname] = 'Grp %s' % clist(['(%s, %s)' % (cstr(k), v) for k, v in sorted(gch.items())])
            zones.append('(%s, Grp %s)' % (cstr(zname), clist(['(%s, %s)' % (cstr(k), v)
                                                                for k, v in sorted(ch.items())])))
        zones.sort()
        outs.append('(%s, %s, Grp %s)' % (cstr(oname), cn(out['ng']), clist(zones)))
    return clist(outs)


def coq_ds_obs(obs):
    if isinstance(obs, str):
        return '(ORaise %s)' % cstr(obs)
    kinds = [k for k, _ in obs['bins']]
    if not kinds:
        bins = 'BNone'
    elif kinds == ['groups']:
        bins = '(BGroups %s)' % cn(obs['bins'][0][1])
    elif kinds == ['anisotropies', 'groups']:
        bins = '(BAniso %s %s)' % (cn(obs['bins'][0][1]), cn(obs['bins'][1][1]))
    elif kinds == ['incident neutron groups', 'groups']:
        bins = '(BMulti %s %s)' % (cn(obs['bins'][0][1]), cn(obs['bins'][1][1]))
    else:
        bins = '(BOther %s)' % cn(len(kinds))
    return '(ODs (mk_dset %s %s %s %s))' % (cb(obs['scalar']),
                                           clist([cz(fbits(v)) for v in obs['vals']]), bins, cstr(obs['what']))


def run_ap3(ctx, nfiles):
    from valjean.eponine.apollo3.hdf5_reader import Reader
    from valjean.eponine.apollo3.hdf5_picker import Picker
    rng = ctx.rng
    wdir = ctx.wd()
    cases, index = [], []
    for num in range(nfiles):
        tree = draw_tree(rng)
        path = os.path.join(wdir, f'ap3_{num}.hdf')
        write_hdf(tree, path)
        case = {'kind': 'ap3', 'file': num, 'tree': tree}
        ctx.count('ap3_files')
        truth = truth_items(tree)
        try:
            browser = Reader(path).to_browser()
        except Exception as exc:  # noqa
            ctx.oracle_failure(f'Reader raises {type(exc).__name__} on a standard-layout file :: {num}', case,
                               key='ap3-reader-raises')
            os.unlink(path)
            continue
        pick = Picker(path)
        reader_obs = {}
        for res in browser.content:
            lab = (res.get('output'), res.get('zone'), res.get('isotope'), res.get('result_name'))
            if lab in reader_obs:
                ctx.oracle_failure(f'Reader lists {lab} twice :: file {num}', case, key='ap3-reader-duplicate')
            reader_obs[lab] = ds_obs(res['results'])
        truth_labels = set()
        items = []
        for item in truth:
            oname, zname, iso, nam = item[:4]
            rlab = (oname, zname, iso, nam.lower())
            truth_labels.add(rlab)
            robs = reader_obs.get(rlab, 'missing')
            check_against_truth(ctx, robs, item, 'reader', case)
            try:
                pds = pick.pick_standard_value(output=oname, zone=zname, result_name=nam, isotope=iso)
                pobs = ds_obs(pds)
            except Exception as exc:  # noqa
                pobs = type(exc).__name__
            check_against_truth(ctx, pobs, item, 'picker', case)
            if not isinstance(robs, str) and not isinstance(pobs, str) and robs != pobs:
                ctx.oracle_failure(f'Reader and Picker disagree on {rlab}: {robs} / {pobs} :: file {num}', case,
                                   key='ap3-reader-picker-differ')
            items.append('(%s, %s, %s, %s, %s, %s)' % (cstr(oname), cstr(zname), copt(iso, cstr), cstr(nam),
                                                      coq_ds_obs(robs), coq_ds_obs(pobs)))
            ctx.count('ap3_results_' + item[5])
        stray = set(reader_obs) - truth_labels
        if stray:
            ctx.oracle_failure(f'Reader lists results that are not stored: {sorted(map(str, stray))[:3]} '
                               f':: file {num}', case, key='ap3-reader-extra')
        pick.close()
        cases.append('(%s, %s, %s)' % (coq_tree(tree), cn(len(reader_obs)), clist(items)))
        index.append(case)
        ctx.case_seen({'kind': 'ap3', 'file': num, 'results': len(truth)}, bool(truth), sample_every=53)
        os.unlink(path)
    return cases, index


# --------------------------------------------------------------------------
# histories inside one process: what is read is a function of the file as it is
# now, whatever was read before from the same path or from other files

def ap3_compare(ctx, path, tree, case, where):
    '''new Reader and new Picker on path, every stored result against the tree
    that was written there last'''
    from valjean.eponine.apollo3.hdf5_reader import Reader
    from valjean.eponine.apollo3.hdf5_picker import Picker
    sub = dict(case, file=where)
    try:
        browser = Reader(path).to_browser()
    except Exception as exc:  # noqa
        ctx.oracle_failure(f'Reader raises {type(exc).__name__} :: {where}', case, key='ap3-reader-raises')
        return None
    reader_obs = {(r.get('output'), r.get('zone'), r.get('isotope'), r.get('result_name')): ds_obs(r['results'])
                  for r in browser.content}
    pick = Picker(path)
    for item in truth_items(tree):
        oname, zname, iso, nam = item[:4]
        check_against_truth(ctx, reader_obs.get((oname, zname, iso, nam.lower()), 'missing'), item, 'reader', sub)
        try:
            pobs = ds_obs(pick.pick_standard_value(output=oname, zone=zname, result_name=nam, isotope=iso))
        except Exception as exc:  # noqa
            pobs = type(exc).__name__
        check_against_truth(ctx, pobs, item, 'picker', sub)
    pick.close()
    return pick            # kept alive by the caller (closed): caches may be keyed on it


def permuted_isotopes(rng, tree):
    '''the same tree with the isotopes of every zone stored in another order
    and other concentrations (a file of the same size)'''
    new = json.loads(json.dumps(tree))
    changed = False
    for out in new.values():
        for zname, zone in out['zones'].items():
            if zname != 'totaloutput' and len(zone['isotopes']) > 1:
                order = list(range(len(zone['isotopes'])))
                while order == sorted(order):
                    rng.shuffle(order)
                zone['isotopes'] = [zone['isotopes'][i] for i in order]
                zone['concen'] = [rng.uniform(1e-6, 1e-1) for _ in order]
                changed = True
    return new if changed else None


def draw_user(rng):
    names = rng.sample(['KEFF_CORE', 'Power_peak', 'rho', 'Mino_RHO', 'Pow_T0.1', 'beta_eff', 'Lambda',
                        'Puissance_cœur', 'PF_résiduel', 'power peak factor', 'β_eff',
                        'a_very_long_local_value_name_for_the_reactivity_of_the_core'],
                       rng.randint(2, 5))
    return {'layout': rng.choice(['flat', 'group']), 'names': names, 'storage': rng.choice(STORAGES),
            'values': [rng.uniform(-3, 3) for _ in names]}


def write_user_hdf(user, path):
    import h5py
    set_storage(user.get('storage', '<f4'))
    with h5py.File(path, 'w') as hfile:
        hfile.create_group('info')['COMMENT'] = np.array([b'user values'], dtype='S16')
        out = hfile.create_group('output')
        names = np.array([(n + '  ').encode('utf-8') for n in user['names']],
                         dtype='S%d' % (max(len(n.encode('utf-8')) for n in user['names']) + 4))
        if user['layout'] == 'flat':
            out['LOCALNAME'] = names
            out['LOCALVALUE'] = np.array(user['values'], dtype=STORE['f'])
        else:
            grp = out.create_group('localvalue')
            grp['LOCALNAME'] = names
            for nam, val in zip(user['names'], user['values']):
                grp[nam] = np.array([val, val + 1.0], dtype=STORE['f'])


def user_compare(ctx, path, user, case, where):
    from valjean.eponine.apollo3.hdf5_reader import Reader
    from valjean.eponine.apollo3.hdf5_picker import Picker
    try:
        content = Reader(path).to_browser().content
    except Exception as exc:  # noqa
        ctx.oracle_failure(f'Reader raises {type(exc).__name__} on a user-value file :: {where}', case,
                           key='ap3-reader-raises')
        return None
    robs = {r.get('result_name'): [float(x) for x in np.asarray(r['results'].value).reshape(-1)]
            for r in content}
    pick = Picker(path)
    set_storage(user.get('storage', '<f4'))
    for nam, val in zip(user['names'], user['values']):
        want = f32([val]) if user['layout'] == 'flat' else f32([val, val + 1.0])
        if not same(robs.get(nam, []), want):
            ctx.oracle_failure(f'reader: local value {nam} is not the stored one :: {where}', case,
                               key='ap3-reader-values')
        try:
            pds = pick.pick_user_value(output='output', result_name=nam,
                                       zone=None if user['layout'] == 'flat' else 'localvalue')
            got = [float(x) for x in np.asarray(pds.value).reshape(-1)]
        except Exception as exc:  # noqa
            got = type(exc).__name__
        if isinstance(got, str) or not same(got, want):
            ctx.oracle_failure(f'picker: local value {nam} = {got}, stored {want} :: {where}', case,
                               key='ap3-picker-values')
    pick.close()
    return pick


def t4_compare(ctx, path, doc, case, where, rng):
    from valjean.eponine.tripoli4.parse import Parser
    try:
        par = Parser(path)
        for edi in doc['editions']:
            if rng.random() < 0.5:
                browser = par.parse_from_number(edi['batch']).to_browser()
            else:
                idx = doc['editions'].index(edi)
                browser = par.parse_from_index(idx).to_browser()
            t4_oracle(ctx, edi, browser, dict(case, listing=where), edi['batch'])
    except Exception as exc:  # noqa
        ctx.oracle_failure(f'parsing raises {type(exc).__name__} :: {where}', case, key='t4-parser-raises')
        return None
    return par


def play_history(ctx, case, rng):
    '''steps = [(path index, content index)]: write the content at the path (when
    it is not what the path holds) and read it back with new objects'''
    wdir = ctx.wd()
    kind = case['kind']
    ext = '.res' if kind == 't4hist' else '.hdf'
    paths = [os.path.join(wdir, f'hist_{kind}_{case.get("id", 0)}_{k}{ext}') for k in range(2)]   # own paths: self-contained replay
    holds = {}
    alive = []
    head = header(common.REPO) if kind == 't4hist' else None
    for num, (ipath, icont) in enumerate(case['steps']):
        content = case['contents'][icont]
        if holds.get(ipath) != icont:
            if kind == 't4hist':
                with open(paths[ipath], 'w', encoding='utf-8') as fil:
                    fil.write(listing_text(content, head))
            elif kind == 'userhist':
                write_user_hdf(content, paths[ipath])
            else:
                write_hdf(content, paths[ipath])
            holds[ipath] = icont
        where = (f'step {num} of the history ' + ' ; '.join(f'path{p}<-content{c}' for p, c in case['steps'][:num + 1])
                 + f' ({kind})')
        if kind == 't4hist':
            alive.append(t4_compare(ctx, paths[ipath], content, case, where, rng))
        elif kind == 'userhist':
            alive.append(user_compare(ctx, paths[ipath], content, case, where))
        else:
            alive.append(ap3_compare(ctx, paths[ipath], content, case, where))
    for path in paths:
        if os.path.exists(path):
            os.unlink(path)
    return alive


def run_histories(ctx, nhist):
    rng = ctx.rng
    shapes = [[(0, 0), (0, 1)], [(0, 0), (0, 1), (0, 0)], [(0, 0), (1, 1), (0, 0), (1, 1)],
              [(0, 0), (1, 1), (0, 1), (1, 0)]]
    for num in range(nhist):
        kind = ('ap3hist', 'ap3hist', 'userhist', 't4hist')[num % 4]
        if kind == 'ap3hist':
            first, second = None, None
            for _ in range(40):
                first = draw_tree(rng)
                second = permuted_isotopes(rng, first)
                if second is not None:
                    break
            if second is None or num % 8 == 1:
                second = draw_tree(rng)            # an unrelated tree at the same path
            contents = [first, second]
        elif kind == 'userhist':
            first = draw_user(rng)
            order = list(range(len(first['names'])))
            while order == sorted(order):
                rng.shuffle(order)
            second = {'layout': first['layout'], 'names': [first['names'][i] for i in order],
                      'storage': first['storage'], 'values': [rng.uniform(-3, 3) for _ in order]}
            contents = [first, second if rng.random() < 0.8 else draw_user(rng)]
        else:
            first = draw_doc(rng)
            contents = [first, same_length_variant(first, rng) if rng.random() < 0.6 else draw_doc(rng)]
        case = {'kind': kind, 'id': num, 'contents': contents, 'steps': rng.choice(shapes)}
        before = len(ctx.violations)
        play_history(ctx, case, rng)
        ctx.count('histories_' + kind)
        ctx.case_seen({'kind': kind, 'history': num, 'steps': case['steps']}, True, sample_every=7)
        del before


TEXT_CODES = {1: 'the model printer (C10/Text.v print_block) and the generator print different texts',
              2: 'the generated document is not well-formed (wf_doc): the round-trip theorem does not apply',
              3: 'the model parser rejects the text of the block',
              4: 'the model parser and the real pyparsing grammar extract different rows from the text'}


# --------------------------------------------------------------------------
# the same files read by an interpreter started with -O (assert statements are
# not executed): results and metadata must be exactly those of the normal run

def plain_meta(obj):
    if isinstance(obj, dict):
        return {str(k): plain_meta(v) for k, v in sorted(obj.items(), key=lambda kv: str(kv[0]))}
    if isinstance(obj, (list, tuple)):
        return [plain_meta(x) for x in obj]
    if isinstance(obj, np.ndarray):
        return ['ndarray', list(obj.shape), str(obj.dtype),
                [plain_meta(x) for x in obj.reshape(-1).tolist()]]
    if isinstance(obj, (np.floating, float)):
        return ['f', fbits(obj)]
    if isinstance(obj, (np.integer, int, bool, str, type(None))):
        return obj if not isinstance(obj, np.integer) else int(obj)
    return repr(obj)


def dump_dataset(dset):
    val = np.asarray(dset.value)
    out = {'shape': list(val.shape), 'what': dset.what, 'name': dset.name, 'dtype': str(val.dtype)}
    try:
        out['value'] = [fbits(x) for x in val.reshape(-1)]
        out['error'] = [fbits(x) for x in np.asarray(dset.error).reshape(-1)]
    except (TypeError, ValueError):
        out['value'], out['error'] = repr(val.tolist()), repr(np.asarray(dset.error).tolist())
    out['bins'] = {k: plain_meta(np.asarray(v)) for k, v in dset.bins.items()}
    return out


def dump_browser(browser):
    items = []
    for res in browser.content:
        meta = {k: plain_meta(v) for k, v in res.items() if k != 'results'}
        data = {k: (dump_dataset(d) if hasattr(d, 'value') and hasattr(d, 'bins') else plain_meta(d))
                for k, d in res['results'].items()}
        items.append({'meta': meta, 'data': data})
    return {'globals': plain_meta(browser.globals), 'items': items}


def dump_file(path):
    '''everything read from one file, canonical and JSON-serialisable'''
    try:
        if path.endswith('.hdf'):
            from valjean.eponine.apollo3.hdf5_reader import Reader
            from valjean.eponine.apollo3.hdf5_picker import Picker
            browser = Reader(path).to_browser()
            out = {'reader': dump_browser(browser), 'picks': []}
            pick = Picker(path)
            for res in browser.content:
                if 'zone' not in res:
                    continue
                name = res['result_name']
                stored = name if name == 'concentration' else next(
                    (k for k in (pick.results(output=res['output'], zone=res['zone'],
                                              isotope=res.get('isotope')))
                     if k.lower() == name), name)
                try:
                    pds = pick.pick_standard_value(output=res['output'], zone=res['zone'],
                                                   result_name=stored, isotope=res.get('isotope'))
                    out['picks'].append(dump_dataset(pds))
                except Exception as exc:  # noqa
                    out['picks'].append(type(exc).__name__)
            pick.close()
            return out
        from valjean.eponine.tripoli4.parse import Parser
        par = Parser(path)
        return {'editions': {str(b): dump_browser(par.parse_from_number(b).to_browser())
                             for b in par.batch_numbers()}}
    except Exception as exc:  # noqa
        return {'raises': type(exc).__name__}


def first_difference(a, b, where=''):
    if type(a) is not type(b):
        return f'{where}: {str(a)[:80]} / {str(b)[:80]}'
    if isinstance(a, dict):
        for k in sorted(set(a) | set(b)):
            if k not in a or k not in b:
                return f'{where}/{k}: present in one run only'
            diff = first_difference(a[k], b[k], f'{where}/{k}')
            if diff:
                return diff
        return None
    if isinstance(a, list):
        if len(a) != len(b):
            return f'{where}: {len(a)} / {len(b)} elements'
        for k, (x, y) in enumerate(zip(a, b)):
            diff = first_difference(x, y, f'{where}[{k}]')
            if diff:
                return diff
        return None
    return None if a == b else f'{where}: {str(a)[:80]} / {str(b)[:80]}'


def start_optimised(ctx, nt4, nmesh, nap3):
    '''write a sample of generated files and start `python -O` on them'''
    import subprocess
    import sys
    rng = ctx.rng
    head = header(common.REPO)
    files = []
    for num in range(nt4 + nmesh):
        doc = draw_doc(rng) if num < nt4 else draw_mesh_doc(rng)
        if num < nt4 and num % 2:
            doc = draw_unconverged_doc(rng)
        path = os.path.join(ctx.wd(), f'opt_{num}.res')
        with open(path, 'w', encoding='utf-8') as fil:
            fil.write(listing_text(doc, head))
        files.append((path, {'kind': 't4opt', 'doc': doc}))
    for num in range(nap3):
        tree = draw_tree(rng)
        path = os.path.join(ctx.wd(), f'opt_{num}.hdf')
        write_hdf(tree, path)
        files.append((path, {'kind': 'ap3opt', 'tree': tree}))
    env = dict(os.environ, PYTHONPATH=common.REPO + os.pathsep + os.path.dirname(os.path.abspath(__file__)),
               VERIF_REPO=common.REPO)
    env.pop('PYTHONOPTIMIZE', None)
    proc = subprocess.Popen([sys.executable, '-O', '-W', 'ignore', os.path.abspath(__file__)]
                            + [p for p, _ in files], stdout=subprocess.PIPE, stderr=subprocess.PIPE, env=env)
    return proc, files


def finish_optimised(ctx, proc, files):
    try:
        out, err = proc.communicate(timeout=300)
        child = json.loads(out.decode('utf-8'))
    except Exception as exc:  # noqa
        proc.kill()
        ctx.oracle_failure(f'the interpreter started with -O does not deliver the results ({type(exc).__name__})',
                           {'kind': 't4opt'}, key='optimised-interpreter-fails')
        return
    if child.get('optimised') is not True:
        raise common.CoqError('the child interpreter was not started with -O')
    for path, case in files:
        mine = json.loads(json.dumps(dump_file(path)))
        theirs = child['files'].get(path)
        ctx.count('files_also_read_under_python_O')
        diff = first_difference(mine, theirs, os.path.basename(path))
        if diff:
            ctx.oracle_failure('an interpreter started with -O reads other results or metadata than the normal '
                               f'one (normal / -O) :: {diff}', case, key='optimised-interpreter-differs')
        ctx.case_seen({'kind': case['kind'], 'file': os.path.basename(path)}, 'raises' not in mine,
                      sample_every=50)
        os.unlink(path)


def parse_codes(out):
    import re
    mat = re.search(r'=\s*(\[[^\]]*\]|nil)\s*(%N)?\s*:\s*list N', out, re.S)
    if not mat:
        raise common.CoqError('cannot parse Eval output: ' + out[:500])
    return [int(x) for x in re.findall(r'\d+', mat.group(1))]


def parse_code_lists(out):
    import re
    mat = re.search(r'=\s*(.*?)\s*:\s*list \(list N\)', out, re.S)
    if not mat:
        raise common.CoqError('cannot parse Eval output: ' + out[:500])
    body = mat.group(1).replace('%N', '').strip()
    if body == 'nil':
        return []
    inner = body.strip()[1:-1]
    return [[int(x) for x in re.findall(r'\d+', part)] for part in re.findall(r'\[[^\[\]]*\]|nil', inner)]


def run(ctx):
    common.import_repo()
    import logging
    logging.disable(logging.CRITICAL)
    quick = ctx.tier == 'quick'
    ctx.rule = ('Tripoli-4: listings generated from drawn documents (1-3 editions, 1-4 spectrum responses x '
                '1-3 zones, 1-6 groups upwards/downwards, 1-3 time steps upwards/downwards, generic '
                'integrated responses, keff block, zeros, signs, NOT YET CONVERGED), every edition parsed by '
                'number or index; text of a third (quick) / all of the generated editions and of the last '
                'edition(s) of the shipped example listings against the model printer/parser; Apollo3: files written from drawn standard-layout trees (1-2 outputs, '
                '1-3 zones, 0-3 isotopes, macro group, anisotropy given globally or per result, multigroup '
                'spectrum); histories in one process: a path rewritten with the isotopes / local names in another order '
                'or with another tree / listing, two paths read alternately, new Reader / Picker / Parser objects '
                'each time (old ones kept alive); non-trivial = an edition / a file with at least one result; distinct by content')
    tap = install_tap()
    if tap is None:
        ctx.count('t4_grammar_elements_not_found')
    t4cases, t4index, txcases, txindex = run_t4(ctx, 60 if quick else 1500, tap)
    shcases, shindex = run_shipped(ctx, tap) if tap is not None else ([], [])
    optproc, optfiles = start_optimised(ctx, *((10, 3, 4) if quick else (120, 40, 40)))
    mcases, mindex = run_t4_mesh(ctx, 16 if quick else 400)
    t4cases, t4index = t4cases + mcases, t4index + mindex
    apcases, apindex = run_ap3(ctx, 40 if quick else 500)
    run_histories(ctx, 16 if quick else 200)
    finish_optimised(ctx, optproc, optfiles)
    shards, indexes = [], []
    per = 8
    for k in range(0, len(txcases), per):
        shards.append('Local Open Scope N_scope.\nDefinition cases : list gen_case := [\n '
                      + ';\n '.join(txcases[k:k + per]) + '].\nEval vm_compute in (map check_gen cases).')
        indexes.append(('gen', txindex[k:k + per]))
    for k in range(0, len(shcases), 4):
        shards.append('Local Open Scope N_scope.\nDefinition cases : list ship_case := [\n '
                      + ';\n '.join(shcases[k:k + 4]) + '].\nEval vm_compute in (map check_ship cases).')
        indexes.append(('ship', shindex[k:k + 4]))
    ntext_shards = len(shards)
    for k in range(0, len(t4cases), 150):
        shards.append('Definition cases : list t4case := [\n ' + ';\n '.join(t4cases[k:k + 150]) + '].\n'
                      'Eval vm_compute in bad_indices (map check_t4 cases).')
        indexes.append(t4index[k:k + 150])
    for k in range(0, len(apcases), 40):
        shards.append('Definition cases : list ap3case := [\n ' + ';\n '.join(apcases[k:k + 40]) + '].\n'
                      'Eval vm_compute in bad_indices (map check_ap3_wf cases).')
        indexes.append(apindex[k:k + 40])
    import time as _time
    _t0 = _time.time()
    ctx.extra['implementation_wall_s'] = round(_t0 - ctx.t0, 1)
    outs = common.coq_eval(ctx.pid, IMPORTS, shards)
    ctx.extra['model_wall_s'] = round(_time.time() - _t0, 1)
    supported = 0
    for k, out in enumerate(outs[:ntext_shards]):
        kind, idx = indexes[k]
        if kind == 'gen':
            codes = parse_codes(out)
            if len(codes) != len(idx):
                raise common.CoqError('text shard: %d answers for %d cases' % (len(codes), len(idx)))
            for code, case in zip(codes, idx):
                if code:
                    ctx.mismatch('%s :: listing %s edition %s'
                                 % (TEXT_CODES.get(code, 'text level'), case['listing'], case['edition']), case)
        else:
            answers = parse_code_lists(out)
            if len(answers) != len(idx):
                raise common.CoqError('shipped shard: %d answers for %d cases' % (len(answers), len(idx)))
            for codes, case in zip(answers, idx):
                for code, blk in zip(codes, case['blocks']):
                    ctx.count('t4_shipped_blocks_%s' % ('compared', 'layout_outside_model', 'differ')[code])
                    supported += code == 0
                    if code == 2:
                        ctx.mismatch('model parser and real grammar extract different rows from the %s at '
                                     'line %d of the last block of %s' % (blk['element'], blk['line'],
                                                                          case['listing']),
                                     {'kind': 't4ship', 'listing': case['listing'], 'edition': case['edition'],
                                      'line': blk['line'], 'element': blk['element']})
    if shcases and not supported:
        ctx.mismatch('no result block of the shipped listings is read by the model parser', {'kind': 't4ship'})
    outs = outs[ntext_shards:]
    indexes = indexes[ntext_shards:]
    for k, out in enumerate(outs):
        for i in common.parse_nat_list(out):
            case = indexes[k][i]
            if case['kind'] == 't4':
                ctx.mismatch(f'post-grammar model and parser disagree on listing {case["listing"]} edition '
                             f'{case["edition"]} response {case["response"]} zone {case["zone"]}', case)
            else:
                ctx.mismatch(f'reader/picker model and implementation disagree on file {case["file"]}', case)
    ctx.extra['t4_model_cases'] = len(t4cases)
    ctx.extra['ap3_model_cases'] = len(apcases)
    ctx.extra['t4_text_cases'] = len(txcases)
    ctx.extra['t4_shipped_cases'] = len(shcases)
    ctx.extra['theorem_part'] = ('text level for the layouts of the generator: the model parser reads back what the '
                                 'model printer prints (parse_print) and the printed text goes to the datasets '
                                 'with every printed group in the cell its printed bounds delimit '
                                 '(text_to_dataset, float() as a parameter); post-grammar pipeline (bins, flips, '
                                 'attachment of rows, error expression); reader/picker agreement on abstract trees')
    ctx.extra['correspondence_only'] = ('pyparsing itself (the real grammar is compared with the model parser on '
                                        'every generated block and on the result blocks of the shipped listings '
                                        'whose layout the model parser knows), the transform layer, float() of '
                                        'decimal numerals, h5py/HDF5, response layouts outside the generator '
                                        '(meshes, Green bands, kij, angular zones, ...)')
    ctx.assumptions = ['the generator is the authority on what is written in a listing / file (its text is '
                       'compared with the model printer\'s on every run)',
                       'float() of a printed numeral is the printed value',
                       'numpy float64 multiplication is IEEE binary64 multiplication']


def replay(ctx, path):
    common.import_repo()
    import logging
    logging.disable(logging.CRITICAL)
    data = json.load(open(path))
    case = data['case']
    wdir = ctx.wd()
    if case.get('kind') in ('t4opt', 'ap3opt'):
        import subprocess
        import sys
        fpath = os.path.join(wdir, 'replay' + ('.res' if case['kind'] == 't4opt' else '.hdf'))
        if case['kind'] == 't4opt':
            with open(fpath, 'w', encoding='utf-8') as fil:
                fil.write(listing_text(case['doc'], header(common.REPO)))
        else:
            write_hdf(case['tree'], fpath)
        env = dict(os.environ, PYTHONPATH=common.REPO + os.pathsep + os.path.dirname(os.path.abspath(__file__)),
                   VERIF_REPO=common.REPO)
        out = subprocess.run([sys.executable, '-O', '-W', 'ignore', os.path.abspath(__file__), fpath],
                             capture_output=True, env=env).stdout
        theirs = json.loads(out.decode('utf-8'))['files'][fpath]
        mine = json.loads(json.dumps(dump_file(fpath)))
        print('normal interpreter / python -O, first difference:', first_difference(mine, theirs, 'file'))
    elif case.get('kind') in ('ap3hist', 'userhist', 't4hist'):
        import random
        print('history: (path, content) steps', case['steps'], 'over', len(case['contents']), 'contents')
        play_history(ctx, case, random.Random(0))
    elif case.get('kind') == 't4':
        from valjean.eponine.tripoli4.parse import Parser
        text = listing_text(case['doc'], header(common.REPO))
        fpath = os.path.join(wdir, 'replay.res')
        with open(fpath, 'w', encoding='utf-8') as fil:
            fil.write(text)
        print('listing written to', fpath, '(kept until the end of the replay)')
        par = Parser(fpath)
        tap = install_tap() if case.get('level') == 'text' else None
        for edi in case['doc']['editions']:
            if tap is not None:
                tap['rec'] = {}
            browser = par.parse_from_number(edi['batch']).to_browser()
            if tap is not None and edi['batch'] == case.get('edition'):
                print('text level, edition %s: tokens of the real grammar in front of the transform layer'
                      % edi['batch'])
                for (loc, tag), rec in sorted(tap['rec'].items()):
                    if tag != 'response':
                        print(' ', loc, tag, rec)
            t4_oracle(ctx, edi, browser, {'listing': case['listing']}, edi['batch'])
            for res in browser.content:
                if 'score' in res['results']:
                    dset = res['results']['score']
                    print(edi['batch'], res.get('response_name'), res.get('scoring_zone_id'),
                          'bins', {k: v.tolist() for k, v in dset.bins.items() if len(v)},
                          'value', np.asarray(dset.value).squeeze().tolist(),
                          'error', np.asarray(dset.error).squeeze().tolist())
    elif case.get('kind') == 't4ship':
        from valjean.eponine.tripoli4.parse import Parser
        tap = install_tap()
        if tap is None or 'listing' not in case:
            print('nothing to replay:', case)
            return 0
        par = Parser(os.path.join(common.REPO, DATA, case['listing']))
        tap['rec'] = {}
        par.parse_from_number(case['edition'])
        block = par.scan_res[case['edition']]
        expanded = block.expandtabs()
        for (loc, tag), rec in sorted(tap['rec'].items()):
            if tag == case.get('element') and expanded.count('\n', 0, loc) == case.get('line'):
                print('the real grammar extracted:', rec)
                print('from the text starting at line %d of the block:' % case['line'])
                print('\n'.join(block.split('\n')[case['line']:case['line'] + 40]))
    else:
        from valjean.eponine.apollo3.hdf5_reader import Reader
        fpath = os.path.join(wdir, 'replay.hdf')
        write_hdf(case['tree'], fpath)
        for res in Reader(fpath).to_browser().content:
            print({k: v for k, v in res.items() if k != 'results'}, ds_obs(res['results']))
    for vio in ctx.violations:
        print('oracle:', vio[1])
    return 0


if __name__ == '__main__':
    # child of start_optimised: python -O c10.py <files>
    import logging
    import sys as _sys
    logging.disable(logging.CRITICAL)
    common.import_repo()
    _flag = True
    assert not (_flag := False) or True        # executed only without -O
    _sys.stdout.write(json.dumps({'optimised': _flag and _sys.flags.optimize > 0,
                                  'files': {p: dump_file(p) for p in _sys.argv[1:]}}))

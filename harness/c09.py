'''C09: slicing / squeezing datasets.  Implementation (valjean.eponine.dataset)
vs Coq model C09/Model.v, plus the property oracle (numpy as ground truth).'''
import itertools
import json
from collections import OrderedDict

import numpy as np

from vp import common
from vp.common import cz, cn, clist, copt

IMPORTS = '''From Coq Require Import List ZArith.
From VV Require Import Lib.Base C09.Model.
Import ListNotations.
'''

EXC = {'TypeError': 0, 'ValueError': 1}


def grid(base, how):
    '''the bin values of one dimension: positions matter, not values (decreasing grids, a repeated
    edge = zero-width cell, a periodic grid that comes back to its first value, unsorted values)'''
    base = base.copy()
    n = len(base)
    if how == 'dec':
        return base[::-1].copy()
    if how == 'rep' and n >= 3:
        base[n // 2] = base[n // 2 - 1]
    elif how == 'per' and n >= 3:
        base[-1] = base[0]
    elif how == 'uns' and n >= 3:
        base = np.concatenate([base[n // 2:], base[:n // 2]])
    return base


def make_ds(Dataset, shape, kinds, layout='C', grids=None):
    size = int(np.prod(shape)) if shape else 1
    value = np.arange(size, dtype=float).reshape(shape)
    error = value + 1000.
    if layout == 'F':                     # same logical content, Fortran memory order
        value, error = np.asfortranarray(value), np.asfortranarray(error)
    elif layout == 'T' and len(shape) >= 2:   # transposed view of a C array
        value = np.ascontiguousarray(value.T).T
        error = np.ascontiguousarray(error.T).T
    elif layout == 'S':                   # strided view (every second cell of a larger buffer)
        big = np.zeros(tuple(2 * n for n in shape))
        view = big[tuple(slice(None, None, 2) for _ in shape)]
        view[...] = value
        bige = np.zeros(tuple(2 * n for n in shape))
        viewe = bige[tuple(slice(None, None, 2) for _ in shape)]
        viewe[...] = error
        value, error = view, viewe
    bins = None
    if kinds is not None:
        bins = OrderedDict()
        for k, (n, kind) in enumerate(zip(shape, kinds)):
            how = grids[k] if grids else 'inc'
            if kind == 'e':
                bins[DIMNAMES[k]] = grid(np.arange(n + 1, dtype=float) + 100. * k, how)
            else:
                bins[DIMNAMES[k]] = grid(np.arange(n, dtype=float) + 0.5 + 100. * k, how)
    d = Dataset(value, error, bins=bins, name='nm', what='wh')
    if layout == 'M' and size:
        # a masked dataset (Dataset.mask): every third cell masked
        d = d.mask((np.arange(size).reshape(shape) % 3) == 1)
    return d


def snap(d):
    return (d.value.shape, np.ma.getdata(d.value).tobytes(), np.ma.getmaskarray(d.value).tobytes(),
            np.ma.getdata(d.error).tobytes(),
            [(k, v.tobytes()) for k, v in d.bins.items()], d.name, d.what)


def ds_json(d):
    return {'shape': list(d.value.shape),
            'cells': [int(x) for x in np.ma.getdata(d.value).reshape(-1)],
            'bins': [[int(round(2 * x)) for x in v] for v in d.bins.values()]}


def coq_ds(j):
    return ('(mk_ds ' + clist([cn(n) for n in j['shape']]) + ' '
            + clist([cz(x) for x in j['cells']]) + ' '
            + clist([clist([cz(x) for x in b]) for b in j['bins']]) + ')')


def coq_op(op):
    if op[0] == 'squeeze':
        return 'OSqueeze'
    return '(OGet ' + clist(['(' + copt(a, cz) + ', ' + copt(b, cz) + ')'
                             for a, b in op[1]]) + ')'


def coq_res(res):
    if 'raise' in res:
        return f'(Raise {cn(EXC.get(res["raise"], 9))})'
    return '(Ok ' + coq_ds(res['ok']) + ')'


def oracle_get(ctx, d, idx, out, case):
    '''property oracle for one slicing, numpy and range() as ground truth'''
    sl = tuple(slice(a, b) for a, b in idx)
    shape = d.value.shape
    if len(idx) != len(shape):
        return     # not a statement of the property (documented ValueError)
    ranges = [range(n)[s] for n, s in zip(shape, sl)]
    empty = any(len(r) == 0 for r in ranges)
    if isinstance(out, Exception):
        ctx.oracle_failure(f'slicing raises {type(out).__name__} :: {case}', case,
                           key='getitem-raises-' + type(out).__name__)
        return
    if empty:
        if out.value.size != 0:
            ctx.oracle_failure(f'empty selection returns cells :: {case}', case, key='empty-not-empty')
        return
    if np.ma.isMaskedArray(d.value) and not (
            np.ma.isMaskedArray(out.value) and np.ma.isMaskedArray(out.error)
            and np.array_equal(np.ma.getmaskarray(out.value), np.ma.getmaskarray(d.value[sl]))
            and np.array_equal(np.ma.getmaskarray(out.error), np.ma.getmaskarray(d.error[sl]))):
        ctx.oracle_failure(f'slice of a masked dataset loses or changes the mask :: {case}', case, key='mask-lost')
    if not (np.array_equal(np.ma.getdata(out.value), np.ma.getdata(d.value[sl]))
            and np.array_equal(np.ma.getdata(out.error), np.ma.getdata(d.error[sl]))):
        ctx.oracle_failure(f'slice returns wrong cells :: {case}', case, key='wrong-cells')
    if d.bins:
        if list(out.bins) != list(d.bins):
            ctx.oracle_failure(f'bins names changed :: {case}', case, key='bins-names')
            return
        for (key, b), n, r in zip(d.bins.items(), shape, ranges):
            want = b[r.start:r.stop + 1] if len(b) == n + 1 else b[r.start:r.stop]
            if not np.array_equal(out.bins[key], want):
                ctx.oracle_failure(f'bins of the result are not those of the retained cells '
                                   f'(dim {key}: got {out.bins[key].tolist()}, want {want.tolist()}) '
                                   f':: {case}', case, key='wrong-bins')
    elif out.bins:
        ctx.oracle_failure(f'bins invented :: {case}', case, key='bins-invented')
    if (out.name, out.what) != (d.name, d.what):
        ctx.oracle_failure(f'name/what changed :: {case}', case, key='name-what')


def oracle_squeeze(ctx, d, out, case):
    if isinstance(out, Exception):
        ctx.oracle_failure(f'squeeze raises {type(out).__name__} :: {case}', case,
                           key='squeeze-raises-' + type(out).__name__)
        return
    shape = d.value.shape
    want_shape = tuple(n for n in shape if n != 1)
    ok = out.value.shape == want_shape and out.error.shape == want_shape \
        and np.array_equal(out.value.reshape(-1), d.value.reshape(-1)) \
        and np.array_equal(out.error.reshape(-1), d.error.reshape(-1))
    if not ok:
        ctx.oracle_failure(f'squeeze changes cells or keeps a unit dimension :: {case}', case,
                           key='squeeze-cells')
    if d.bins:
        want = [(k, v) for (k, v), n in zip(d.bins.items(), shape) if n != 1]
        got = list(out.bins.items())
        if [k for k, _ in want] != [k for k, _ in got] or \
                not all(np.array_equal(a[1], b[1]) for a, b in zip(want, got)):
            ctx.oracle_failure(f'squeeze does not keep exactly the bins of non-unit dimensions '
                               f':: {case}', case, key='squeeze-bins')


def gen_cases(ctx):
    rng = ctx.rng
    quick = ctx.tier == 'quick'
    cases = []
    # corpus: defects of the pinned tree, boundary cases
    cases += [
        {'shape': [5], 'kinds': ['e'], 'ops': [['get', [[-2, None]]]]},
        {'shape': [1, 3], 'kinds': None, 'ops': [['squeeze']]},
        {'shape': [2, 3], 'kinds': ['e', 'c'], 'ops': [['get', [[0, 0], [None, None]]], ['squeeze']]},
        {'shape': [3], 'kinds': ['e'], 'ops': [['get', [[0, 0]]]]},
        {'shape': [4], 'kinds': ['e'], 'ops': [['get', [[None, 0]]]]},
        {'shape': [1, 1], 'kinds': ['e', 'c'], 'ops': [['squeeze']]},
        {'shape': [2], 'kinds': ['c'], 'ops': [['get', [[0, 1], [0, 1]]]]},
    ]
    # exhaustive 1-d
    nmax = 5 if quick else 9
    for n in range(0, nmax + 1):
        bounds = [None] + list(range(-n - 2, n + 3))
        for kind in (None, 'c', 'e'):
            for a, b in itertools.product(bounds, bounds):
                cases.append({'shape': [n], 'kinds': None if kind is None else [kind],
                              'ops': [['get', [[a, b]]]]})
                if n <= 3 or (a is not None and a < 0):
                    cases.append({'shape': [n], 'kinds': None if kind is None else [kind],
                                  'ops': [['get', [[a, b]]]], 'step1': True})
                if kind is not None and 3 <= n <= 4:
                    cases.append({'shape': [n], 'kinds': [kind], 'ops': [['get', [[a, b]]]],
                                  'grids': [GRIDS[(len(cases) + n) % len(GRIDS)]]})
                if n <= 4 and (a is not None or b is not None):
                    # bounds that are integers without being Python ints (what np.searchsorted,
                    # np.argmax, an element of an index array return), bare or in a 1-tuple
                    cases.append({'shape': [n], 'kinds': None if kind is None else [kind],
                                  'ops': [['get', [[a, b]]]],
                                  'ityp': ITYPES[(n + len(cases)) % len(ITYPES)],
                                  'tuple1': len(cases) % 2 == 0})
    ctx.count('exhaustive_1d', len(cases) - 7)
    # long dimensions (sizes are not small integers any more): centres and edges, a few slices each
    for n in (257, 300, 1000) if quick else (257, 258, 300, 513, 1000, 4097):
        for kind in ('c', 'e', None):
            for a, b in ((10, 20), (None, -1), (-3, None), (256, 257), (0, 1), (n - 1, n + 5), (None, None), (5, 5)):
                cases.append({'shape': [n], 'kinds': None if kind is None else [kind], 'ops': [['get', [[a, b]]]]})
        cases.append({'shape': [2, n], 'kinds': ['e', 'c'], 'ops': [['get', [[0, 1], [100, 130]]], ['squeeze']]})
        cases.append({'shape': [n, 1], 'kinds': ['c', 'c'], 'ops': [['get', [[-260, -1], [None, None]]], ['squeeze']]})
    ctx.count('long_dimensions', 1)
    # random n-d chains
    nrand = 500 if quick else 12000
    for _ in range(nrand):
        nd = rng.choice([1, 2, 2, 3, 3, 4])
        shape = [rng.choice([0, 1, 1, 2, 3, 4, 5]) if rng.random() < 0.9 else rng.randint(6, 9)
                 for _ in range(nd)]
        kinds = None if rng.random() < 0.15 else [rng.choice('ce') for _ in range(nd)]
        ops = []
        cur = list(shape)
        for _ in range(rng.choice([1, 1, 2, 3])):
            if not cur or rng.random() < 0.3:
                ops.append(['squeeze'])
                cur = [n for n in cur if n != 1]
            else:
                idx = []
                for n in cur:
                    def bound():
                        r = rng.random()
                        if r < 0.25:
                            return None
                        return rng.randint(-n - 2, n + 2)
                    idx.append([bound(), bound()])
                ops.append(['get', idx])
                cur = [len(range(n)[slice(a, b)]) for n, (a, b) in zip(cur, idx)]
        case = {'shape': shape, 'kinds': kinds, 'ops': ops}
        if rng.random() < 0.3:
            case['step1'] = True
        if rng.random() < 0.4:
            case['layout'] = rng.choice('FTSM')
        if rng.random() < 0.3:
            case['ityp'] = rng.choice(ITYPES)
            case['imask'] = rng.randrange(1, 4)        # start only / stop only / both
        if rng.random() < 0.3:
            case['tuple1'] = True
        if kinds is not None and rng.random() < 0.35:
            case['grids'] = [rng.choice(GRIDS) for _ in range(nd)]
        cases.append(case)
    ctx.count('random_nd_chains', nrand)
    return cases


class Idx:
    '''an integer-like object (has __index__), accepted by Python and NumPy as a slice bound'''

    def __init__(self, val):
        self.val = val

    def __index__(self):
        return self.val


GRIDS = ['dec', 'rep', 'per', 'uns']
# dimension names in an order that is not the alphabetical one (t, e, mu, phi as in Tripoli-4 scores)
DIMNAMES = ['t', 'e', 'mu', 'phi', 'z', 'y']
ITYPES = ['int64', 'int32', 'intp', 'int8', 'index']
ICONV = {None: lambda a: a,
         'int64': lambda a: None if a is None else np.int64(a),
         'int32': lambda a: None if a is None else np.int32(a),
         'intp': lambda a: None if a is None else np.intp(a),
         'int8': lambda a: None if a is None else np.int8(a),
         'index': lambda a: None if a is None else Idx(a)}


def run_impl(ctx, case, triples):
    from valjean.eponine.dataset import Dataset
    d = make_ds(Dataset, tuple(case['shape']), case['kinds'], case.get('layout', 'C'), case.get('grids'))
    nontrivial = False
    for op in case['ops']:
        before = snap(d)
        try:
            if op[0] == 'squeeze':
                out = d.squeeze()
            else:
                # explicit unit step (d[a:b:1]) must behave like the omitted one
                conv = ICONV[case.get('ityp')]
                mask = case.get('imask', 3)
                bounds = [(conv(a) if mask & 1 else a, conv(b) if mask & 2 else b) for a, b in op[1]]
                idx = tuple(slice(a, b, 1) if case.get('step1') else slice(a, b) for a, b in bounds)
                out = d[idx if len(idx) != 1 or case.get('tuple1') else idx[0]]
        except Exception as exc:  # noqa
            out = exc
        step = {'ds': ds_json(d), 'op': op}
        if snap(d) != before:
            ctx.oracle_failure(f'operand modified by {op[0]} :: {case}', case, key='operand-modified')
        if op[0] == 'squeeze':
            oracle_squeeze(ctx, d, out, case)
            ctx.count('squeeze')
        else:
            oracle_get(ctx, d, op[1], out, case)
            ctx.count('getitem')
        if isinstance(out, Exception):
            step['res'] = {'raise': type(out).__name__}
            ctx.count('raise_' + type(out).__name__)
            triples.append((case, step))
            break
        if not np.array_equal(np.ma.getdata(out.error), np.ma.getdata(out.value) + 1000.):
            ctx.oracle_failure(f'error cells not those of the value cells :: {case}', case,
                               key='error-cells')
        step['res'] = {'ok': ds_json(out)}
        triples.append((case, step))
        if out.value.size:
            nontrivial = True
        else:
            ctx.count('empty_result')
        d = out
        if not isinstance(d.value, np.ndarray):
            break
    return nontrivial


def run(ctx):
    common.import_repo()
    ctx.rule = ('exhaustive 1-d (n<=5 quick / 9 thorough; no bins, centres, edges; start, stop in '
                '{None} u [-n-2, n+2]) + random chains of slices/squeezes on 1..4-d datasets; '
                'non-trivial = some step returns a non-empty dataset; distinct by case content')
    cases = gen_cases(ctx)
    triples = []
    for case in cases:
        nontrivial = run_impl(ctx, case, triples)
        ctx.case_seen(case, nontrivial, sample_every=977)
    # model side
    shard_size = 400
    shards = []
    for k in range(0, len(triples), shard_size):
        chunk = triples[k:k + shard_size]
        items = ['(' + coq_ds(st['ds']) + ', ' + coq_op(st['op']) + ', ' + coq_res(st['res']) + ')'
                 for _, st in chunk]
        shards.append('Definition cases : list (zds * op * res zds) :=\n ' + clist(items).replace('); (', ');\n (')
                      + '.\nEval vm_compute in bad_indices (map check_case cases).')
    outs = common.coq_eval(ctx.pid, IMPORTS, shards)
    for k, out in enumerate(outs):
        for i in common.parse_nat_list(out):
            case, st = triples[k * shard_size + i]
            ctx.mismatch(f'step {st["op"]} on {st["ds"]["shape"]}: implementation returned '
                         f'{json.dumps(st["res"])[:300]}', {'case': case, 'step': st})
    ctx.extra['model_steps_compared'] = len(triples)
    ctx.assumptions = ['numpy basic slicing and range() are the ground truth of the oracle',
                       'cells are identified by distinct integer-valued floats']


def replay(ctx, path):
    common.import_repo()
    data = json.load(open(path))
    case = data['case'].get('case', data['case']) if isinstance(data['case'], dict) else data['case']
    triples = []
    run_impl(ctx, case, triples)
    for _, st in triples:
        print('impl:', json.dumps(st))
    items = ['(' + coq_ds(st['ds']) + ', ' + coq_op(st['op']) + ')' for _, st in triples]
    body = ('Eval vm_compute in map (fun c => run_op (fst c) (snd c)) ' + clist(items) + '.')
    print('model:', common.coq_eval(ctx.pid, IMPORTS, [body])[0])
    for v in ctx.violations:
        print('oracle:', v[1])
    return 0

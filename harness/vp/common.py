'''Shared machinery of the /verif checks.

One check run = one :class:`Ctx`.  It
  * builds the Coq development and re-checks the property file ``Props/<id>.v``
    (proof obligations + ``Print Assumptions`` allow-list),
  * lets the per-property driver run the implementation (``/repo`` working
    tree), the property oracle and the Coq model (generated ``cases_*.v``
    evaluated with ``vm_compute``),
  * decides VIOLATION / KNOWN-FINDING, writes the replay files and the
    evidence file.
'''
import fcntl
import hashlib
import json
import os
import random
import re
import shutil
import subprocess
import sys
import time

VERIF = os.path.dirname(os.path.dirname(os.path.dirname(os.path.abspath(__file__))))
REPO = os.environ.get('VERIF_REPO', '/repo')
COQ = os.path.join(VERIF, 'coq')
# evidence of runs against another checkout (VERIF_REPO, used to try seeded changes) is kept apart:
# the committed evidence always describes /repo itself
EVID = (os.path.join(VERIF, 'evidence') if REPO == '/repo' and not os.environ.get('VERIF_SEARCH')
        else os.path.join(VERIF, '.work', 'evidence-search' if os.environ.get('VERIF_SEARCH') else 'evidence-alt'))
REPLAYS = os.path.join(EVID, 'replays')
WORKROOT = os.path.join(VERIF, '.work')
NPROC = int(os.environ.get('VERIF_JOBS', '16'))

# Axioms declared by Coq's standard library that theorems of this development
# may rest on (every one is named in DESIGN.md section 7).  Anything else
# listed by Print Assumptions makes the obligation undischarged.
STDLIB_AXIOMS = {
    'ClassicalDedekindReals.sig_forall_dec',
    'ClassicalDedekindReals.sig_not_dec',
    'FunctionalExtensionality.functional_extensionality_dep',
    'functional_extensionality_dep',
    'Classical_Prop.classic',
    'classic',
    'sig_forall_dec',
    'sig_not_dec',
}


def log(*args):
    print(*args, flush=True)


# --------------------------------------------------------------------------
# Coq literal emission

def cz(n):
    n = int(n)
    return f'({n})%Z' if n < 0 else f'{n}%Z'


def cn(n):
    return f'{int(n)}%nat'


def cN(n):
    return f'{int(n)}%N'


def cb(b):
    return 'true' if b else 'false'


def clist(items):
    return '[' + '; '.join(items) + ']'


def copt(x, f=lambda v: v):
    return 'None' if x is None else f'(Some {f(x)})'


def cstr(s):
    '''Coq string literal for a Python str/bytes (bytes of the utf-8
    encoding).  Printable ASCII goes in a literal, anything else through
    ``bs`` (list of byte codes) defined in Lib/Base.v.'''
    data = s.encode('utf-8') if isinstance(s, str) else bytes(s)
    if all(32 <= c < 127 for c in data):
        return '"' + data.decode('ascii').replace('"', '""') + '"%string'
    return '(bs [' + '; '.join(str(c) for c in data) + ']%N)'


def f64bits(x):
    import struct
    return struct.unpack('<Q', struct.pack('<d', float(x)))[0]


def bits_f64(n):
    import struct
    return struct.unpack('<d', struct.pack('<Q', int(n)))[0]


def canon_bits(x):
    '''bit pattern with every NaN mapped to the canonical quiet NaN'''
    x = float(x)
    if x != x:
        return 0x7ff8000000000000
    return f64bits(x)


# --------------------------------------------------------------------------

class CoqError(Exception):
    pass


def _run(cmd, cwd=None, timeout=3000, env=None):
    try:
        proc = subprocess.run(cmd, cwd=cwd, timeout=timeout, env=env,
                              stdout=subprocess.PIPE, stderr=subprocess.STDOUT,
                              text=True, errors='replace')
        return proc.returncode, proc.stdout
    except subprocess.TimeoutExpired as exc:
        out = exc.stdout or ''
        if isinstance(out, bytes):
            out = out.decode('utf-8', 'replace')
        return 124, out + f'\n*** timeout after {timeout}s: {cmd}'


def gen_coq_project():
    files = []
    for root, dirs, names in os.walk(COQ):
        dirs[:] = sorted(d for d in dirs if d not in ('Run',) and not d.startswith('.'))
        for name in sorted(names):
            if name.endswith('.v') and not name.startswith('.'):
                files.append(os.path.relpath(os.path.join(root, name), COQ))
    text = '-Q . VV\n-arg -w -arg -notation-overridden,-deprecated,-ambiguous-paths\n' \
        + '\n'.join(files) + '\n'
    path = os.path.join(COQ, '_CoqProject')
    old = open(path).read() if os.path.exists(path) else None
    if old != text:
        with open(path, 'w') as fil:
            fil.write(text)
        return True
    return False


class CoqLock:
    def __enter__(self):
        os.makedirs(WORKROOT, exist_ok=True)
        self.fil = open(os.path.join(WORKROOT, 'coq.lock'), 'w')
        fcntl.flock(self.fil, fcntl.LOCK_EX)
        return self

    def __exit__(self, *exc):
        fcntl.flock(self.fil, fcntl.LOCK_UN)
        self.fil.close()


def coq_make(targets=(), timeout=3000):
    '''(Re)build the requested .vo targets (all when empty) with a full .vo
    build.  Returns (ok, output).  Only the generation of _CoqProject is
    serialised; every invocation uses its own generated makefile so that
    several checks can build at the same time.'''
    mk = f'Makefile.{os.getpid()}'
    with CoqLock():
        gen_coq_project()
        code, out = _run(['coq_makefile', '-f', '_CoqProject', '-o', mk], cwd=COQ, timeout=120)
    try:
        if code != 0:
            return False, out
        cmd = ['timeout', str(timeout), 'make', '-f', mk, f'-j{NPROC}'] + list(targets)
        code, out = _run(cmd, cwd=COQ, timeout=timeout + 30)
        return code == 0, out
    finally:
        for name in (mk, mk + '.conf', f'.{mk}.d'):
            try:
                os.unlink(os.path.join(COQ, name))
            except OSError:
                pass


HYGIENE_RE = re.compile(
    r'\b(Admitted|admit|Axiom|Axioms|Parameter|Parameters|Conjecture|Conjectures|'
    r'Admit Obligations|bypass_check|native_compute)\b|Unset Guard|Unset Positivity|'
    r'Unset Universe|type-in-type|impredicative-set')


def strip_coq_comments(text):
    out, depth, i = [], 0, 0
    while i < len(text):
        if text.startswith('(*', i):
            depth += 1
            i += 2
        elif text.startswith('*)', i) and depth:
            depth -= 1
            i += 2
        else:
            if not depth:
                out.append(text[i])
            i += 1
    return ''.join(out)


def hygiene_scan():
    '''No Admitted/admit/Axiom/... anywhere in the development (comments and
    string literals excluded), and no Variable/Hypothesis outside a Section.'''
    bad = []
    for root, dirs, names in os.walk(COQ):
        dirs[:] = [d for d in dirs if d != 'Run']
        for name in names:
            if not name.endswith('.v'):
                continue
            path = os.path.join(root, name)
            text = strip_coq_comments(open(path).read())
            text = re.sub(r'"[^"]*"', '""', text)
            depth = 0
            for lineno, line in enumerate(text.split('\n'), 1):
                if HYGIENE_RE.search(line):
                    bad.append(f'{path}:{lineno}: {line.strip()}')
                if re.match(r'\s*Section\b', line):
                    depth += 1
                if re.match(r'\s*End\b', line) and depth:
                    # may close a Module as well; modules are not used with
                    # Variables in this development
                    depth -= 1
                if re.match(r'\s*(Variable|Variables|Hypothesis|Hypotheses|Context)\b', line) \
                        and depth == 0:
                    bad.append(f'{path}:{lineno}: {line.strip()} (outside a Section)')
    return bad


def parse_assumptions(out):
    '''Parse the output of a Props file: sequence of Print Assumptions blocks.
    Returns list of axiom-name lists, one per block.'''
    blocks = []
    cur = None
    for line in out.split('\n'):
        if line.startswith('Closed under the global context'):
            blocks.append([])
            cur = None
        elif line.startswith('Axioms:'):
            cur = []
            blocks.append(cur)
        elif cur is not None:
            m = re.match(r'^([A-Za-z_][\w.\']*)\s*(:|$)', line)
            if m and not line.startswith(' '):
                cur.append(m.group(1))
    return blocks


def check_props(pid):
    '''Build everything Props/<pid>.v needs, then re-check that file itself and
    read the Print Assumptions output.  Returns a dict for the evidence.'''
    res = {'obligations': 0, 'discharged': 0, 'theorems': [], 'axioms': [],
           'ok': False, 'log': ''}
    src = os.path.join(COQ, 'Props', f'{pid}.v')
    if not os.path.exists(src):
        res['log'] = f'{src} missing'
        return res
    text = strip_coq_comments(open(src).read())
    theorems = re.findall(r'^\s*Theorem\s+([\w\']+)', text, re.M)
    prints = re.findall(r'^\s*Print Assumptions\s+([\w\']+)', text, re.M)
    res['theorems'] = theorems
    res['obligations'] = len(theorems)
    ok, out = coq_make([f'Props/{pid}.vo'])
    if not ok:
        res['log'] = out[-4000:]
        return res
    code, out = _run(['timeout', '600', 'coqc', '-Q', '.', 'VV', '-w',
                      '-notation-overridden,-deprecated,-ambiguous-paths',
                      '-o', os.path.join(workdir(pid), f'{pid}.vo'),
                      f'Props/{pid}.v'], cwd=COQ, timeout=640)
    if code != 0:
        res['log'] = out[-4000:]
        return res
    blocks = parse_assumptions(out)
    axioms = set()
    discharged = 0
    problems = []
    if sorted(prints) != sorted(theorems) or len(blocks) != len(prints):
        problems.append(f'Print Assumptions blocks {len(blocks)} / prints {len(prints)} '
                        f'/ theorems {len(theorems)} do not line up')
    else:
        for name, axs in zip(prints, blocks):
            foreign = [a for a in axs if a not in STDLIB_AXIOMS]
            axioms.update(axs)
            if foreign:
                problems.append(f'{name}: non-stdlib assumptions {foreign}')
            else:
                discharged += 1
    hyg = hygiene_scan()
    if hyg:
        problems.append('hygiene: ' + '; '.join(hyg[:5]))
        discharged = 0
    res['discharged'] = discharged
    res['axioms'] = sorted(axioms)
    res['log'] = '\n'.join(problems)
    res['ok'] = not problems and discharged == len(theorems) and len(theorems) > 0
    return res


def workdir(pid):
    path = os.path.join(WORKROOT, f'{pid}-{os.getpid()}')
    os.makedirs(path, exist_ok=True)
    return path


_BUILT = set()


def ensure_built(imports):
    '''the modules a generated cases file imports (From VV Require Import A.B ...) must be
    compiled and up to date, whether or not Props/<id>.v depends on them'''
    targets = []
    for stmt in re.findall(r'From\s+VV\s+Require\s+(?:Import\s+|Export\s+)?((?:[A-Za-z_][\w\']*(?:\.[A-Za-z_][\w\']*)*\s*)+)\.(?:\s|$)',
                           imports):
        for mod in stmt.split():
            tgt = mod.replace('.', '/') + '.vo'
            if os.path.exists(os.path.join(COQ, tgt[:-1])) and tgt not in _BUILT:
                targets.append(tgt)
    if targets:
        ok, out = coq_make(targets)
        if not ok:
            raise CoqError('cannot build ' + ' '.join(targets) + '\n' + out[-3000:])
        _BUILT.update(targets)


def coq_eval(pid, imports, shards, timeout=900):
    '''Evaluate generated Coq files.  ``shards`` is a list of strings (bodies);
    each is compiled after ``imports``; the stdout of every shard is returned
    (list of str) in order.  Raises CoqError when a shard does not compile.'''
    wdir = os.path.join(workdir(pid), 'Run')
    os.makedirs(wdir, exist_ok=True)
    ensure_built(imports)
    names = []
    for k, body in enumerate(shards):
        name = f'cases_{pid}_{k}'
        with open(os.path.join(wdir, name + '.v'), 'w') as fil:
            fil.write(imports + '\n' + body + '\n')
        names.append(name)
        keep = os.environ.get('VERIF_KEEP_CASES')
        if keep:      # harness/tools/modelmut.py re-evaluates the same cases against mutated models
            os.makedirs(keep, exist_ok=True)
            n = len([x for x in os.listdir(keep) if x.endswith('.v')])
            with open(os.path.join(keep, f'kept_{pid}_{n}.v'), 'w') as fil:
                fil.write(imports + '\n' + body + '\n')
    procs = []
    outs = [None] * len(names)
    pending = list(enumerate(names))
    running = []

    def launch(k, name):
        cmd = ['bash', '-c',
               f'ulimit -s unlimited 2>/dev/null; exec timeout {timeout} coqc -Q {COQ} VV '
               f'-w -notation-overridden,-deprecated,-ambiguous-paths '
               f'-R {wdir} Run {wdir}/{name}.v']
        return subprocess.Popen(cmd, stdout=subprocess.PIPE, stderr=subprocess.STDOUT,
                                text=True, errors='replace')
    while pending or running:
        while pending and len(running) < NPROC:
            k, name = pending.pop(0)
            running.append((k, name, launch(k, name)))
        k, name, proc = running.pop(0)
        out, _ = proc.communicate()
        if proc.returncode != 0:
            for _, _, other in running:
                other.kill()
            raise CoqError(f'{name}.v: coqc exit {proc.returncode}\n{out[-3000:]}')
        outs[k] = out
    del procs
    return outs


def parse_nat_list(out):
    '''parse the (first) ``= [..] : list nat`` answer of an Eval'''
    m = re.search(r'=\s*(\[.*?\])\s*(%nat)?\s*:\s*list', out, re.S)
    if not m:
        m2 = re.search(r'=\s*nil\s*:\s*list', out)
        if m2:
            return []
        raise CoqError('cannot parse Eval output: ' + out[:500])
    return [int(x) for x in re.findall(r'\d+', m.group(1))]


def parse_eval_blocks(out):
    '''split coqc stdout into the answers of successive Evals ("     = ..." )'''
    parts = re.split(r'^\s*= ', out, flags=re.M)
    return [p.strip() for p in parts[1:]]


# --------------------------------------------------------------------------
# known findings

def load_findings(pid):
    # known_findings.json is committed and never written at run time; it is assembled from the
    # per-property fragments in known_findings.d/ by harness/tools/mkdesign.py
    out = []
    path = os.path.join(VERIF, 'known_findings.json')
    if os.path.exists(path):
        data = json.load(open(path))
        out = [f for f in data.get('findings', []) if f.get('property') == pid]
    return out


# --------------------------------------------------------------------------

class Ctx:
    '''State of one check run.'''

    def __init__(self, pid, tier=None, seed=None):
        self.pid = pid
        self.tier = tier or os.environ.get('VERIF_TIER') or 'quick'
        if self.tier not in ('quick', 'thorough'):
            self.tier = 'quick'
        try:
            self.seed = int(seed if seed is not None else os.environ.get('VERIF_SEED', '0'))
        except ValueError:
            self.seed = 0
        self.rng = random.Random(self.seed * 1000003 + sum(map(ord, pid)))
        self.t0 = time.time()
        self.evaluations = 0
        self.nontrivial = set()
        self.samples = []
        self.dist = {}
        self.violations = []      # (kind, what, case)
        self.known_hits = []
        self.notes = []
        self.props = None
        self.corr_broken = []     # correspondence mismatches (case dicts)
        self.traces_validated = 0
        self.extra = {}
        self.assumptions = []
        self.findings = load_findings(pid)
        self.rule = ''
        os.makedirs(EVID, exist_ok=True)
        os.makedirs(REPLAYS, exist_ok=True)

    # ---- bookkeeping
    def count(self, key, n=1):
        self.dist[key] = self.dist.get(key, 0) + n

    def case_seen(self, case, nontrivial=True, sample_every=None):
        self.evaluations += 1
        if nontrivial:
            digest = hashlib.sha1(json.dumps(case, sort_keys=True, default=str)
                                  .encode()).hexdigest()[:16]
            self.nontrivial.add(digest)
        if len(self.samples) < 3 or (sample_every and self.evaluations % sample_every == 0
                                     and len(self.samples) < 8):
            self.samples.append(case)

    def wd(self):
        return workdir(self.pid)

    # ---- proofs
    def proofs(self):
        self.props = check_props(self.pid)
        if not self.props['ok']:
            self.violations.append(('proof', 'proof obligations of Props/%s.v not all discharged: %s'
                                    % (self.pid, self.props['log'][-1500:]), None))
        return self.props['ok']

    # ---- findings
    def oracle_failure(self, what, case, key=None):
        '''The property's own oracle is false on a real implementation run.
        ``key`` is the canonical identification matched against
        known_findings.json (defaults to ``what``).'''
        key = key or what
        for f in self.findings:
            if f.get('status') == 'known' and f.get('match') == key:
                if key not in [k for k, _ in self.known_hits]:
                    self.known_hits.append((key, f.get('what', what)))
                return
        self.violations.append(('oracle', what, case))

    def mismatch(self, what, case):
        '''Model and implementation disagree on a case.'''
        self.corr_broken.append((what, case))

    # ---- end of run
    def write_replay(self, kind, what, case, idx):
        path = os.path.join(REPLAYS, f'{self.pid}-{idx}.json')
        with open(path, 'w') as fil:
            json.dump({'property': self.pid, 'kind': kind, 'what': what, 'case': case,
                       'seed': self.seed, 'tier': self.tier}, fil, indent=1, default=str)
        return path

    def finish(self):
        # clean old replays of this property
        for name in os.listdir(REPLAYS):
            if name.startswith(self.pid + '-'):
                os.unlink(os.path.join(REPLAYS, name))
        lines = []
        for key, what in self.known_hits:
            lines.append(f'KNOWN-FINDING: property={self.pid} {what}')
        nviol = 0
        oracle_viol = [v for v in self.violations if v[0] == 'oracle']
        seen = set()
        for kind, what, case in oracle_viol:
            sig = what.split(' :: ')[0]
            if sig in seen:
                continue
            seen.add(sig)
            path = self.write_replay(kind, what, case, nviol)
            lines.append(f'VIOLATION property={self.pid} replay={path}')
            nviol += 1
            if nviol >= 5:
                break
        if not oracle_viol:
            # proof or correspondence broken without a failing input
            broken = [v for v in self.violations if v[0] != 'oracle']
            if self.corr_broken:
                what, case = self.corr_broken[0]
                broken.append(('correspondence',
                               f'model and implementation disagree ({len(self.corr_broken)} '
                               f'cases), first: {what}', case))
            for kind, what, case in broken[:3]:
                path = self.write_replay(kind, what, case, nviol)
                lines.append(f'VIOLATION property={self.pid} replay={path} no-failing-input-found')
                nviol += 1
        elif self.corr_broken:
            self.notes.append(f'correspondence also broken on {len(self.corr_broken)} cases: '
                              + self.corr_broken[0][0])
        self.write_evidence(nviol)
        for line in lines:
            log(line)
        shutil.rmtree(self.wd(), ignore_errors=True)
        if nviol:
            log(f'{self.pid}: {nviol} violation(s) [{self.tier}, seed {self.seed}, '
                f'{time.time() - self.t0:.1f}s]')
            return 1
        log(f'{self.pid}: OK  obligations {self.props["discharged"]}/{self.props["obligations"]}, '
            f'{self.evaluations} cases, {len(self.nontrivial)} distinct non-trivial '
            f'[{self.tier}, seed {self.seed}, {time.time() - self.t0:.1f}s]')
        return 0

    def write_evidence(self, nviol):
        props = self.props or {'obligations': 0, 'discharged': 0, 'theorems': [], 'axioms': []}
        cov = {
            'obligations': props['obligations'],
            'discharged': props['discharged'],
            'checker_cmd': f'make -C coq Props/{self.pid}.vo && coqc -Q coq VV coq/Props/{self.pid}.v '
                           '(full .vo build; Print Assumptions parsed against the stdlib allow-list; '
                           'hygiene scan for Admitted/Axiom/...)',
            'trusted_base': ['Coq 8.16.1 kernel incl. vm_compute (no native_compute)']
            + [f'stdlib axiom: {a}' for a in props['axioms']]
            + ['hand-written Gallina model tied to /repo by the per-run correspondence check',
               'harness/ (generators, canonicalisation, property oracle), CPython 3.12, numpy'],
            'theorems': props['theorems'],
            'evaluations': self.evaluations,
            'distinct_nontrivial': len(self.nontrivial),
            'rule': self.rule,
            'samples': self.samples[:8] or ['(no case generated: run aborted early)'],
            'traces_validated_against_impl': self.traces_validated or self.evaluations,
            'input_distribution': self.dist,
            'correspondence_mismatches': len(self.corr_broken),
            'known_findings_hit': [k for k, _ in self.known_hits],
            'notes': self.notes,
        }
        cov.update(self.extra)
        evid = {
            'property_id': self.pid,
            'tier': self.tier,
            'seed': self.seed,
            'level': 'proof',
            'coverage': cov,
            'assumptions': self.assumptions,
            'wall_s': round(time.time() - self.t0, 2),
            'violations': nviol,
        }
        tmp = os.path.join(EVID, f'.{self.pid}.json.tmp')
        with open(tmp, 'w') as fil:
            json.dump(evid, fil, indent=1, default=str)
        os.replace(tmp, os.path.join(EVID, f'{self.pid}.json'))


def import_repo():
    '''make ``import valjean`` resolve to the working tree under REPO'''
    if REPO not in sys.path:
        sys.path.insert(0, REPO)
    for name in list(sys.modules):
        if name == 'valjean' or name.startswith('valjean.'):
            del sys.modules[name]
    import logging
    import valjean  # noqa
    logging.getLogger('valjean').setLevel(logging.CRITICAL)
    assert os.path.abspath(valjean.__file__).startswith(os.path.abspath(REPO)), valjean.__file__

'''C03, real threads: a driver script schedules a few graphs with the real
(uncontrolled) QueueScheduling in a child process; the process must exit by
itself (no worker thread left behind keeps the interpreter alive).'''
import os
import subprocess
import sys

from vp import common

SCRIPT = r'''
import sys, threading, logging
logging.disable(logging.CRITICAL)
threading.excepthook = lambda args: None
from valjean.cosette.task import Task, TaskStatus
from valjean.cosette.depgraph import DepGraph, DepGraphError
from valjean.cosette.scheduler import Scheduler
from valjean.cosette.backends.queue import QueueScheduling
from valjean.cosette.env import Env

class P(Task):
    def __init__(self, name, kind):
        super().__init__(name); self.kind = kind
    def do(self, env, config):
        k = self.kind
        if k == 'done': return {self.name: {'x': 1}}, TaskStatus.DONE
        if k == 'raise': raise RuntimeError('boom')
        if k == 'none': return None
        if k == 'notpair': return {}, TaskStatus.DONE, 1
        if k == 'badstatus': return {}, 'bogus'
        if k == 'badupdate': return [1], TaskStatus.DONE
        return {}, TaskStatus.FAILED

kinds = sys.argv[1].split(',')
cyclic = sys.argv[2] == '1'
stale = sys.argv[3] == '1'
tasks = [P('t%d' % i, k) for i, k in enumerate(kinds)]
deps = {t: ([tasks[i - 1]] if i else []) for i, t in enumerate(tasks)}
if cyclic:
    deps[tasks[0]] = [tasks[-1]]
env = Env()
if stale:
    env['t0'] = {'status': TaskStatus.FAILED}
    env['t1'] = {'status': TaskStatus.SKIPPED}
try:
    Scheduler(hard_graph=DepGraph.from_dependency_dictionary(deps),
              backend=QueueScheduling(n_workers=3)).schedule(env=env)
    print('RETURNED', [int(env[t.name]['status']) for t in tasks])
except DepGraphError:
    print('RAISED DepGraphError')
print('THREADS', threading.active_count())
'''

CASES = [('done,done,done', 0, 0), ('done,notpair,done', 0, 0), ('badupdate,done', 0, 0),
         ('none,badstatus,raise,done', 0, 0), ('done,done', 1, 0), ('done,done,done', 0, 1)]


def run(ctx):
    wd = ctx.wd()
    path = os.path.join(wd, 'driver.py')
    with open(path, 'w') as fil:
        fil.write(SCRIPT)
    env = dict(os.environ)
    env['PYTHONPATH'] = common.REPO
    procs = [(c, subprocess.Popen([sys.executable, '-W', 'ignore', path, c[0], str(c[1]), str(c[2])],
                                  env=env, stdout=subprocess.PIPE, stderr=subprocess.STDOUT, text=True))
             for c in CASES]
    for case, proc in procs:
        desc = {'driver_script': {'outcomes_chain': case[0], 'cyclic': case[1], 'stale_initial_env': case[2]}}
        try:
            out, _ = proc.communicate(timeout=40)
        except subprocess.TimeoutExpired:
            proc.kill()
            proc.communicate()
            ctx.oracle_failure(f'driver process (real threads) does not terminate :: {desc}', desc,
                               key='process-hangs')
            continue
        ctx.count('driver_scripts')
        lines = [l for l in out.split('\n') if l.startswith(('RETURNED', 'RAISED', 'THREADS'))]
        if proc.returncode != 0 or not lines:
            ctx.oracle_failure(f'driver process exit {proc.returncode}: {out[-300:]} :: {desc}', desc,
                               key='process-fails')
        elif case[1] and not lines[0].startswith('RAISED'):
            ctx.oracle_failure(f'cyclic graph: {lines} :: {desc}', desc, key='cycle-accepted')
        elif 'THREADS 1' not in lines[-1]:
            ctx.oracle_failure(f'threads left after schedule(): {lines} :: {desc}', desc,
                               key='leaked-threads')

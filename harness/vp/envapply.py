'''C01, the content of the update: correspondence of valjean.cosette.env.Env.apply
(the merge WorkerThread.publish performs) with the structural model
coq/Sched/EnvApply.v (`merge`), on random nested dictionaries (content compared
exactly, key order inside a dictionary ignored: not part of C01), plus an
oracle on the real result that does not use the model (path statements of
Props/C01.v: the update is readable, what leaves the update is unchanged, the
call raises iff a non-empty dictionary of the update meets a leaf).

Outside the model (not generated): aliasing between the update and the
environment (sub-dictionaries of the update are stored by reference, so update
objects are built freshly for every call and never share sub-objects), update
values that are read-only Mappings, leaves that are containers.'''
import collections
import copy
from collections.abc import Mapping

from vp import common

IMPORTS = '''From Coq Require Import List.
From VV Require Import Lib.Base Sched.EnvApply.
Import ListNotations.
Notation L := Leaf.
Notation D := Dict.
(* content compared exactly, up to the order of the keys inside a dictionary (norm sorts every
   dictionary by key; Props/C01.v: C01_norm_get_path); raising compared as is *)
Definition check_case (x : val * list val * option val) : bool :=
  let '(old, us, want) := x in
  oval_eqb (option_map norm (apply_all us old)) (option_map norm want).
'''

KEYS = ['a', 'b', 'c', 'd', 'e']
CODE = {k: i for i, k in enumerate(KEYS)}
MTYPES = ['dict', 'dict', 'dict', 'OrderedDict', 'UserDict']


# ---------- descriptions: a leaf is an int, a dictionary a list of [key, description] ----------
def gen_desc(rng, depth, pleaf=0.5):
    '''a random dictionary description'''
    n = rng.choice([0, 1, 1, 2, 2, 3, 4])
    keys = rng.sample(KEYS, n)
    out = []
    for k in keys:
        if depth <= 1 or rng.random() < pleaf:
            out.append([k, rng.randrange(6)])
        else:
            out.append([k, gen_desc(rng, depth - 1, pleaf)])
    return out


def gen_update(rng, old, depth):
    '''an update description biased towards the structure of `old` (a description)'''
    oldmap = dict((k, v) for k, v in old) if isinstance(old, list) else {}
    n = rng.choice([0, 1, 1, 2, 2, 3, 4])
    keys = rng.sample(KEYS, n)
    out = []
    for k in keys:
        r = rng.random()
        if k in oldmap and isinstance(oldmap[k], list):
            if r < 0.6 and depth > 1:
                out.append([k, gen_update(rng, oldmap[k], depth - 1)])
            elif r < 0.8 or depth <= 1:
                out.append([k, rng.randrange(6)])              # a leaf replaces a dictionary
            else:
                out.append([k, gen_desc(rng, depth - 1)])
        elif k in oldmap:
            if r < 0.12 and depth > 1:
                out.append([k, gen_desc(rng, depth - 1)])      # a dictionary meets a leaf
            elif r < 0.2:
                out.append([k, []])                            # an empty one: no-op in the code
            else:
                out.append([k, rng.randrange(6)])
        else:
            if r < 0.5 or depth <= 1:
                out.append([k, rng.randrange(6)])
            else:
                out.append([k, gen_desc(rng, depth - 1)])
    return out


def build(desc, mtype='dict'):
    '''a fresh Python object for a description (no shared sub-objects)'''
    if not isinstance(desc, list):
        return desc
    items = [(k, build(v, mtype)) for k, v in desc]
    if mtype == 'OrderedDict':
        return collections.OrderedDict(items)
    if mtype == 'UserDict':
        return collections.UserDict(items)
    return dict(items)


def to_desc(obj):
    '''the description of a Python object, in iteration (= insertion) order'''
    if isinstance(obj, Mapping):
        return [[k, to_desc(v)] for k, v in obj.items()]
    return obj


def coq_val(desc):
    if not isinstance(desc, list):
        return f'(L {int(desc)})'
    return '(D [' + '; '.join(f'({CODE[k]}, {coq_val(v)})' for k, v in desc) + '])'


# ---------- path statements, on descriptions ----------
def get_path(desc, path):
    for k in path:
        if not isinstance(desc, list):
            return None
        for kk, v in desc:
            if kk == k:
                desc = v
                break
        else:
            return None
    return ('v', desc)


def all_paths(desc, prefix=()):
    '''every non-empty path of a description with what it reads'''
    if isinstance(desc, list):
        for k, v in desc:
            yield prefix + (k,), v
            yield from all_paths(v, prefix + (k,))


def untouched(upd, path):
    '''the path follows dictionaries of the update, then takes a key the update does not have'''
    cur = upd
    for k in path:
        if not isinstance(cur, list):
            return False
        for kk, v in cur:
            if kk == k:
                cur = v
                break
        else:
            return True
        if not isinstance(cur, list):
            return False
    return False


def clash(upd, old):
    '''some non-empty dictionary of the update sits where `old` has a leaf'''
    if isinstance(upd, list) and upd and not isinstance(old, list):
        return True
    for path, v in all_paths(upd):
        if isinstance(v, list) and v:
            got = get_path(old, path)
            if got is not None and not isinstance(got[1], list):
                return True
    return False


def oracle_step(ctx, case, old, upd, upd_after, result):
    '''property-level checks of one call on the real objects (no model)'''
    def fail(what, key):
        ctx.oracle_failure(f'{what} :: old={old} update={upd} result={result}', case, key=key)
    if upd_after != upd:
        fail('Env.apply modified the update object', 'apply-modifies-update')
    raised = not isinstance(result, list)
    if raised != clash(upd, old):
        fail('Env.apply raises although no non-empty dictionary of the update meets a leaf'
             if raised else 'Env.apply does not raise although a non-empty dictionary of the '
             'update meets a leaf', 'apply-raise-condition')
    if raised:
        return
    for path, v in all_paths(upd):
        if not isinstance(v, list) and get_path(result, path) != ('v', v):
            fail(f'the leaf {v} of the update at {"/".join(path)} is not readable after apply',
                 'apply-update-not-readable')
            break
    for path, v in all_paths(old):
        if untouched(upd, path) and get_path(result, path) != ('v', v):
            fail(f'apply changed {"/".join(path)}, which the update does not mention',
                 'apply-frame')
            break
    for k, v in result:
        if get_path(old, (k,)) is None and get_path(upd, (k,)) is None:
            fail(f'apply created the key {k}', 'apply-frame')
            break


def gen_case(rng, i):
    depth = rng.choice([1, 2, 3, 3, 4, 4])
    old = gen_desc(rng, depth, pleaf=0.4)
    kind = ('apply', 'apply', 'history', 'atomically')[i % 4]
    ups = [gen_update(rng, old, depth)]
    if kind == 'history':
        # the second update is biased towards what the first one leaves
        ups.append(gen_update(rng, ups[0] if rng.random() < 0.5 else old, depth))
    return {'kind': kind, 'old': old, 'updates': ups, 'mtype': rng.choice(MTYPES)}


def run_impl(Env, case):
    '''the real code on fresh objects; returns the per-step observations'''
    env = Env(copy.deepcopy(build(case['old'])))
    steps = []
    for upd in case['updates']:
        before = to_desc(env.dictionary)
        obj = build(upd, case['mtype'])
        try:
            if case['kind'] == 'atomically':
                env.atomically(lambda e, obj=obj: e.apply(obj))
            else:
                env.apply(obj)
            result = to_desc(env.dictionary)
        except Exception as exc:            # pylint: disable=broad-except
            result = type(exc).__name__
        steps.append({'old': before, 'update': upd, 'update_after': to_desc(obj), 'result': result})
        if not isinstance(result, list):
            break
    return steps


def run(ctx):
    from valjean.cosette.env import Env
    ncases = 1500 if ctx.tier == 'quick' else 50000
    cases = [gen_case(ctx.rng, i) for i in range(ncases)]
    items = []
    for case in cases:
        steps = run_impl(Env, case)
        case['steps'] = [{'result': s['result']} for s in steps]
        for s in steps:
            oracle_step(ctx, case, s['old'], s['update'], s['update_after'], s['result'])
        final = steps[-1]['result']
        raised = not isinstance(final, list)
        want = 'None' if raised else f'(Some {coq_val(final)})'
        items.append(f'({coq_val(case["old"])}, '
                     f'[{"; ".join(coq_val(u) for u in case["updates"])}], {want})')
        deep = any(isinstance(v, list) and get_path(case['old'], p) is not None
                   for p, v in all_paths(case['updates'][0]))
        ctx.case_seen({'envapply': case}, nontrivial=bool(case['updates'][0]))
        ctx.count('apply_' + case['kind'])
        ctx.count('apply_raises' if raised else 'apply_ok')
        ctx.count('apply_merges_into_existing_subdict' if deep else 'apply_shallow')
        ctx.count('apply_update_as_' + case['mtype'])
    per = 500
    shards = []
    for k in range(0, len(items), per):
        shards.append('Definition cases : list (val * list val * option val) :=\n ['
                      + ';\n '.join(items[k:k + per])
                      + '].\nEval vm_compute in bad_indices (map check_case cases).')
    outs = common.coq_eval(ctx.pid, IMPORTS, shards)
    for k, out in enumerate(outs):
        for i in common.parse_nat_list(out):
            case = cases[k * per + i]
            ctx.mismatch('Env.apply and the model merge (coq/Sched/EnvApply.v) disagree :: '
                         f'old={case["old"]} updates={case["updates"]} kind={case["kind"]} '
                         f'mapping={case["mtype"]} code gives {case["steps"][-1]["result"]}',
                         {'envapply': case})
    ctx.notes.append(f'Env.apply: {ncases} (old, update) pairs of nested dictionaries run on the real '
                     'Env.apply (direct, two-step histories, through Env.atomically; update nodes as '
                     'dict/OrderedDict/UserDict) and compared with merge of coq/Sched/EnvApply.v (content and '
                     'raising; key order inside a dictionary ignored via norm); path oracle (readable / frame / raise condition / update '
                     'untouched) on the real result')


def replay(ctx, case):
    from valjean.cosette.env import Env
    case = {k: v for k, v in case.items() if k != 'steps'}
    print(f'kind={case["kind"]} mapping={case["mtype"]}')
    print('old     :', case['old'])
    steps = run_impl(Env, case)
    for s in steps:
        print('update  :', s['update'])
        print('  code  :', s['result'])
        oracle_step(ctx, case, s['old'], s['update'], s['update_after'], s['result'])
    body = (f'Eval vm_compute in apply_all [{"; ".join(coq_val(u) for u in case["updates"])}] '
            f'{coq_val(case["old"])}.')
    print('  model :', ' '.join(common.coq_eval(ctx.pid, IMPORTS, [body])[0].split()),
          f'(key codes {CODE})')
    for v in ctx.violations:
        print('oracle:', v[1][:400])
    return 0

'''C02: what the worker makes of the value a task returns.  WorkerThread.check_result and
WorkerThread.publish (static methods of the real code) are called directly on Python values of
every shape; the answers are compared in Coq with check_result / worker_outcome of
coq/Sched/Result.v on the shape.  The shape of a Python value is computed here from its type
only (isinstance against collections.abc, unpacking) -- the encoder is part of the trusted base.
The full path (do() -> run() -> publish) is exercised by the scheduler histories of schedcheck.'''
import collections
import collections.abc
import types

from vp import common
from vp.common import cb, cn, clist

IMPORTS = '''From Coq Require Import List Bool Arith.
From VV Require Import Sched.Model Sched.Result.
Import ListNotations.
'''


class FrozenMap(collections.abc.Mapping):
    def __init__(self, dct):
        self._d = dict(dct)

    def __getitem__(self, key):
        return self._d[key]

    def __iter__(self):
        return iter(self._d)

    def __len__(self):
        return len(self._d)


class DuckDict:
    '''looks like a dictionary, is not registered as a Mapping'''

    def __init__(self):
        self.d = {}

    def get(self, key, default=None):
        return self.d.get(key, default)

    def items(self):
        return self.d.items()

    def __iter__(self):
        return iter(())


ABSENT = object()


def own_values(name):
    '''(shape, value to file under the task's own name or ABSENT)'''
    from valjean.cosette.env import Env
    return [
        ('OwnAbsent', ABSENT),
        ('OwnMutable', {}), ('OwnMutable', {'marker': 1}), ('OwnMutable', collections.OrderedDict(a=1)),
        ('OwnMutable', collections.UserDict({'a': 1})), ('OwnMutable', collections.defaultdict(list)),
        ('OwnMutable', Env()),
        ('OwnReadOnly', types.MappingProxyType({'a': 1})), ('OwnReadOnly', types.MappingProxyType({})),
        ('OwnReadOnly', FrozenMap({'a': 1})),
        ('OwnOther', 5), ('OwnOther', None), ('OwnOther', 'text'), ('OwnOther', [1, 2]), ('OwnOther', 0),
        ('OwnOther', ()), ('OwnOther', DuckDict()),
    ]


def status_values(TaskStatus):
    import numpy as np
    vals = [(f'(StMember {m.name})', m) for m in TaskStatus]
    for n in (0, 1, 2, 3, 4, 5, 6, 7, 99):
        vals.append((f'(StCode {n})', n))
    # equal to an integer code without being an int
    vals += [('(StCode 1)', True), ('(StCode 3)', 3.0), ('(StCode 4)', np.int64(4)), ('(StCode 3)', np.int8(3)),
             ('(StCode 0)', False), ('(StCode 5)', 5.0)]
    vals += [('StJunk', v) for v in (None, 'DONE', 'bogus', '3', (3,), -1, 3.5, [3], b'DONE', float('nan'))]
    return vals


def gen_cases(ctx, name, TaskStatus, n_random):
    rng = ctx.rng
    owns = own_values(name)
    stats = status_values(TaskStatus)
    cases = []      # (coq result, mergeable, python value, clash)

    def make_update(kind, own, top):
        upd = {}
        if own is not ABSENT:
            upd[name] = own
        upd['other_key'] = {'k': 1}
        if top == 'proxy':
            return types.MappingProxyType(upd)
        if top == 'frozen':
            return FrozenMap(upd)
        if top == 'ordered':
            return collections.OrderedDict(upd)
        if top == 'userdict':
            return collections.UserDict(upd)
        return upd
    tops = ['dict', 'proxy', 'frozen', 'ordered', 'userdict']
    others = [[1, 2, 3], [], (), '', 0, False, set(), 'abc', 5, 2.5, DuckDict(), object(), b'xy', frozenset({1})]
    # the whole product of own shapes x statuses (one top-level class each, rotating), both mergeabilities
    k = 0
    for oshape, own in owns:
        for sshape, sval in stats:
            top = tops[k % len(tops)]
            k += 1
            for mergeable in (True, False):
                cases.append((f'(Pair (UMap {oshape}) {sshape})', mergeable,
                              ('pair', ('map', own, top), sval)))
    for sshape, sval in stats:
        cases.append((f'(Pair UNone {sshape})', True, ('pair', ('none',), sval)))
        for other in others[k % 3::3]:
            cases.append((f'(Pair UOther {sshape})', True, ('pair', ('other', other), sval)))
        k += 1
    # values that are not pairs
    for val in (None, 5, 'abc', '', (), (1,), (1, 2, 3), [], [{}], {}, {'a': 1}, {'a': 1, 'b': 2, 'c': 3},
                object(), 2.5, b'abc', set(), {1, 2, 3}, iter(()), TaskStatus.DONE, True):
        cases.append(('NotPair', True, ('raw', val)))
    # two-item containers are pairs, whatever they are
    cases.append(('(Pair UOther StJunk)', True, ('raw', 'ab')))
    cases.append(('(Pair UOther StJunk)', True, ('raw', {'a': 1, 'b': 2})))
    cases.append(('(Pair UNone (StMember DONE))', True, ('raw', [None, TaskStatus.DONE])))
    cases.append(('(Pair UNone (StCode 4))', True, ('raw', iter((None, 4)))))
    # random extra combinations
    for _ in range(n_random):
        oshape, own = rng.choice(owns)
        sshape, sval = rng.choice(stats)
        cases.append((f'(Pair (UMap {oshape}) {sshape})', rng.random() < 0.7,
                      ('pair', ('map', own, rng.choice(tops)), sval)))
    return cases, make_update


def run(ctx, n_random=150):
    common.import_repo()
    from valjean.cosette.backends import queue as queue_mod
    from valjean.cosette.env import Env
    from valjean.cosette.task import Task, TaskStatus, TaskError
    worker = queue_mod.QueueScheduling.WorkerThread
    check = getattr(worker, 'check_result', None)
    publish = getattr(worker, 'publish', None)
    if check is None or publish is None:
        ctx.notes.append('WorkerThread.check_result / publish are not there under these names: the direct '
                         'correspondence of Sched/Result.v is skipped (the scheduler histories still cover it)')
        return
    class Plain(Task):
        def do(self, env, config):
            raise NotImplementedError
    task = Plain('tsk')
    cases, make_update = gen_cases(ctx, task.name, TaskStatus, n_random)
    items = []
    kept = []
    for coq_r, mergeable, spec in cases:
        if spec[0] == 'raw':
            value = spec[1]
            upd_for_clash = None
        else:
            ukind = spec[1]
            if ukind[0] == 'none':
                upd = None
            elif ukind[0] == 'other':
                upd = ukind[1]
            else:
                upd = make_update('map', ukind[1], ukind[2])
            if upd is not None and isinstance(upd, collections.abc.Mapping) and not mergeable:
                # the same update with a component that cannot be merged (put first)
                clash = {'aux_clash': {'x': 1}}
                clash.update(dict(upd.items()))
                upd = type(upd)(clash) if isinstance(upd, (dict, collections.UserDict, FrozenMap)) \
                    else types.MappingProxyType(clash)
            value = (upd, spec[2])
        # --- the real code
        try:
            env_update, status = check(task, value)
            chk = 1 if status == TaskStatus.DONE else 2
        except TaskError:
            env_update, status, chk = None, TaskStatus.FAILED, 0
        except Exception as exc:  # noqa
            ctx.oracle_failure(f'check_result raises {type(exc).__name__} (not TaskError) for the returned value '
                               f'{value!r:.200}: the worker would treat it as a failing task only by accident',
                               {'kind': 'result', 'value': repr(value)[:300]}, key='check-result-raises')
            continue
        env = Env({task.name: {'status': TaskStatus.PENDING}, 'aux_clash': 3})
        try:
            publish(task, env_update, status, 1.0, 2.0, env)
        except Exception as exc:  # noqa
            ctx.oracle_failure(f'publish raises {type(exc).__name__} for the returned value {value!r:.200}: the '
                               f'worker thread would die (C03) and the task never gets a final status',
                               {'kind': 'result', 'value': repr(value)[:300]}, key='publish-raises')
            continue
        entry = env.dictionary.get(task.name)
        final = entry.get('status') if isinstance(entry, collections.abc.Mapping) else None
        if final not in (TaskStatus.DONE, TaskStatus.FAILED):
            ctx.oracle_failure(f'after publish the status of the task is {final!r} (returned value {value!r:.200}): '
                               f'not a final state', {'kind': 'result', 'value': repr(value)[:300]},
                               key='published-not-final')
            continue
        okbit = 1 if final == TaskStatus.DONE else 0
        applied = 1 if (okbit or chk) and mergeable and 'other_key' in env.dictionary else 0
        # has_upd as the model means it: the update was a mapping and was merged
        out = 2 * applied + okbit
        items.append(f'({coq_r}, {cb(mergeable)}, {cn(chk)}, {cn(out)})')
        kept.append((coq_r, mergeable, repr(value)[:300], chk, out))
        ctx.count('result_shapes')
        ctx.count('result_check_' + ['error', 'done', 'failed'][chk])
    shards = []
    per = 400
    for k in range(0, len(items), per):
        shards.append('Definition cases : list rcase :=\n [' + ';\n  '.join(items[k:k + per])
                      + '].\nEval vm_compute in bad_rcases 0 cases.')
    outs = common.coq_eval(ctx.pid, IMPORTS, shards)
    for k, o in enumerate(outs):
        for i in common.parse_nat_list(o):
            coq_r, mergeable, val, chk, out = kept[k * per + i]
            ctx.mismatch(f'returned value {val} (shape {coq_r}, mergeable={mergeable}): the worker gives '
                         f'check_result={["TaskError", "DONE", "FAILED"][chk]}, outcome code {out} '
                         f'(2*update merged + DONE); Sched/Result.v says otherwise',
                         {'kind': 'result', 'shape': coq_r, 'mergeable': mergeable, 'value': val})
    ctx.extra['result_shapes_compared'] = len(items)


def run_default_env(ctx):
    """C02 from the EMPTY environment through the default argument: two Schedulers of one process
    call schedule() WITHOUT an environment, with tasks of the same names; the second run must not
    see anything of the first one (real threads, the outcome does not depend on the schedule)."""
    import threading
    from valjean.cosette.task import Task, TaskStatus
    from valjean.cosette.depgraph import DepGraph
    from valjean.cosette.scheduler import Scheduler
    counts = {}

    class Plain(Task):
        def __init__(self, name, fails):
            super().__init__(name)
            self.fails = fails

        def do(self, env, config):
            counts[self.name] = counts.get(self.name, 0) + 1
            if self.fails:
                raise RuntimeError('fails in this run')
            return {self.name: {'run': counts[self.name]}}, TaskStatus.DONE
    history = [(False, False), (True, False), (False, True), (False, False)]
    box = {}

    def body():
        try:
            seen = []
            for fa, fb in history:
                counts.clear()
                a, b, c = Plain('a', fa), Plain('b', fb), Plain('c', False)
                graph = DepGraph.from_dependency_dictionary({a: [], b: [a], c: [b]})
                soft = DepGraph.from_dependency_dictionary({a: [], b: [], c: [a]})
                env = Scheduler(hard_graph=graph, soft_graph=soft).schedule()
                seen.append(([str(env[t]['status'].name) for t in 'abc'], [counts.get(t, 0) for t in 'abc']))
            box['seen'] = seen
        except BaseException as exc:  # noqa
            box['exc'] = repr(exc)
    thread = threading.Thread(target=body, daemon=True)
    thread.start()
    thread.join(60)
    case = {'kind': 'default-env', 'history': history}
    if thread.is_alive():
        ctx.oracle_failure('schedule() without an environment argument did not come back within 60 s '
                           '(history of four runs in one process)', case, key='default-env-hang')
        return
    if 'exc' in box:
        ctx.oracle_failure(f'schedule() without an environment argument raised {box["exc"]}', case,
                           key='default-env-raise')
        return
    for k, ((fa, fb), (statuses, execs)) in enumerate(zip(history, box['seen'])):
        want = (['FAILED', 'SKIPPED', 'SKIPPED'], [1, 0, 0]) if fa else \
            (['DONE', 'FAILED', 'SKIPPED'], [1, 1, 0]) if fb else (['DONE', 'DONE', 'DONE'], [1, 1, 1])
        if (statuses, execs) != want:
            ctx.oracle_failure(f'run {k} of a process that calls schedule() without an environment each time '
                               f'(chain a <- b <- c, a fails: {fa}, b fails: {fb}): statuses {statuses}, executions '
                               f'{execs}; from the empty environment the rule gives {want[0]}, {want[1]}',
                               case, key='default-env-not-empty')
    ctx.count('default_env_runs', len(history))

'''A controlled scheduler for valjean's QueueScheduling backend.

Real OS threads are used, but a baton lets exactly one of them run at a time.
Every synchronisation operation of the code under test (environment lock,
work queue, condition variable, thread start/join, start of a probe task) is
an *operation* preceded by a yield point: the thread announces the operation
and whether it is currently enabled, and blocks; the controller picks the next
thread among those whose announced operation is enabled; the chosen thread
performs its operation atomically and runs on to its next yield point.

Nothing in /repo is modified: the names ``threading``, ``Queue`` and ``time``
are replaced in the namespaces of ``valjean.cosette.backends.queue`` and
``valjean.cosette.env`` for the duration of a run, and
``WorkerThread.start/join`` are wrapped.

The trace is the list of performed operations
``(tid, kind, arg, clock values read, environment snapshot after the atom,
enabled-set before the choice)``.
'''
import threading as _threading
import time as _time
import traceback


class Abort(BaseException):
    '''raised inside controlled threads to unwind them after a deadlock or a
    watchdog timeout'''


class DeadlockDetected(Exception):
    pass


class _T:
    def __init__(self, tid, name):
        self.tid = tid
        self.name = name
        self.sem = _threading.Semaphore(0)
        self.alive = True
        self.op = None        # (kind, arg)
        self.pred = None      # callable or None
        self.thread = None


class Controller:
    def __init__(self, choose, snapshot, max_steps=20000, wall_timeout=60.0):
        self.choose = choose            # f(step_no, [runnable tids]) -> tid
        self.snapshot = snapshot        # f() -> JSON-able env abstraction
        self.threads = {}               # ident -> _T
        self.by_tid = {}
        self.trace = []
        self.deadlock = None
        self.aborting = False
        self.max_steps = max_steps
        self.t0 = _time.time()
        self.wall_timeout = wall_timeout
        self.clock = 0
        self.pending_times = []
        self.cur_event = None
        self.errors = []
        self.lock = _threading.Lock()

    # ---- registration
    def register_current(self, tid, name):
        t = _T(tid, name)
        t.thread = _threading.current_thread()
        self.threads[_threading.get_ident()] = t
        self.by_tid[tid] = t
        return t

    def me(self):
        return self.threads.get(_threading.get_ident())

    def active(self):
        return self.me() is not None

    # ---- the heart
    def _finish_event(self):
        if self.cur_event is not None:
            self.cur_event['times'] = self.pending_times
            self.cur_event['env'] = self.snapshot()
            self.trace.append(self.cur_event)
            self.cur_event = None
        self.pending_times = []

    def _enabled(self, t):
        if not t.alive or t.op is None:
            return False
        try:
            return t.pred is None or bool(t.pred())
        except Exception:  # noqa
            return False

    def _pick_next(self, me):
        '''choose and wake the next thread; return True if it is `me`'''
        if self.aborting:
            raise Abort()
        if len(self.trace) > self.max_steps or _time.time() - self.t0 > self.wall_timeout:
            self._abort('step/time limit exceeded (livelock or hang)')
        runnable = sorted(t.tid for t in self.by_tid.values() if self._enabled(t))
        if not runnable:
            alive = [(t.tid, t.op) for t in self.by_tid.values() if t.alive]
            self._abort('deadlock: no runnable thread; blocked: %r' % (alive,))
        tid = self.choose(len(self.trace), runnable)
        nxt = self.by_tid[tid]
        self.cur_event = {'tid': tid, 'op': nxt.op[0], 'arg': nxt.op[1], 'enabled': runnable}
        if nxt is me:
            return True
        nxt.sem.release()
        return False

    def _abort(self, why):
        self.deadlock = why
        self.aborting = True
        for t in self.by_tid.values():
            if t.alive:
                t.sem.release()
        raise Abort()

    def yield_point(self, kind, arg=None, pred=None):
        me = self.me()
        if me is None:
            return
        if self.aborting:
            raise Abort()
        self._finish_event()
        me.op = (kind, arg)
        me.pred = pred
        if not self._pick_next(me):
            me.sem.acquire()
            if self.aborting:
                raise Abort()
        me.op = None
        me.pred = None

    def set_arg(self, arg):
        if self.cur_event is not None:
            self.cur_event['arg'] = arg

    def note(self, key, value):
        if self.cur_event is not None:
            self.cur_event[key] = value

    def thread_exit(self):
        me = self.me()
        if me is None:
            return
        me.alive = False
        me.op = None
        if self.aborting:
            return
        self._finish_event()
        live = [t for t in self.by_tid.values() if t.alive]
        if not live:
            return
        try:
            self._pick_next(None)
        except Abort:
            pass

    def time(self):
        # logical clock: non-decreasing; with `tie_mod` some consecutive calls
        # return the same value (coarse real clocks do that)
        self.ncalls = getattr(self, 'ncalls', 0) + 1
        tie = getattr(self, 'tie_mod', 0)
        if not (tie and self.ncalls % tie == 0):
            self.clock += 1
        self.pending_times.append(self.clock)
        return float(self.clock)


# --------------------------------------------------------------------------
# shims

class CtlRLock:
    '''re-entrant lock; the outermost acquire..release is one operation'''

    def __init__(self, ctl_ref, kind='env', reentrant=True):
        self.ctl_ref = ctl_ref
        self.kind = kind
        self.reentrant = reentrant
        self.owner = None
        self.depth = 0
        self.real = _threading.RLock()

    def acquire(self, blocking=True, timeout=-1):
        ctl = self.ctl_ref()
        if ctl is None or not ctl.active():
            return self.real.acquire(blocking, timeout)
        me = ctl.me()
        if self.owner is me:
            if not self.reentrant:
                # a plain Lock taken again by its owner: blocks for ever
                ctl.yield_point(self.kind, None, pred=lambda: False)
            self.depth += 1
            return True
        ctl.yield_point(self.kind, None, pred=lambda: self.owner is None)
        self.owner = me
        self.depth = 1
        return True

    def release(self):
        ctl = self.ctl_ref()
        if ctl is None or not ctl.active():
            return self.real.release()
        self.depth -= 1
        if self.depth == 0:
            self.owner = None
        return None

    __enter__ = acquire

    def __exit__(self, *exc):
        self.release()


class CtlCondition:
    def __init__(self, ctl_ref):
        self.ctl_ref = ctl_ref
        self.owner = None
        self.waiters = []       # _T objects waiting and not yet notified
        self.notified = set()

    def acquire(self):
        ctl = self.ctl_ref()
        me = ctl.me()
        ctl.yield_point('cv_acquire', None, pred=lambda: self.owner is None)
        self.owner = me
        return True

    def release(self):
        ctl = self.ctl_ref()
        ctl.yield_point('cv_release', None)
        self.owner = None

    def __enter__(self):
        return self.acquire()

    def __exit__(self, *exc):
        ctl = self.ctl_ref()
        if ctl.aborting:
            self.owner = None
            return
        self.release()

    def wait(self, timeout=None):
        ctl = self.ctl_ref()
        me = ctl.me()
        ctl.yield_point('cv_wait', None)
        self.owner = None
        self.waiters.append(me)
        ctl.yield_point('cv_wake', None,
                        pred=lambda: me in self.notified and self.owner is None)
        self.notified.discard(me)
        self.owner = me
        return True

    def notify_all(self):
        ctl = self.ctl_ref()
        ctl.yield_point('cv_notify', None)
        for w in self.waiters:
            self.notified.add(w)
        self.waiters = []

    def notify(self, n=1):
        ctl = self.ctl_ref()
        ctl.yield_point('cv_notify1', None)
        for w in self.waiters[:n]:
            self.notified.add(w)
        self.waiters = self.waiters[n:]


class CtlQueue:
    def __init__(self, ctl_ref, names):
        self.ctl_ref = ctl_ref
        self.items = []
        self.unfinished = 0
        self.names = names       # task object -> model id

    def _name(self, item):
        return None if item is None else self.names(item)

    def put(self, item, block=True, timeout=None):
        ctl = self.ctl_ref()
        ctl.yield_point('put', self._name(item))
        self.items.append(item)
        self.unfinished += 1

    def get(self, block=True, timeout=None):
        ctl = self.ctl_ref()
        ctl.yield_point('get', None, pred=lambda: bool(self.items))
        item = self.items.pop(0)
        ctl.set_arg(self._name(item))
        return item

    def task_done(self):
        ctl = self.ctl_ref()
        ctl.yield_point('task_done', None)
        if self.unfinished <= 0:
            raise ValueError('task_done() called too many times')
        self.unfinished -= 1

    def join(self):
        ctl = self.ctl_ref()
        ctl.yield_point('q_join', None, pred=lambda: self.unfinished == 0)

    def qsize(self):
        return len(self.items)

    def empty(self):
        return not self.items


class _ThreadingShim:
    '''stands for the ``threading`` module inside the patched namespaces'''

    def __init__(self, ctl_ref, real):
        self._ctl_ref = ctl_ref
        self._real = real

    def __getattr__(self, name):
        return getattr(self._real, name)

    def Condition(self, lock=None):
        ctl = self._ctl_ref()
        if ctl is None or not ctl.active():
            return self._real.Condition(lock)
        return CtlCondition(self._ctl_ref)

    def RLock(self):
        return CtlRLock(self._ctl_ref)

    def Lock(self):
        return CtlRLock(self._ctl_ref, reentrant=False)


class _TimeShim:
    def __init__(self, ctl_ref, real):
        self._ctl_ref = ctl_ref
        self._real = real

    def __getattr__(self, name):
        return getattr(self._real, name)

    def time(self):
        ctl = self._ctl_ref()
        if ctl is None or not ctl.active():
            return self._real.time()
        return ctl.time()


class Harness:
    '''installs / removes the shims around one controlled run'''

    def __init__(self):
        self.ctl = None

    def ctl_ref(self):
        return self.ctl

    def install(self, queue_mod, env_mod, names):
        self.queue_mod, self.env_mod = queue_mod, env_mod
        # (a module that does not use `time` any more simply keeps whatever clock it reads)
        self.saved = (queue_mod.threading, queue_mod.Queue, getattr(queue_mod, 'time', _time),
                      env_mod.threading,
                      queue_mod.QueueScheduling.WorkerThread.start,
                      queue_mod.QueueScheduling.WorkerThread.join,
                      queue_mod.QueueScheduling.WorkerThread.run)
        shim = _ThreadingShim(self.ctl_ref, self.saved[0])
        queue_mod.threading = shim
        env_mod.threading = _ThreadingShim(self.ctl_ref, self.saved[3])
        if hasattr(queue_mod, 'time'):
            queue_mod.time = _TimeShim(self.ctl_ref, self.saved[2])
        harness = self

        def make_queue(maxsize=0):
            ctl = harness.ctl
            if ctl is None or not ctl.active():
                return harness.saved[1](maxsize)
            return CtlQueue(harness.ctl_ref, names)
        queue_mod.Queue = make_queue
        wt = queue_mod.QueueScheduling.WorkerThread
        real_start, real_join, real_run = self.saved[4], self.saved[5], self.saved[6]

        def start(thread):
            ctl = harness.ctl
            if ctl is None or not ctl.active():
                return real_start(thread)
            tid = len(ctl.by_tid)
            ctl.yield_point('start', tid)
            t = _T(tid, f'W{tid}')
            t.thread = thread
            t.op = ('boot', None)
            ctl.by_tid[tid] = t
            thread._vp_t = t
            thread.daemon = True
            real_start(thread)
            return None

        def run(thread):
            ctl = harness.ctl
            t = getattr(thread, '_vp_t', None)
            if ctl is None or t is None:
                return real_run(thread)
            ctl.threads[_threading.get_ident()] = t
            t.sem.acquire()           # wait to be scheduled for the first time
            try:
                if ctl.aborting:
                    raise Abort()
                t.op = None
                real_run(thread)
            except Abort:
                pass
            except BaseException as exc:  # the worker died: that is an observation
                ctl.errors.append(('worker-died', t.tid, repr(exc), traceback.format_exc()[-800:]))
            finally:
                ctl.thread_exit()
            return None

        def join(thread, timeout=None):
            ctl = harness.ctl
            t = getattr(thread, '_vp_t', None)
            if ctl is None or t is None or not ctl.active():
                return real_join(thread, timeout)
            ctl.yield_point('join', t.tid, pred=lambda: not t.alive)
            return None
        wt.start, wt.join, wt.run = start, join, run

    def uninstall(self):
        q, e = self.queue_mod, self.env_mod
        (q.threading, q.Queue, q.time, e.threading,
         q.QueueScheduling.WorkerThread.start, q.QueueScheduling.WorkerThread.join,
         q.QueueScheduling.WorkerThread.run) = self.saved

    def run(self, fn, choose, snapshot, max_steps=20000, wall_timeout=60.0):
        '''run fn() (in the calling thread, as thread 0 = master) under control.
        Returns dict(result|exception, trace, deadlock, errors, leaked).'''
        ctl = Controller(choose, snapshot, max_steps, wall_timeout)
        self.ctl = ctl
        me = ctl.register_current(0, 'M')
        out = {'result': None, 'exception': None}
        # the 'boot' op of workers: a worker thread is runnable from its start;
        # its first real operation is announced when it first runs.
        try:
            out['result'] = fn()
        except Abort:
            out['exception'] = 'Abort'
        except BaseException as exc:  # noqa
            out['exception'] = type(exc).__name__
            out['exc_repr'] = repr(exc)[:300]
        finally:
            me.alive = False
            try:
                ctl._finish_event()
            except Exception:  # noqa
                pass
            # anything still alive is a leaked worker (or an aborted run)
            leaked = [t.tid for t in ctl.by_tid.values() if t.alive]
            out['leaked'] = leaked
            if leaked:
                ctl.aborting = True
                for t in ctl.by_tid.values():
                    if t.alive:
                        t.sem.release()
                deadline = _time.time() + 5
                for t in ctl.by_tid.values():
                    if t.thread is not None and t.thread is not _threading.current_thread():
                        self.saved[5](t.thread, max(0.0, deadline - _time.time()))
            self.ctl = None
        out['trace'] = ctl.trace
        out['deadlock'] = ctl.deadlock
        out['errors'] = ctl.errors
        return out

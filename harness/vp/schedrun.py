'''Runs valjean's scheduler under the controlled scheduler (detsched) on
generated cases (histories of runs) and evaluates the oracles of C01-C04.
Used in a child process:  python -m vp.schedrun cases.json results.jsonl
(one JSON line per case, flushed, so that a hang is attributed to a case).'''
import _thread
import collections.abc
import contextlib
import copy
import io
import json
import logging
import os
import pickle
import random
import sys
import time
import types
import warnings

import numpy as np

OUTCOMES = ['done', 'failupd', 'failnone', 'raise', 'none', 'notpair', 'badstatus',
            'badupdate', 'waitstatus', 'intstatus', 'donenone', 'clash']
# model view of an outcome: (has_upd, ok)
OUTCOME_MODEL = {'done': (True, True), 'poison': (True, True), 'failupd': (True, False), 'intstatus': (True, True), 'nested': (True, True), 'donenone': (False, True)}

STATUS_NAMES = {1: 'WAITING', 2: 'PENDING', 3: 'DONE', 4: 'FAILED', 5: 'SKIPPED'}


def spec_status(n, hard, outcomes, order=None):
    '''C02: final status as a function of the graph and the outcomes only'''
    memo = {}

    def rec(t, seen=()):
        if t in memo:
            return memo[t]
        if t in seen:
            return None
        for d in hard[t]:
            if rec(d, seen + (t,)) in ('FAILED', 'SKIPPED'):
                memo[t] = 'SKIPPED'
                return 'SKIPPED'
        memo[t] = 'DONE' if OUTCOME_MODEL.get(outcomes[t].partition(':')[0], (False, False))[1] else 'FAILED'
        return memo[t]
    return [rec(t) for t in range(n)]


def semantic_deps(case):
    '''(full, hard): for every task the tasks that must be final before it may start, and those
    whose failure must skip it -- computed from the generated graphs alone.  With stages (nested
    graph nodes, case['stages'] = list of member lists, stage k has node id n+k): depending on a
    stage means depending on all its members (an EMPTY stage passes the dependency on to what the
    stage itself depends on); a member of a stage depends on what the stage depends on.'''
    n = case['n']
    stages = case.get('stages') or []
    hard, soft = case['hard'], case['soft']
    if not stages:
        return ([sorted(set(hard[t]) | set(soft[t])) for t in range(n)], [sorted(hard[t]) for t in range(n)])
    stage_of = {}
    for k, members in enumerate(stages):
        for m in members:
            stage_of[m] = k

    def expand(node, kind, seen):
        '''tasks a dependency on `node` stands for'''
        if node < n:
            return {node}
        k = node - n
        if stages[k]:
            return set(stages[k])
        if node in seen:
            return set()
        out = set()
        for d in (hard[node] if kind == 'hard' else sorted(set(hard[node]) | set(soft[node]))):
            out |= expand(d, kind, seen | {node})
        return out

    def direct(t, kind):
        edges = hard[t] if kind == 'hard' else sorted(set(hard[t]) | set(soft[t]))
        out = set()
        for d in edges:
            out |= expand(d, kind, frozenset())
        if t in stage_of:
            snode = n + stage_of[t]
            sedges = hard[snode] if kind == 'hard' else sorted(set(hard[snode]) | set(soft[snode]))
            for d in sedges:
                out |= expand(d, kind, frozenset())
        out.discard(t)
        return sorted(out)
    return [direct(t, 'full') for t in range(n)], [direct(t, 'hard') for t in range(n)]


def is_cyclic(n, deps):
    color = [0] * n

    def visit(u):
        color[u] = 1
        for v in deps[u]:
            if color[v] == 1 or (color[v] == 0 and visit(v)):
                return True
        color[u] = 2
        return False
    return any(color[u] == 0 and visit(u) for u in range(n))


class World:
    '''everything that depends on the valjean checkout'''

    def __init__(self):
        from valjean.cosette import env as env_mod
        from valjean.cosette.backends import queue as queue_mod
        from valjean.cosette.task import Task, TaskStatus
        from valjean.cosette.depgraph import DepGraph
        from valjean.cosette.scheduler import Scheduler
        from vp import detsched
        self.env_mod, self.queue_mod = env_mod, queue_mod
        self.Task, self.TaskStatus, self.DepGraph, self.Scheduler = Task, TaskStatus, DepGraph, Scheduler
        self.detsched = detsched
        self.harness = detsched.Harness()
        self.names = {}
        self.harness.install(queue_mod, env_mod, lambda task: self.names.get(task.name, -1))
        world = self

        class Probe(Task):
            def __init__(self, idx, deps_idx):
                super().__init__(f't{idx}')
                self.idx = idx
                self.deps_idx = deps_idx
                self.dependents = []       # tasks that depend on this one (gifts go to them)

            def __bool__(self):
                # a task object may be falsy (e.g. a task that is an empty collection of work items)
                return self.idx not in world.falsy

            def do(self, env, config):
                return probe_do(self, env, config, env.dictionary.get)

        def probe_do(self, env, config, get):
            ctl = world.harness.ctl
            ctl.yield_point('task_start', self.idx)
            world.exec_count[self.idx] += 1
            world.run_execs[self.idx] += 1
            k = world.exec_count[self.idx]
            obs = {}
            for d in self.deps_idx:
                ent = get(f't{d}')
                own = get(self.name) or {}
                obs[d] = None if ent is None else (
                    _status_code(ent.get('status')), ent.get('payload'),
                    ent.get('start_clock') is not None and ent.get('end_clock') is not None,
                    world.expected_payload[d],
                    # what dependency d filed under THIS task's name, and what it should be
                    own.get(f'gift_{d}') if isinstance(own, dict) else 'junk',
                    world.gifts.get((d, self.idx)))
            ctl.note('obs', obs)
            if world.log_env:
                PROBE_LOGGER.info('task %s sees %s', self.name, env)
            kind, _, var = world.outcomes[self.idx].partition(':')
            var = int(var or 0)
            if kind in ('done', 'intstatus', 'failupd', 'nested', 'poison'):
                world.expected_payload[self.idx] = k     # this execution's update carries payload k
            upd = {self.name: {'payload': k}}
            if kind == 'nested':
                # a task that schedules a small graph of its own, with the default backend
                inner = world.Inner(f'inner_of_{self.name}')
                world.Scheduler(hard_graph=world.DepGraph.from_dependency_dictionary({inner: []})).schedule()
                return upd, TaskStatus.DONE
            if kind == 'done' and var % 4 == 2:
                # part of the update goes into the entries of the tasks that depend on this one
                for dep_t in self.dependents:
                    ent = get(f't{dep_t}')
                    if isinstance(ent, dict) and 'status' in ent:
                        # (only into entries the master has already created: an entry without
                        # a status is outside what the model describes)
                        upd[f't{dep_t}'] = {f'gift_{self.idx}': k}
                        world.gifts[(self.idx, dep_t)] = k
            if kind == 'clash':
                # a well-formed update that Env.apply cannot merge (a mapping where the environment
                # holds a plain value, a list, an array...): publish() records the task as FAILED
                return {f'aux_{self.name}': {7: k, 'x': k}}, TaskStatus.DONE
            if kind == 'poison':
                # a well-formed update that files something the master cannot read as a status
                # under the name of a task that depends on this one
                for dep_t in self.dependents[:1]:
                    upd[f't{dep_t}'] = {'status': ['bogus', 'DONE', 77, None][var % 4]}
                return upd, TaskStatus.DONE
            if kind == 'done':
                if var % 4 == 1:
                    # a task that returns its whole (previous) entry, clocks included
                    upd[self.name].update(start_clock=0.0, end_clock=0.0,
                                          status=[TaskStatus.FAILED, TaskStatus.PENDING, TaskStatus.SKIPPED][var // 4 % 3])
                shape = (var // 4) % 6
                if shape == 2:
                    # a read-only mapping is a mapping (what PythonTask hands out as env)
                    upd = types.MappingProxyType(upd)
                elif shape == 3:
                    # values that cannot be copied or pickled (the harness drops them before it
                    # pickles the environment, as a user would have to)
                    upd[self.name]['handle'] = (_thread.allocate_lock() if var % 8 < 4
                                                else (x for x in [1]))
                elif shape == 4:
                    upd = FrozenMap(upd)
                elif shape == 5:
                    upd[self.name]['deep'] = {'a': {'b': {'k': k}}, 'l': [k, {'k': k}]}
                    # keys of nested levels may be named like top-level entries (other tasks)
                    for other in range(len(world.outcomes)):
                        upd[self.name][f't{other}'] = {f't{(other + 1) % len(world.outcomes)}': {'k': k}}
                return upd, TaskStatus.DONE
            if kind == 'intstatus':
                return upd, 3
            if kind == 'failupd':
                if var % 3 == 1:
                    upd[self.name]['status'] = TaskStatus.DONE      # a stale status inside the update
                return upd, TaskStatus.FAILED
            if kind == 'failnone':
                return None, TaskStatus.FAILED
            if kind == 'donenone':
                return None, TaskStatus.DONE
            if kind == 'raise':
                if var % 6 == 4:
                    raise BadStr()
                if var % 6 == 5:
                    sys.exit(3)
                raise [RuntimeError, KeyError, ValueError, OSError][var % 4]('probe task fails')
            if kind == 'none':
                return None
            if kind == 'notpair':
                return [(upd, TaskStatus.DONE, 'extra'), (upd,), 5, 'ab', (), [upd],
                        {'a': 1, 'b': 2}][var % 7]
            if kind == 'badstatus':
                return upd, ['bogus', 0, None, 99, 'DONE', -1, (3,)][var % 7]
            if kind == 'badupdate':
                return [[1, 2, 3], [], (), '', 0, False, set(), 'abc', 5, {self.name: 5},
                        {self.name: 'text'}, {self.name: None}][var % 12], TaskStatus.DONE
            if kind == 'roown':
                # the task's own entry as a read-only mapping (cannot hold the clocks): whether this
                # counts as malformed (FAILED) or is accepted (DONE) is the implementation's choice;
                # the worker must survive it (C03 only, not replayed on the model)
                return {self.name: [types.MappingProxyType({'payload': k}),
                                    FrozenMap({'payload': k})][var % 2]}, TaskStatus.DONE
            if kind == 'waitstatus':
                return upd, [TaskStatus.WAITING, TaskStatus.PENDING, TaskStatus.SKIPPED, True][var % 4]
            raise AssertionError(kind)
        self.Probe = Probe

        def make_pyprobe(idx, deps_idx):
            '''the same probe as a PythonTask: the function gets the environment as a keyword
            argument (a read-only view built by PythonTask.do at every execution)'''
            from valjean.cosette.pythontask import PythonTask
            holder = {}

            def func(env=None, config=None):
                return probe_do(holder['task'], env, config, env.get)
            task = PythonTask(f't{idx}', func, env_kwarg='env', config_kwarg='config')
            task.idx, task.deps_idx, task.dependents = idx, deps_idx, []
            holder['task'] = task
            return task
        self.make_pyprobe = make_pyprobe

        class Inner(Task):
            def do(self, env, config):
                return {self.name: {'inner': True}}, TaskStatus.DONE
        self.Inner = Inner


class FrozenMap(collections.abc.Mapping):
    '''a mapping that is neither a dict nor mutable'''

    def __init__(self, dct):
        self._d = dict(dct)

    def __getitem__(self, key):
        return self._d[key]

    def __iter__(self):
        return iter(self._d)

    def __len__(self):
        return len(self._d)

    def __repr__(self):
        return f'FrozenMap({self._d!r})'


class BadStr(Exception):
    '''an exception that cannot be printed'''

    def __str__(self):
        raise TypeError('cannot print this exception')

    __repr__ = __str__


def _status_code(status):
    try:
        code = int(status)
    except (TypeError, ValueError):
        return 'JUNK'
    return STATUS_NAMES.get(code, 'JUNK') if not isinstance(status, bool) else 'JUNK'


def _clock(x):
    '''a recorded clock as an integer (clocks of another type are kept comparable if possible)'''
    if x is None:
        return None
    try:
        return int(x)
    except (TypeError, ValueError):
        try:
            return int(x.timestamp() * 1e6)
        except Exception:  # noqa
            return -1


def snapshot_env(env, n):
    out = []
    for t in range(n):
        ent = env.dictionary.get(f't{t}')
        if ent is None:
            out.append(None)
            continue
        st = ent.get('status', 'absent')
        pay = ent.get('payload')
        sc, ec = ent.get('start_clock'), ent.get('end_clock')
        out.append([None if st == 'absent' else _status_code(st),
                    pay if isinstance(pay, int) else None,
                    _clock(sc), _clock(ec)])
    return out


def make_choose(strategy, rng):
    if strategy == 'uniform':
        return lambda step, runnable: rng.choice(runnable)
    if strategy == 'pct':
        prio = {}
        changes = sorted(rng.randrange(1, 120) for _ in range(2))

        def choose(step, runnable):
            for tid in runnable:
                if tid not in prio:
                    prio[tid] = rng.random()
            if changes and step >= changes[0]:
                changes.pop(0)
                best = max(runnable, key=lambda t: prio[t])
                prio[best] = -rng.random()
            return max(runnable, key=lambda t: prio[t])
        return choose
    if strategy == 'master_last':
        return lambda step, runnable: (rng.choice([t for t in runnable if t != 0] or runnable)
                                       if rng.random() < 0.9 else rng.choice(runnable))
    if strategy == 'master_first':
        return lambda step, runnable: (0 if 0 in runnable and rng.random() < 0.9
                                       else rng.choice(runnable))
    raise ValueError(strategy)


def make_script_choose(devs):
    '''default schedule = keep running the thread that ran last while it is enabled, else the
    enabled thread with the smallest id; `devs` {step: tid} are the deviations from it'''
    state = {'last': None}

    def choose(step, runnable):
        tid = devs.get(step)
        if tid is None or tid not in runnable:
            tid = state['last'] if state['last'] in runnable else runnable[0]
        state['last'] = tid
        return tid
    return choose


def explore(world, case, oracles, fake_ctx_cls, focus):
    '''Bounded-exhaustive exploration: ALL schedules of a single-run case that deviate from the
    default schedule at most k times.  Oracles are evaluated here; only counts, the failures
    and a sample of full runs go back to the parent.'''
    k = case['explore']['k']
    budget = case['explore'].get('budget', 100000)
    todo = [{}]
    nruns = 0
    failures = []
    sample = []
    maxlen = 0
    complete = True
    while todo:
        if nruns >= budget:
            complete = False
            break
        devs = todo.pop()
        c = copy.deepcopy(case)
        c['runs'][0]['strategy'] = 'script'
        c['runs'][0]['script'] = {str(a): b for a, b in devs.items()}
        res = run_history(world, c)
        nruns += 1
        run = res[0]
        trace = run['trace']
        maxlen = max(maxlen, len(trace))
        ctx = fake_ctx_cls()
        oracles[focus](ctx, c, run)
        for what, rcase, key in ctx.failures[:2]:
            if len(failures) < 5:
                failures.append([what, rcase, key])
        if nruns <= 2 or (nruns % 997 == 0 and len(sample) < 6):
            sample.append(res)
        if len(devs) < k:
            last = max(devs) if devs else -1
            for i in range(last + 1, len(trace)):
                chosen, enabled = trace[i][0], trace[i][5]
                for alt in enabled:
                    if alt != chosen:
                        nd = dict(devs)
                        nd[i] = alt
                        todo.append(nd)
    return {'ok': True, 'explored': nruns, 'complete': complete, 'k': k, 'max_events': maxlen,
            'failures': failures, 'sample_runs': sample}


PROBE_LOGGER = logging.getLogger('valjean.probe')


def carry_through_files(world, env, n, lost, irun):
    '''the documented way, for real: every task entry gets an output directory (as RunTask results
    have), valjean.cambronne.common.write_env writes one file per task, the files of the `lost`
    tasks disappear, read_env builds the environment of the next run.  Returns the new
    environment and what is wrong with it (a DONE entry with an intact file that did not come back)'''
    from valjean.cambronne import common as cam
    root = os.path.join(world.scratch, f'carry-{os.getpid()}')
    names = [f't{t}' for t in range(n)]
    for name in names:
        ent = env.dictionary.get(name)
        if isinstance(ent, dict):
            os.makedirs(os.path.join(root, name), exist_ok=True)
            ent['output_dir'] = os.path.join(root, name)
    before = snapshot_env(env, n)
    cam.write_env(env, filename='env.pickle', fmt='pickle')
    for t in lost:
        try:
            os.unlink(os.path.join(root, f't{t}', 'env.pickle'))
        except OSError:
            pass
    new_env = cam.read_env(root=root, names=names, filename='env.pickle', fmt='pickle')
    after = snapshot_env(new_env, n)
    errs = []
    for t in range(n):
        want = before[t] if before[t] is not None and before[t][0] == 'DONE' and t not in lost else None
        if after[t] != want:
            errs.append(f'run {irun + 1} starts from the files written after run {irun}: the entry of t{t} read back '
                        f'is {after[t]}, expected {want} (files lost: {sorted(lost)})')
    return new_env, errs


@contextlib.contextmanager
def special_process_state(case):
    '''process-wide settings a caller may have: warnings turned into errors, logging at DEBUG level
    with a handler that formats every record'''
    stack = contextlib.ExitStack()
    with stack:
        if case.get('warn_error'):
            stack.enter_context(warnings.catch_warnings())
            warnings.simplefilter('error')
        if case.get('log_env'):
            logger = logging.getLogger('valjean')
            handler = logging.StreamHandler(io.StringIO())
            handler.setFormatter(logging.Formatter('%(asctime)s %(threadName)s %(name)s %(message)s'))
            old_level, old_disable = logger.level, logging.root.manager.disable
            logger.addHandler(handler)
            logger.setLevel(1)
            logging.disable(logging.NOTSET)

            def undo():
                logger.removeHandler(handler)
                logger.setLevel(old_level)
                logging.disable(old_disable)
            stack.callback(undo)
        yield


def run_history(world, case):
    '''case: n, hard, soft, workers, init (list of entries or None), clock0,
    runs: [{outcomes, lost, strategy, seed}]'''
    n = case['n']
    hard, soft = case['hard'], case['soft']
    full, sem_hard = semantic_deps(case)
    world.names = {f't{t}': t for t in range(n)}
    world.exec_count = list(case.get('started0') or [0] * n)
    # the payload the environment should hold for each task (None: no update seen / entry not carried over)
    world.expected_payload = [e[1] if e is not None else None for e in (case.get('init') or [None] * n)]
    world.expected_payload += [None] * (n - len(world.expected_payload))
    Env = world.env_mod.Env
    TaskStatus = world.TaskStatus
    pytasks = set(case.get('pytasks') or [])
    tasks = [world.make_pyprobe(t, full[t]) if t in pytasks else world.Probe(t, full[t]) for t in range(n)]
    world.log_env = bool(case.get('log_env'))
    world.gifts = {}
    world.falsy = set(case.get('falsy') or [])
    for t in range(n):
        for d in full[t]:
            if d != t:
                tasks[d].dependents.append(t)
    stages = case.get('stages') or []
    if not stages:
        hard_g = world.DepGraph.from_dependency_dictionary(
            {tasks[t]: [tasks[d] for d in hard[t]] for t in range(n)})
        soft_g = world.DepGraph.from_dependency_dictionary(
            {tasks[t]: [tasks[d] for d in soft[t]] for t in range(n)})
    else:
        member = {m for ms in stages for m in ms}
        stage_graphs = [world.DepGraph.from_dependency_dictionary(
            {tasks[m]: [tasks[d] for d in hard[m]] for m in ms}) for ms in stages]
        node = lambda i: tasks[i] if i < n else stage_graphs[i - n]   # noqa
        top = [i for i in range(n) if i not in member] + [n + k for k in range(len(stages))]
        def build(edges):
            g = world.DepGraph()
            for i in top:
                g.add_node(node(i))
            for i in top:
                for d in edges[i]:
                    g.add_dependency(node(i), on=node(d))
            return g
        hard_g, soft_g = build(hard), build(soft)
    # initial environment of the first run
    env = Env()
    for t, ent in enumerate(case.get('init') or []):
        if ent is None:
            continue
        st, pay, sc, ec = ent
        dct = {}
        if st == 'JUNK':
            # what is left of a status after a round trip through a text format
            dct['status'] = ['DONE', 'bogus', 'TaskStatus.DONE', 77][t % 4]
        elif st is not None:
            dct['status'] = getattr(TaskStatus, st)
        if pay is not None:
            dct['payload'] = pay
        if sc is not None:
            dct['start_clock'] = float(sc)
        if ec is not None:
            dct['end_clock'] = float(ec)
        env[f't{t}'] = dct
    clock = case.get('clock0', 0)
    results = []
    reuse_box = {}
    base_cyclic = is_cyclic(n, full) if not stages else False
    carry_errors = []
    for irun, run in enumerate(case['runs']):
        cyclic = base_cyclic
        world.outcomes = run['outcomes']
        world.run_execs = [0] * n
        world.gifts = {}        # what a dependency executed in THIS run files under its dependents' names
        rng = random.Random(run['seed'])
        if run['strategy'] == 'script':
            choose = make_script_choose({int(a): b for a, b in run.get('script', {}).items()})
        else:
            choose = make_choose(run['strategy'], rng)
        for t in range(n):
            ckind, _, cvar = run['outcomes'][t].partition(':')
            if ckind == 'clash':
                # what the mapping of the update meets: the merge raises TypeError, IndexError, ...
                env.dictionary[f'aux_t{t}'] = [3, [1, 2], np.zeros(3), 'text', None, (1, 2)][int(cvar or 0) % 6]
        if run.get('tz'):
            # the time zone of the process changes between runs (clocks are time.time() values)
            os.environ['TZ'] = run['tz']
            time.tzset()
        env0 = snapshot_env(env, n)
        started0 = list(world.exec_count)
        sched_box = {}
        run_hard_g, run_soft_g = hard_g, soft_g
        if run.get('hard') is not None and not stages:
            # this run schedules the same task objects with other edges (another Scheduler)
            rfull, _ = semantic_deps({'n': n, 'hard': run['hard'], 'soft': run['soft']})
            cyclic = is_cyclic(n, rfull)
            for t in range(n):
                tasks[t].deps_idx = rfull[t]
                tasks[t].dependents = [x for x in range(n) if t in rfull[x] and x != t]
            run_hard_g = world.DepGraph.from_dependency_dictionary(
                {tasks[t]: [tasks[d] for d in run['hard'][t]] for t in range(n)})
            run_soft_g = world.DepGraph.from_dependency_dictionary(
                {tasks[t]: [tasks[d] for d in run['soft'][t]] for t in range(n)})
        elif not stages:
            for t in range(n):
                tasks[t].deps_idx = full[t]
                tasks[t].dependents = [x for x in range(n) if t in full[x] and x != t]

        def body():
            if case.get('reuse') == 'backend' and reuse_box:
                # the same backend object serves another Scheduler (possibly another graph)
                backend = reuse_box['backend']
                sched = world.Scheduler(hard_graph=run_hard_g, soft_graph=run_soft_g, backend=backend)
            elif case.get('reuse') and reuse_box:
                # the same Scheduler object (and backend) schedules again
                backend, sched = reuse_box['backend'], reuse_box['sched']
            else:
                if case.get('default_backend'):
                    # no backend argument: the Scheduler creates its default one
                    sched = world.Scheduler(hard_graph=run_hard_g, soft_graph=run_soft_g)
                    backend = sched.backend
                else:
                    backend = world.queue_mod.QueueScheduling(n_workers=case['workers'])
                    sched = world.Scheduler(hard_graph=run_hard_g, soft_graph=run_soft_g, backend=backend)
                reuse_box['backend'], reuse_box['sched'] = backend, sched
            sched_box['backend'] = backend
            sched_box['order'] = [world.names[t.name] for t in sched.full_graph.topological_sort()] \
                if not cyclic else None
            # the graphs the scheduler prepared (flattened): what the model is configured with
            try:
                sched_box['impl_deps'] = [sorted(world.names[d.name] for d in sched.full_graph.dependencies(tasks[t]))
                                          for t in range(n)]
                sched_box['impl_hdeps'] = [sorted(world.names[d.name] for d in sched.hard_graph.dependencies(tasks[t]))
                                           for t in range(n)]
            except Exception as exc:  # noqa
                sched_box['impl_deps'] = sched_box['impl_hdeps'] = None
                sched_box['prep_error'] = repr(exc)
            return sched.schedule(env=env)
        harness = world.harness
        # logical clock continues across runs
        out = None

        def run_ctl():
            return harness.run(body, choose, lambda: snapshot_env(env, n),
                               max_steps=4000 + 400 * n, wall_timeout=40.0)
        # set the starting clock
        orig_controller = world.detsched.Controller

        class ControllerAt(orig_controller):
            def __init__(self, *a, **k):
                super().__init__(*a, **k)
                self.clock = clock
                self.tie_mod = run.get('tie_mod', 0)
        world.detsched.Controller = ControllerAt
        try:
            with special_process_state(case):
                out = run_ctl()
        finally:
            world.detsched.Controller = orig_controller
        trace = out['trace']
        clock = max([clock] + [x for ev in trace for x in ev['times']])
        backend = sched_box.get('backend')
        queue = getattr(backend, 'queue', None)
        res = {
            'irun': irun,
            'env0': env0, 'started0': started0, 'clock0': case.get('clock0', 0) if irun == 0 else None,
            'order': sched_box.get('order'),
            'impl_deps': sched_box.get('impl_deps'), 'impl_hdeps': sched_box.get('impl_hdeps'),
            'prep_error': sched_box.get('prep_error'),
            'cyclic': cyclic,
            'trace': [[ev['tid'], ev['op'], ev['arg'], ev['times'], ev['env'], ev['enabled'],
                       ev.get('obs')] for ev in trace],
            'result': ('deadlock' if out['deadlock'] else
                       'raised:' + out['exception'] if out['exception'] else 'returned'),
            'deadlock': out['deadlock'],
            'errors': out['errors'],
            'leaked': out['leaked'],
            'queue_left': None if queue is None else [len(getattr(queue, 'items', [])),
                                                      getattr(queue, 'unfinished', 0)],
            'env_after': snapshot_env(env, n),
            'execs': list(world.run_execs),
            'outcomes': run['outcomes'],
        }
        res['carry_errors'] = carry_errors
        carry_errors = []
        res['clock_start'] = res['clock0'] if irun == 0 else results[-1]['clock_end']
        res['clock_end'] = clock
        results.append(res)
        if out['deadlock'] or out['leaked'] or (out['exception'] and not cyclic):
            break
        # carry the environment over the documented way: only DONE entries are merged
        if irun + 1 < len(case['runs']):
            for ent in env.dictionary.values():
                if isinstance(ent, dict):
                    ent.pop('handle', None)
            for key in [k for k in env.dictionary if k.startswith('aux_')]:
                del env.dictionary[key]
            persisted = pickle.loads(pickle.dumps(env))
            for t in case['runs'][irun + 1].get('lost', []):
                persisted.dictionary.pop(f't{t}', None)
            if case['runs'][irun + 1].get('carry') == 'unpickled':
                env = persisted      # the unpickled environment itself, stale statuses included
            elif case.get('carry_files'):
                env, errs = carry_through_files(world, env, n, case['runs'][irun + 1].get('lost', []), irun)
                carry_errors = errs
            else:
                env = Env()
                env.merge_done_tasks(persisted)
            for t in range(n):
                if f't{t}' not in env.dictionary:
                    world.expected_payload[t] = None
    return results


def main(argv):
    cases = json.load(open(argv[1]))
    world = World()
    world.scratch = os.path.dirname(os.path.abspath(argv[2]))
    with open(argv[2], 'w') as out:
        for case in cases:
            try:
                if case.get('explore'):
                    from vp import schedcheck
                    res = explore(world, case, schedcheck.ORACLES, schedcheck.FakeCtx, case['explore']['focus'])
                    out.write(json.dumps(res) + '\n')
                    out.flush()
                    continue
                res = run_history(world, copy.deepcopy(case))
                out.write(json.dumps({'ok': True, 'runs': res}) + '\n')
            except BaseException as exc:  # noqa
                import traceback
                out.write(json.dumps({'ok': False, 'error': repr(exc),
                                      'tb': traceback.format_exc()[-1500:]}) + '\n')
            out.flush()
    return 0


if __name__ == '__main__':
    import logging
    logging.disable(logging.CRITICAL)
    import threading
    threading.excepthook = lambda args: None
    sys.exit(main(sys.argv))

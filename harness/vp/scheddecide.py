'''Exhaustive / sampled correspondence of the master's decision function
(QueueScheduling.decide_new_state) with the model's `decide`, over status and
clock-order abstractions of a task with up to 2 dependencies.  Shared by C02,
C04 (the decision is what those properties hinge on).'''
import itertools

from vp import common
from vp.common import cn, clist, copt

IMPORTS = '''From Coq Require Import List.
From VV Require Import Lib.Base Sched.Model Sched.Replay.
Import ListNotations.
Definition decision_code (d : decision) : nat :=
  match d with RWaiting => 0 | RPending => 1 | RSkipped => 2 | RNone => 3 end.
Definition check_decide (x : list (list nat) * list (list nat) * list entry * nat * list entry) : bool :=
  let '(dps, hds, e0, want, e1) := x in
  let c := mkCfg (length e0) (list_fun [] dps) (list_fun [] hds) None 1 (fun _ => mkO false false) in
  let '(d, e) := decide c (list_fun no_entry e0) 0 in
  Nat.eqb (decision_code d) want && env_eqb (length e0) e e1.
'''

STATI = [None, 'WAITING', 'PENDING', 'DONE', 'FAILED', 'SKIPPED']


def entry(st, sc, ec):
    return None if st is None else [st, None, sc, ec]


def coq_entry(e):
    if e is None:
        return 'no_entry'
    st, pay, sc, ec = e
    return f'(mkE {copt(st)} {copt(pay, cn)} {copt(sc, cn)} {copt(ec, cn)})'


def gen(rng, nsample):
    cases = []
    # task alone
    for st, sc in itertools.product(STATI, [None, 3]):
        cases.append(([entry(st, sc, 4 if sc else None)], [], []))
    # one dependency: exhaustive
    for st, sc, dst, dec, hard in itertools.product(STATI, [None, 3], STATI, [None, 2, 3, 4], [0, 1]):
        cases.append(([entry(st, sc, 5 if sc else None), entry(dst, 1 if dec else None, dec)],
                      [1], [1] if hard else []))
    # two dependencies: sampled
    space = list(itertools.product(STATI, [None, 3], STATI, [None, 2, 4], [0, 1], STATI, [None, 2, 4], [0, 1]))
    for st, sc, d1, e1, h1, d2, e2, h2 in rng.sample(space, min(nsample, len(space))):
        cases.append(([entry(st, sc, 5 if sc else None), entry(d1, 1 if e1 else None, e1),
                       entry(d2, 1 if e2 else None, e2)], [1, 2], [1] * h1 + [2] * h2))
    return cases


def run(ctx, nsample):
    from valjean.cosette.backends.queue import QueueScheduling
    from valjean.cosette.env import Env
    from valjean.cosette.task import TaskStatus
    fn = getattr(QueueScheduling, 'decide_new_state', None)
    if fn is None:
        ctx.notes.append('decide_new_state not found: decision correspondence skipped '
                         '(trace replay still covers the decisions)')
        return
    from vp.schedrun import snapshot_env

    class T:
        def __init__(self, i):
            self.name = f't{i}'

        def __str__(self):
            return self.name
    codes = {TaskStatus.WAITING: 0, TaskStatus.PENDING: 1, TaskStatus.SKIPPED: 2, None: 3}
    items = []
    keep = []
    for ents, deps, hdeps in gen(ctx.rng, nsample):
        n = len(ents)
        tasks = [T(i) for i in range(n)]
        env = Env()
        for i, e in enumerate(ents):
            if e is None:
                continue
            dct = {'status': getattr(TaskStatus, e[0])}
            if e[2] is not None:
                dct['start_clock'] = float(e[2])
            if e[3] is not None:
                dct['end_clock'] = float(e[3])
            env[f't{i}'] = dct
        try:
            res = fn(tasks[0], [tasks[d] for d in deps], [tasks[d] for d in hdeps], env)
            code = codes.get(res, 9)
        except Exception as exc:  # noqa
            code = 8
            ctx.count('decide_raises_' + type(exc).__name__)
        after = snapshot_env(env, n)
        items.append('(' + clist([clist([cn(d) for d in deps])] + ['[]'] * (n - 1)) + ', '
                     + clist([clist([cn(d) for d in hdeps])] + ['[]'] * (n - 1)) + ', '
                     + clist([coq_entry(e) for e in ents]) + ', ' + cn(code) + ', '
                     + clist([coq_entry(e) for e in after]) + ')')
        keep.append({'entries': ents, 'deps': deps, 'hard': hdeps, 'decision': code, 'after': after})
    ctx.count('decide_cases', len(items))
    per = 400
    shards = ['Definition cases := ' + clist(items[k:k + per]).replace('); (', ');\n (')
              + '.\nEval vm_compute in bad_indices (map check_decide cases).'
              for k in range(0, len(items), per)]
    outs = common.coq_eval(ctx.pid, IMPORTS, shards)
    for k, out in enumerate(outs):
        for i in common.parse_nat_list(out):
            ctx.mismatch(f'decide_new_state differs from the model on {keep[k * per + i]}',
                         {'decide_case': keep[k * per + i]})
    ctx.extra['decide_cases_compared'] = len(items)
    ctx.extra['decide_space_exhaustive'] = (nsample >= 6 * 2 * 6 * 3 * 2 * 6 * 3 * 2)
    if ctx.extra['decide_space_exhaustive']:
        ctx.notes.append('decision function: the whole abstraction space for <= 2 dependencies was compared '
                         '(statuses x clock orders x hard/soft), ' + str(len(items)) + ' cases')

'''Shared driver of the scheduler checks C01-C04: generates histories of runs,
executes them on the real scheduler under the controlled scheduler (child
process, watchdog), evaluates the oracle of the requested property on every
real run, and replays every recorded trace on the Coq model (Sched/Replay.v).'''
import json
import os
import subprocess
import sys

from vp import common
from vp.common import cn, clist, copt
from vp.schedrun import OUTCOMES, OUTCOME_MODEL, spec_status, is_cyclic, semantic_deps

IMPORTS = '''From Coq Require Import List.
From VV Require Import Lib.Base Sched.Model Sched.Replay.
Import ListNotations.
'''

OPS = {'start': 'OpStart', 'boot': 'OpBoot', 'env': 'OpEnv', 'put': 'OpPut', 'get': 'OpGet',
       'task_done': 'OpTaskDone', 'q_join': 'OpQJoin', 'cv_acquire': 'OpCvAcquire',
       'cv_release': 'OpCvRelease', 'cv_wait': 'OpCvWait', 'cv_wake': 'OpCvWake',
       'cv_notify': 'OpCvNotify', 'join': 'OpJoin', 'task_start': 'OpTaskStart'}


# --------------------------------------------------------------------------
# generation

def gen_graph(rng, n, p_hard=0.35, p_soft=0.2):
    perm = list(range(n))
    rng.shuffle(perm)            # perm[i] may depend on perm[j] for j < i
    hard = [[] for _ in range(n)]
    soft = [[] for _ in range(n)]
    for i in range(n):
        for j in range(i):
            r = rng.random()
            if r < p_hard:
                hard[perm[i]].append(perm[j])
            elif r < p_hard + p_soft:
                soft[perm[i]].append(perm[j])
    return [sorted(x) for x in hard], [sorted(x) for x in soft]


def add_stages(rng, case):
    '''turn the plain graphs into graphs with 1-2 nested "stage" nodes (DepGraph objects used as
    nodes, possibly empty, shared by the hard and the soft graph)'''
    n = case['n']
    nst = rng.choice([1, 1, 2, 2, 3])
    stages = [[] for _ in range(nst)]
    p_empty = rng.choice([0.4, 0.4, 0.8])
    for k in range(nst):
        if rng.random() < p_empty:
            continue                      # an empty stage
        for t in range(n):
            if rng.random() < 0.3 and not any(t in ms for ms in stages):
                stages[k].append(t)
    member = {m for ms in stages for m in ms}
    top = [t for t in range(n) if t not in member] + [n + k for k in range(nst)]
    rng.shuffle(top)
    hard = [[] for _ in range(n + nst)]
    soft = [[] for _ in range(n + nst)]
    for i, a in enumerate(top):
        for b in top[:i]:
            r = rng.random()
            if r < 0.35:
                hard[a].append(b)
            elif r < 0.6:
                soft[a].append(b)
    for ms in stages:                      # inner edges: hard only
        order = list(ms)
        rng.shuffle(order)
        for i, a in enumerate(order):
            for b in order[:i]:
                if rng.random() < 0.4:
                    hard[a].append(b)
    case['hard'] = [sorted(x) for x in hard]
    case['soft'] = [sorted(x) for x in soft]
    case['stages'] = [sorted(ms) for ms in stages]


def gen_outcomes(rng, n, p_ok=0.65):
    return [('done:%d' % rng.randrange(48) if rng.random() < 0.8 else rng.choice(['intstatus', 'donenone'])) if rng.random() < p_ok
            else rng.choice(OUTCOMES[1:9] + ['clash']) + ':%d' % rng.randrange(840) for _ in range(n)]


def gen_case(rng, focus, big=False):
    n = rng.choice([1, 2, 3, 3, 4, 4, 5, 6] if not big else [5, 6, 7, 8, 9])
    hard, soft = gen_graph(rng, n)
    workers = rng.choice([1, 2, 2, 3])
    case = {'n': n, 'hard': hard, 'soft': soft, 'workers': workers}
    if focus != 'C03' and n >= 2 and rng.random() < 0.22:
        add_stages(rng, case)
    strategies = ['uniform', 'uniform', 'pct', 'pct', 'master_last', 'master_first']
    nruns = 1
    if focus == 'C04':
        nruns = rng.choice([2, 2, 3, 4])
    elif focus in ('C01', 'C02', 'C03') and rng.random() < 0.3:
        nruns = 2
    if focus == 'C03':
        r = rng.random()
        if r < 0.2 and n >= 2:
            # make the graph cyclic
            a, b = rng.sample(range(n), 2)
            kind = rng.choice([hard, soft])
            kind[a] = sorted(set(kind[a]) | {b})
            other = rng.choice([hard, soft])
            other[b] = sorted(set(other[b]) | {a})
            if rng.random() < 0.2:
                hard[a] = sorted(set(hard[a]) | {a})
        elif r < 0.5:
            # initial environment with stale entries of an earlier run
            junk_init = rng.random() < 0.15
            init = []
            clk = 0
            for t in range(n):
                if rng.random() < 0.35:
                    init.append(None)
                    continue
                st = rng.choice(['DONE', 'DONE', 'FAILED', 'SKIPPED', 'PENDING', 'WAITING'])
                if junk_init and rng.random() < 0.4:
                    # a status the master cannot interpret: schedule() may raise, it must not hang
                    st = 'JUNK'
                    case['no_model'] = case['may_raise'] = True
                clocks = rng.random() < 0.8
                a_ = rng.randint(1, 10)
                b_ = a_ + rng.randint(0, 3)
                clk = max(clk, b_)
                init.append([st, rng.randint(1, 3) if rng.random() < 0.8 else None,
                             a_ if clocks else None, b_ if clocks else None])
            case['init'] = init
            case['clock0'] = clk
            case['started0'] = [3] * n
    runs = []
    for i in range(nruns):
        run = {'outcomes': gen_outcomes(rng, n, 0.8 if focus == 'C04' else 0.65),
               'strategy': rng.choice(strategies), 'seed': rng.randrange(1 << 30)}
        if rng.random() < 0.35:
            run['tie_mod'] = rng.choice([2, 2, 3])
        if i > 0 and focus in ('C01', 'C03') and rng.random() < 0.4:
            run['carry'] = 'unpickled'
        if i > 0:
            run['lost'] = [t for t in range(n) if rng.random() < 0.3]
        runs.append(run)
    if focus == 'C02':
        for run in runs[1:]:
            run['lost'] = list(range(n))      # C02 speaks about runs from the empty environment
    case['runs'] = runs
    if focus == 'C03' and not case.get('stages') and rng.random() < 0.06:
        # default backend, and a task that runs a scheduler of its own (oracle only: not replayed on the model)
        case['default_backend'] = True
        case['no_model'] = True
        t = rng.randrange(n)
        for run in runs:
            run['outcomes'][t] = 'nested'
    if focus == 'C03' and not case.get('stages') and n >= 2 and rng.random() < 0.06:
        # a well-formed update that spoils the status of a dependent task: the master may raise
        # (oracle only), schedule() must still come back with all its workers gone
        case['no_model'] = case['may_raise'] = True
        for run in runs:
            run['outcomes'][rng.randrange(n)] = 'poison:%d' % rng.randrange(4)
    if focus == 'C03' and rng.random() < 0.05:
        case['no_model'] = True
        for run in runs:
            run['outcomes'][rng.randrange(n)] = 'roown:%d' % rng.randrange(2)
    r = rng.random()
    if r < 0.08:
        case['warn_error'] = True        # the caller's process turns warnings into errors
    elif r < 0.14:
        case['log_env'] = True           # logging at DEBUG level, tasks log the environment they get
        case['no_model'] = True          # (the master then reads statuses for its log messages: oracle only)
    if rng.random() < 0.15:
        case['pytasks'] = [t for t in range(n) if rng.random() < 0.6]    # PythonTask objects
    if nruns > 1 and rng.random() < 0.15:
        for run in runs[1:]:
            run['tz'] = rng.choice(['UTC+11', 'UTC-12', 'America/New_York', 'Asia/Tokyo', 'UTC'])
    if rng.random() < 0.12:
        case['falsy'] = [t for t in range(n) if rng.random() < 0.5]     # task objects that are falsy
    if nruns > 1 and focus == 'C04' and rng.random() < 0.35:
        # the documented way for real: write_env after a run, read_env before the next one
        case['carry_files'] = True
    elif nruns > 1 and rng.random() < 0.4:
        case['reuse'] = True      # the same Scheduler object schedules every run
    elif nruns > 1 and not case.get('stages') and focus != 'C04' and rng.random() < 0.4:
        # (not for C04: re-running is about the same job, edges do not change between runs)
        case['reuse'] = 'backend'  # the same backend object serves a new Scheduler with other edges
        for run in runs[1:]:
            run['hard'], run['soft'] = gen_graph(rng, n)
    return case


CORPUS = [
    # C01: the publication window (status before update) needs a dependent waiting for a dependency
    {'n': 3, 'hard': [[], [0], [1]], 'soft': [[], [], [0]], 'workers': 2,
     'runs': [{'outcomes': ['done', 'done', 'done'], 'strategy': 'pct', 'seed': 7}]},
    # C02/C03: malformed results
    {'n': 2, 'hard': [[], [0]], 'soft': [[], []], 'workers': 1,
     'runs': [{'outcomes': ['notpair', 'done'], 'strategy': 'uniform', 'seed': 3}]},
    {'n': 3, 'hard': [[], [], [1]], 'soft': [[], [0], []], 'workers': 2,
     'runs': [{'outcomes': ['badupdate', 'badstatus', 'done'], 'strategy': 'uniform', 'seed': 4}]},
    {'n': 2, 'hard': [[], []], 'soft': [[], [0]], 'workers': 2,
     'runs': [{'outcomes': ['waitstatus', 'done'], 'strategy': 'uniform', 'seed': 5}]},
    {'n': 2, 'hard': [[], [0]], 'soft': [[], []], 'workers': 1,
     'runs': [{'outcomes': ['badupdate:1', 'done'], 'strategy': 'uniform', 'seed': 21}]},
    {'n': 3, 'hard': [[], [0], [1]], 'soft': [[], [], []], 'workers': 2,
     'runs': [{'outcomes': ['badupdate:4', 'badstatus:1', 'notpair:6'], 'strategy': 'uniform', 'seed': 22}]},
    # C01: an empty stage with its incoming edge in the soft graph and its outgoing edge in the hard graph
    {'n': 2, 'hard': [[], [], [0]], 'soft': [[], [2], []], 'stages': [[]], 'workers': 2,
     'runs': [{'outcomes': ['done', 'done'], 'strategy': 'master_first', 'seed': 32}]},
    {'n': 4, 'hard': [[], [], [4], [], [1]], 'soft': [[], [], [], [4], [0]], 'stages': [[]], 'workers': 3,
     'runs': [{'outcomes': ['done', 'raise', 'done', 'done'], 'strategy': 'pct', 'seed': 33}]},
    {'n': 4, 'hard': [[], [0], [5], [], [], [4]], 'soft': [[], [], [], [5], [], []], 'stages': [[0, 1], []], 'workers': 2,
     'runs': [{'outcomes': ['done', 'done', 'done', 'done'], 'strategy': 'uniform', 'seed': 34}]},
    # C02: well-formed updates of unusual shapes (read-only mapping, a mapping class that is not a dict,
    # values that cannot be copied, deep nesting); read-only own entry = malformed; falsy task objects
    {'n': 3, 'hard': [[], [0], [1]], 'soft': [[], [], []], 'workers': 2,
     'runs': [{'outcomes': ['done:8', 'done:16', 'done:20'], 'strategy': 'uniform', 'seed': 41}]},
    {'n': 3, 'hard': [[], [0], [1]], 'soft': [[], [], []], 'workers': 2,
     'runs': [{'outcomes': ['done:12', 'done:28', 'done:9'], 'strategy': 'uniform', 'seed': 42},
              {'outcomes': ['done:12', 'done:28', 'done:9'], 'lost': [1], 'strategy': 'uniform', 'seed': 43}]},
    {'n': 3, 'hard': [[], [0], []], 'soft': [[], [], [0]], 'workers': 2, 'no_model': True, 'only': ['C03'],
     'runs': [{'outcomes': ['roown:0', 'done', 'done'], 'strategy': 'uniform', 'seed': 44}]},
    {'n': 2, 'hard': [[], []], 'soft': [[], [0]], 'workers': 1, 'no_model': True, 'only': ['C03'],
     'runs': [{'outcomes': ['roown:1', 'done'], 'strategy': 'uniform', 'seed': 45}]},
    {'n': 1, 'hard': [[]], 'soft': [[]], 'workers': 1, 'no_model': True, 'only': ['C03'],
     'runs': [{'outcomes': ['roown:0'], 'strategy': 'uniform', 'seed': 50}]},
    {'n': 3, 'hard': [[], [0], [0]], 'soft': [[], [], []], 'workers': 3, 'falsy': [0, 2],
     'runs': [{'outcomes': ['done', 'done', 'done'], 'strategy': 'uniform', 'seed': 46}]},
    # C02/C03: an update that cannot be merged (FAILED, dependents skipped, nobody waits for ever)
    {'n': 3, 'hard': [[], [0], []], 'soft': [[], [], [0]], 'workers': 2,
     'runs': [{'outcomes': ['clash', 'done', 'done:20'], 'strategy': 'uniform', 'seed': 51}]},
    # C01: PythonTask objects scheduled again on another environment read the new one
    {'n': 3, 'hard': [[], [0], [1]], 'soft': [[], [], []], 'workers': 2, 'pytasks': [0, 1, 2],
     'runs': [{'outcomes': ['done', 'done', 'done'], 'strategy': 'uniform', 'seed': 52},
              {'outcomes': ['done', 'done', 'done'], 'lost': [0], 'strategy': 'uniform', 'seed': 53}]},
    # C02: process-wide settings of the caller (warnings as errors; DEBUG logging, tasks log their environment)
    {'n': 3, 'hard': [[], [0], [1]], 'soft': [[], [], []], 'workers': 2, 'warn_error': True,
     'runs': [{'outcomes': ['donenone', 'done', 'failnone'], 'strategy': 'uniform', 'seed': 54}]},
    {'n': 3, 'hard': [[], [0], []], 'soft': [[], [], [0]], 'workers': 2, 'log_env': True, 'no_model': True,
     'runs': [{'outcomes': ['done', 'raise', 'done'], 'strategy': 'pct', 'seed': 55}]},
    # C04: a failing soft dependency listed before a re-executed DONE dependency, both final before the
    # master looks at the dependent (which was DONE)
    {'n': 3, 'hard': [[], [], [1]], 'soft': [[], [], [0]], 'workers': 2,
     'runs': [{'outcomes': ['done', 'done', 'done'], 'strategy': 'uniform', 'seed': 59},
              {'outcomes': ['raise', 'done', 'done'], 'lost': [0, 1], 'strategy': 'master_last', 'seed': 60}]},
    {'n': 4, 'hard': [[], [], [], [1, 2]], 'soft': [[], [], [], [0]], 'workers': 3,
     'runs': [{'outcomes': ['done', 'done', 'done', 'done'], 'strategy': 'uniform', 'seed': 61},
              {'outcomes': ['failnone', 'done', 'done', 'done'], 'lost': [0, 2], 'strategy': 'master_last', 'seed': 62},
              {'outcomes': ['done', 'raise', 'done', 'done'], 'lost': [0, 1, 2], 'strategy': 'master_last', 'seed': 63}]},
    # C04: the time zone of the process changes between two runs
    {'n': 3, 'hard': [[], [0], [1]], 'soft': [[], [], []], 'workers': 2,
     'runs': [{'outcomes': ['done', 'done', 'done'], 'strategy': 'uniform', 'seed': 56},
              {'outcomes': ['done', 'done', 'done'], 'lost': [0], 'tz': 'UTC+11', 'strategy': 'uniform', 'seed': 57},
              {'outcomes': ['done', 'done', 'done'], 'lost': [1], 'tz': 'UTC-12', 'strategy': 'uniform', 'seed': 58}]},
    # C03: the master cannot read a status (initial environment; update of another task): it may raise
    # (oracle only), but schedule() comes back and its workers are gone
    {'n': 3, 'hard': [[], [], [0]], 'soft': [[], [], []], 'workers': 2, 'no_model': True, 'may_raise': True, 'only': ['C03'],
     'clock0': 5, 'started0': [1, 1, 1], 'init': [None, None, ['JUNK', 1, 1, 2]],
     'runs': [{'outcomes': ['done', 'done', 'done'], 'strategy': 'master_first', 'seed': 47}]},
    {'n': 3, 'hard': [[], [0], []], 'soft': [[], [], []], 'workers': 2, 'no_model': True, 'may_raise': True, 'only': ['C03'],
     'runs': [{'outcomes': ['poison:0', 'done', 'done'], 'strategy': 'master_last', 'seed': 48}]},
    {'n': 4, 'hard': [[], [0], [], []], 'soft': [[], [], [], [2]], 'workers': 3, 'no_model': True, 'may_raise': True, 'only': ['C03'],
     'runs': [{'outcomes': ['poison:1', 'done', 'done', 'done'], 'strategy': 'uniform', 'seed': 49}]},
    # C01: two adjacent empty stages (equal as graphs, distinct as nodes) between a task and its dependency
    {'n': 2, 'hard': [[], [2], [3], [0]], 'soft': [[], [], [], []], 'stages': [[], []], 'workers': 2,
     'runs': [{'outcomes': ['done', 'done'], 'strategy': 'master_first', 'seed': 64}]},
    {'n': 3, 'hard': [[], [], [], [], []], 'soft': [[], [3], [4], [4], [0]], 'stages': [[], []], 'workers': 3,
     'runs': [{'outcomes': ['done', 'done', 'done'], 'strategy': 'pct', 'seed': 65}]},
    # C02/C03: updates whose merge raises something else than TypeError (a mapping over a list / an array)
    {'n': 3, 'hard': [[], [0], []], 'soft': [[], [], [0]], 'workers': 2,
     'runs': [{'outcomes': ['clash:1', 'done', 'done'], 'strategy': 'uniform', 'seed': 66}]},
    {'n': 2, 'hard': [[], []], 'soft': [[], [0]], 'workers': 1,
     'runs': [{'outcomes': ['clash:2', 'clash:3'], 'strategy': 'uniform', 'seed': 67}]},
    # C04: the environment goes through the files of write_env / read_env between runs; a lost file in the middle
    {'n': 4, 'hard': [[], [0], [], [2]], 'soft': [[], [], [], []], 'workers': 2, 'carry_files': True,
     'runs': [{'outcomes': ['done', 'done', 'done', 'done'], 'strategy': 'uniform', 'seed': 68},
              {'outcomes': ['done', 'done', 'done', 'done'], 'lost': [1], 'strategy': 'uniform', 'seed': 69},
              {'outcomes': ['done', 'raise', 'done', 'done'], 'lost': [0], 'strategy': 'uniform', 'seed': 70}]},
    # C01: a DONE task with two dependencies on a re-run: one lost (running again when the master looks at the
    # task), the other refreshed by an earlier sub-job and newer than the task
    {'n': 3, 'hard': [[], [], [0, 1]], 'soft': [[], [], []], 'workers': 2, 'only': ['C01'],
     'runs': [{'outcomes': ['done', 'done', 'done'], 'strategy': 'uniform', 'seed': 71},
              {'outcomes': ['done', 'done', 'done'], 'lost': [1], 'hard': [[], [], [0]], 'soft': [[], [], []],
               'strategy': 'uniform', 'seed': 72},
              {'outcomes': ['done', 'done', 'done'], 'lost': [0], 'hard': [[], [], [0, 1]], 'soft': [[], [], []],
               'strategy': 'master_first', 'seed': 73}]},
    {'n': 4, 'hard': [[], [], [0], [0, 1]], 'soft': [[], [], [], [2]], 'workers': 3, 'only': ['C01'],
     'runs': [{'outcomes': ['done', 'done', 'done', 'done'], 'strategy': 'uniform', 'seed': 74},
              {'outcomes': ['done', 'done', 'done', 'done'], 'lost': [1], 'hard': [[], [], [0], [0]], 'soft': [[], [], [], []],
               'strategy': 'uniform', 'seed': 75},
              {'outcomes': ['done', 'done', 'done', 'done'], 'lost': [0], 'hard': [[], [], [0], [0, 1]], 'soft': [[], [], [], [2]],
               'strategy': 'master_first', 'seed': 76}]},
    # C03: cyclic graph; stale statuses in the initial environment
    {'n': 2, 'hard': [[1], [0]], 'soft': [[], []], 'workers': 2,
     'runs': [{'outcomes': ['done', 'done'], 'strategy': 'uniform', 'seed': 6}]},
    {'n': 2, 'hard': [[], [0]], 'soft': [[], []], 'workers': 1, 'clock0': 9, 'started0': [1, 1],
     'init': [['FAILED', None, 1, 2], ['SKIPPED', None, None, None]],
     'runs': [{'outcomes': ['done', 'done'], 'strategy': 'uniform', 'seed': 8}]},
    # C02: one backend object shared by two Schedulers whose graphs give the same tasks other edges
    {'n': 3, 'hard': [[], [0], []], 'soft': [[], [], [0]], 'workers': 2, 'reuse': 'backend',
     'runs': [{'outcomes': ['raise', 'done', 'done'], 'strategy': 'uniform', 'seed': 35},
              {'outcomes': ['raise', 'done', 'done'], 'lost': [0, 1, 2], 'hard': [[], [], [0]], 'soft': [[], [0], []],
               'strategy': 'uniform', 'seed': 36}]},
    # C03: default backend and a task that runs a scheduler of its own (nested scheduling calls)
    {'n': 2, 'hard': [[], [0]], 'soft': [[], []], 'workers': 2, 'default_backend': True, 'no_model': True,
     'runs': [{'outcomes': ['nested', 'done'], 'strategy': 'uniform', 'seed': 37}]},
    # C03: the same scheduler object schedules twice
    {'n': 2, 'hard': [[], [0]], 'soft': [[], []], 'workers': 2, 'reuse': True,
     'runs': [{'outcomes': ['done', 'done'], 'strategy': 'uniform', 'seed': 19},
              {'outcomes': ['done', 'raise'], 'lost': [1], 'strategy': 'uniform', 'seed': 20}]},
    # C04: chain a <- b <- c, a's entry lost
    {'n': 3, 'hard': [[], [0], [1]], 'soft': [[], [], []], 'workers': 2,
     'runs': [{'outcomes': ['done', 'done', 'done'], 'strategy': 'uniform', 'seed': 9},
              {'outcomes': ['done', 'done', 'done'], 'lost': [0], 'strategy': 'master_first', 'seed': 10}]},
    # C04: hard dependency fails in the second run before its DONE dependent is looked at
    {'n': 3, 'hard': [[], [0], [1]], 'soft': [[], [], []], 'workers': 2,
     'runs': [{'outcomes': ['done', 'done', 'done'], 'strategy': 'uniform', 'seed': 11},
              {'outcomes': ['done', 'raise', 'done'], 'lost': [1], 'strategy': 'master_last', 'seed': 12}]},
    # C04: a hard dependency ends SKIPPED in the second run (its own hard dependency is lost and fails)
    # before the master first looks at the DONE dependent
    {'n': 3, 'hard': [[], [0], [1]], 'soft': [[], [], []], 'workers': 2,
     'runs': [{'outcomes': ['done', 'done', 'done'], 'strategy': 'uniform', 'seed': 23},
              {'outcomes': ['raise', 'done', 'done'], 'lost': [0], 'strategy': 'master_last', 'seed': 24}]},
    {'n': 4, 'hard': [[], [0], [1], [1]], 'soft': [[], [], [], [2]], 'workers': 3,
     'runs': [{'outcomes': ['done', 'done', 'done', 'done'], 'strategy': 'uniform', 'seed': 25},
              {'outcomes': ['failnone', 'done', 'done', 'done'], 'lost': [0], 'strategy': 'master_last', 'seed': 26}]},
    # C04: a re-executed task whose update carries (stale) clocks for its own entry
    {'n': 2, 'hard': [[], [0]], 'soft': [[], []], 'workers': 1,
     'runs': [{'outcomes': ['done:1', 'done:1'], 'strategy': 'uniform', 'seed': 27},
              {'outcomes': ['done:1', 'done:1'], 'lost': [0], 'strategy': 'uniform', 'seed': 28},
              {'outcomes': ['done:1', 'done:1'], 'lost': [], 'strategy': 'uniform', 'seed': 29}]},
    # C04: a task without update (None, DONE) re-executed because its dependency was re-executed
    {'n': 2, 'hard': [[], [0]], 'soft': [[], []], 'workers': 1,
     'runs': [{'outcomes': ['done', 'donenone'], 'strategy': 'uniform', 'seed': 38},
              {'outcomes': ['done', 'donenone'], 'lost': [0], 'strategy': 'uniform', 'seed': 39},
              {'outcomes': ['done', 'donenone'], 'lost': [], 'strategy': 'uniform', 'seed': 40}]},
    # C03: scheduling directly on an environment that went through pickle
    {'n': 2, 'hard': [[], [0]], 'soft': [[], []], 'workers': 2,
     'runs': [{'outcomes': ['done', 'raise'], 'strategy': 'uniform', 'seed': 30},
              {'outcomes': ['done', 'done'], 'lost': [], 'carry': 'unpickled', 'strategy': 'uniform', 'seed': 31}]},
    # C04: clock tie between the end of a dependency and the start of its dependent: nothing to re-run
    {'n': 2, 'hard': [[], [0]], 'soft': [[], []], 'workers': 1,
     'runs': [{'outcomes': ['done', 'done'], 'strategy': 'uniform', 'seed': 15, 'tie_mod': 3},
              {'outcomes': ['done', 'done'], 'lost': [], 'strategy': 'uniform', 'seed': 16}]},
    {'n': 3, 'hard': [[], [0], [0]], 'soft': [[], [], [1]], 'workers': 1,
     'runs': [{'outcomes': ['done', 'done', 'done'], 'strategy': 'uniform', 'seed': 17, 'tie_mod': 2},
              {'outcomes': ['done', 'done', 'done'], 'lost': [], 'strategy': 'pct', 'seed': 18}]},
    # C04: a soft dependency skipped in this run has no clock
    {'n': 4, 'hard': [[], [0], [], []], 'soft': [[], [], [], [1, 2]], 'workers': 2,
     'runs': [{'outcomes': ['done', 'done', 'done', 'done'], 'strategy': 'uniform', 'seed': 13},
              {'outcomes': ['raise', 'done', 'done', 'done'], 'lost': [0, 1, 2], 'strategy': 'master_last',
               'seed': 14}]},
]


def explore_cases(rng, focus, quick):
    '''small single-run configurations explored bounded-exhaustively (all schedules with at
    most k deviations from the default schedule)'''
    shapes = [
        {'n': 2, 'hard': [[], [0]], 'soft': [[], []], 'workers': 2},
        {'n': 3, 'hard': [[], [0], []], 'soft': [[], [], [1]], 'workers': 2},
        {'n': 3, 'hard': [[], [], [0, 1]], 'soft': [[], [], []], 'workers': 2},
        {'n': 3, 'hard': [[], [0], [1]], 'soft': [[], [], [0]], 'workers': 3},
        {'n': 4, 'hard': [[], [0], [0], [1]], 'soft': [[], [], [1], [2]], 'workers': 2},
    ]
    out = []
    picks = shapes[:2] if quick else shapes
    for sh in picks:
        for variant in range(1 if quick else 3):
            c = dict(sh)
            n = c['n']
            outcomes = ['done'] * n if variant == 0 else gen_outcomes(rng, n, 0.5)
            c['runs'] = [{'outcomes': outcomes, 'strategy': 'script', 'seed': 0}]
            if focus == 'C04' or (focus == 'C03' and variant == 2):
                # a carried environment: everything DONE with consistent clocks, one entry lost
                init, clk = [], 0
                for t in range(n):
                    init.append(['DONE', 1, clk + 1, clk + 2])
                    clk += 2
                lost = rng.randrange(n)
                init[lost] = None
                c['init'], c['clock0'], c['started0'] = init, clk, [1] * n
            c['explore'] = {'k': 1 if quick else 2, 'budget': 400 if quick else 12000, 'focus': focus}
            out.append(c)
    return out


# --------------------------------------------------------------------------
# running the implementation

def run_impl(ctx, cases, timeout):
    wd = ctx.wd()
    inp, outp = os.path.join(wd, 'cases.json'), os.path.join(wd, 'results.jsonl')
    json.dump(cases, open(inp, 'w'))
    if os.path.exists(outp):
        os.unlink(outp)
    env = dict(os.environ)
    env['PYTHONPATH'] = common.REPO + ':' + os.path.join(common.VERIF, 'harness')
    proc = subprocess.Popen([sys.executable, '-W', 'ignore', '-m', 'vp.schedrun', inp, outp],
                            env=env, stdout=subprocess.PIPE, stderr=subprocess.STDOUT, text=True)
    try:
        out, _ = proc.communicate(timeout=timeout)
        hung = False
    except subprocess.TimeoutExpired:
        proc.kill()
        out, _ = proc.communicate()
        hung = True
    results = []
    if os.path.exists(outp):
        for line in open(outp):
            try:
                results.append(json.loads(line))
            except ValueError:
                break
    return results, hung, proc.returncode, out


# --------------------------------------------------------------------------
# oracles (independent of the model)

FINAL = ('DONE', 'FAILED', 'SKIPPED')


def full_deps(case):
    return semantic_deps(case)[0]


def hard_deps(case):
    return semantic_deps(case)[1]


def oracle_c01(ctx, case, run):
    for ev in run['trace']:
        if ev[1] != 'task_start' or ev[6] is None:
            continue
        t = ev[2]
        for d, ob in ev[6].items():
            if ob is None or ob[0] not in FINAL:
                ctx.oracle_failure(f'task t{t} started while its dependency t{d} is '
                                   f'{None if ob is None else ob[0]} :: {brief(case)}',
                                   replay_case(case, run), key='start-before-dep-final')
            elif ob[0] == 'DONE' and len(ob) > 5 and ob[5] is not None and ob[4] != ob[5]:
                ctx.oracle_failure(f'task t{t} started but the part of the update of its DONE dependency t{d} '
                                   f'filed under t{t} is not readable (found {ob[4]}, expected {ob[5]}) '
                                   f':: {brief(case)}', replay_case(case, run), key='start-before-publication')
            elif ob[0] == 'DONE' and (ob[1] != ob[3] or not ob[2]):
                ctx.oracle_failure(f'task t{t} started while DONE dependency t{d} has not published '
                                   f'its update/clocks (payload {ob[1]}, expected {ob[3]}, clocks {ob[2]}) '
                                   f':: {brief(case)}', replay_case(case, run), key='start-before-publication')


def oracle_c02(ctx, case, run):
    if run['cyclic'] or any(e is not None for e in run['env0']) or case.get('may_raise'):
        return
    if not run['result'] == 'returned':
        ctx.oracle_failure(f'schedule() from an empty environment ended with {run["result"]} '
                           f':: {brief(case)}', replay_case(case, run), key='no-return')
        return
    want = spec_status(case['n'], hard_deps(case), run['outcomes'])
    got = [None if e is None else e[0] for e in run['env_after']]
    if got != want:
        ctx.oracle_failure(f'final statuses {got} differ from the schedule-independent specification '
                           f'{want} :: {brief(case)}', replay_case(case, run), key='status-map')
    for t, (st, k) in enumerate(zip(want, run['execs'])):
        if k != (0 if st == 'SKIPPED' else 1):
            ctx.oracle_failure(f'task t{t} ({st}) executed {k} times :: {brief(case)}',
                               replay_case(case, run), key='exec-count')


def oracle_c03(ctx, case, run):
    rc = replay_case(case, run)
    if run['deadlock']:
        ctx.oracle_failure(f'deadlock or hang: {run["deadlock"]} :: {brief(case)}', rc, key='deadlock')
        return
    if run['errors']:
        ctx.oracle_failure(f'worker thread died: {run["errors"][0][:3]} :: {brief(case)}', rc,
                           key='worker-died')
    if run['leaked']:
        ctx.oracle_failure(f'worker threads {run["leaked"]} still alive after schedule() '
                           f'{run["result"]} :: {brief(case)}', rc, key='leaked-threads')
    if run['result'].startswith('raised'):
        if not (run['cyclic'] and run['result'] == 'raised:DepGraphError') and not case.get('may_raise'):
            ctx.oracle_failure(f'schedule() {run["result"]} :: {brief(case)}', rc, key='unexpected-raise')
    if run['cyclic'] and run['result'] == 'returned':
        ctx.oracle_failure(f'cyclic graph accepted :: {brief(case)}', rc, key='cycle-accepted')
    if run['queue_left'] and run['queue_left'][0] != 0:
        ctx.oracle_failure(f'work queue not empty after schedule() :: {brief(case)}', rc, key='queue-left')


def oracle_c04(ctx, case, run):
    for what in run.get('carry_errors') or []:
        ctx.oracle_failure(f'{what} :: {brief(case)}', replay_case(case, run), key='carry-lost')
    if run['result'] != 'returned':
        return
    rc = replay_case(case, run)
    n = case['n']
    full, hard_d = full_deps(case), hard_deps(case)
    if case.get('stages'):
        # C04 speaks about the tasks a task DIRECTLY depends on.  A dependency on a nested graph is, by the
        # documented grafting rule, a dependency on its terminal nodes only (the others are reached through
        # them, possibly through a task that is not DONE): use the flattened graphs the scheduler prepared
        # (their ordering constraints are checked semantically by C01's oracle and by C16)
        if run.get('impl_deps') is None:
            return
        full, hard_d = run['impl_deps'], run['impl_hdeps']
    env = run['env_after']
    for t in range(n):
        e = env[t]
        if e is None or e[0] != 'DONE':
            continue
        for d in full[t]:
            ed = env[d]
            if ed is not None and ed[0] == 'DONE':
                if ed[3] is None or e[2] is None or not ed[3] <= e[2]:
                    ctx.oracle_failure(f't{t} is DONE but its DONE dependency t{d} finished at {ed[3]}, '
                                       f'after t{t} started at {e[2]} :: {brief(case)}', rc,
                                       key='stale-done')
            if ed is not None and ed[0] == 'DONE' and run['execs'][d] > 0 and run['execs'][t] == 0:
                # whatever the recorded clocks say: d ran during this run, t's last execution is older
                ctx.oracle_failure(f't{t} is DONE and was not executed in this run although its DONE '
                                   f'dependency t{d} was: t{d} finished after t{t} started '
                                   f':: {brief(case)}', rc, key='stale-done-by-history')
        for d in hard_d[t]:
            ed = env[d]
            if ed is not None and ed[0] in ('FAILED', 'SKIPPED'):
                ctx.oracle_failure(f't{t} is DONE but its hard dependency t{d} is {ed[0]} '
                                   f':: {brief(case)}', rc, key='done-with-failed-hard-dep')
    # no needless re-execution
    env0 = run['env0']

    def closure(t, acc):
        for d in full[t]:
            if d not in acc:
                acc.add(d)
                closure(d, acc)
        return acc
    for t in range(n):
        if env0[t] is None or env0[t][0] != 'DONE':
            continue
        trans = closure(t, set())
        if all(env0[d] is not None and env0[d][0] == 'DONE' for d in trans) \
                and all(run['execs'][d] == 0 for d in trans) \
                and consistent_sub(env0, full, hard_d, trans | {t}):
            if run['execs'][t] != 0 or env[t] != env0[t]:
                ctx.oracle_failure(f't{t} was DONE with all transitive dependencies DONE and not '
                                   f're-executed, yet it was executed {run["execs"][t]} times / its entry '
                                   f'changed {env0[t]} -> {env[t]} :: {brief(case)}', rc,
                                   key='needless-rerun')


def consistent_sub(env, full, hard, tasks):
    for t in tasks:
        for d in full[t]:
            if env[d][3] is None or env[t][2] is None or not env[d][3] <= env[t][2]:
                return False
    return True


class FakeCtx:
    '''collects oracle failures inside the child process (bounded-exhaustive exploration)'''

    def __init__(self):
        self.failures = []

    def oracle_failure(self, what, case, key=None):
        self.failures.append((what, case, key))


ORACLES = {'C01': oracle_c01, 'C02': oracle_c02, 'C03': oracle_c03, 'C04': oracle_c04}


def crun(case, run):
    '''the case as seen by run `run` (a run may schedule the same tasks with other edges)'''
    spec = case['runs'][run['irun']] if run.get('irun') is not None and run['irun'] < len(case['runs']) else {}
    if spec.get('hard') is not None and not case.get('stages'):
        return dict(case, hard=spec['hard'], soft=spec['soft'])
    return case


def brief(case):
    return json.dumps({k: case[k] for k in ('n', 'hard', 'soft', 'stages', 'workers', 'reuse') if k in case})


def replay_case(case, run):
    c = dict(case)
    c['failing_run'] = run['irun']
    c['schedule'] = [ev[0] for ev in run['trace']]
    return c


# --------------------------------------------------------------------------
# Coq encoding

def coq_entry(e):
    if e is None:
        return 'no_entry'
    st, pay, sc, ec = e
    return f'(mkE {copt(st)} {copt(pay, cn)} {copt(sc, cn)} {copt(ec, cn)})'


def coq_event(ev):
    tid, op, arg, times, env, enabled, _ = ev
    return (f'(mkEv {cn(tid)} {OPS.get(op, "OpBoot")} {copt(arg if isinstance(arg, int) else None, cn)} '
            f'{clist([cn(x) for x in times])} {clist([coq_entry(e) for e in env])} '
            f'{clist([cn(x) for x in enabled])})')


def coq_case(case, run):
    n = case['n']
    full = run.get('impl_deps') or full_deps(case)
    hard = run.get('impl_hdeps') or hard_deps(case)
    oc = []
    for kind in run['outcomes']:
        u, k = OUTCOME_MODEL.get(kind.partition(':')[0], (False, False))
        oc.append(f'(mkO {common.cb(u)} {common.cb(k)})')
    order = 'None' if run['cyclic'] or run['order'] is None \
        else '(Some ' + clist([cn(x) for x in run['order']]) + ')'
    result = 0 if run['result'] == 'returned' else 1 if run['result'].startswith('raised') else 2
    return ('(mkCase ' + cn(n) + ' ' + clist([clist([cn(d) for d in ds]) for ds in full]) + ' '
            + clist([clist([cn(d) for d in ds]) for ds in hard]) + ' ' + order + ' '
            + cn(case['workers']) + ' ' + clist(oc) + ' ' + clist([coq_entry(e) for e in run['env0']])
            + ' ' + clist([cn(x) for x in run['started0']]) + ' ' + cn(run['clock_start'] or 0) + '\n  '
            + clist([coq_event(ev) for ev in run['trace']]).replace('); (', ');\n   (') + ' ' + cn(result) + ')')


# --------------------------------------------------------------------------

def nontrivial(case, run):
    tids = [ev[0] for ev in run['trace']]
    alternations = sum(1 for a, b in zip(tids, tids[1:]) if a != b)
    started_with_dep = any(ev[1] == 'task_start' and ev[6] for ev in run['trace'])
    return alternations >= 4 and (started_with_dep or run['cyclic'])


def run(ctx, focus):
    ctx.rule = ('histories of 1-4 runs on random hard/soft task graphs (1-6 tasks quick, up to 9 thorough), '
                '1-3 workers, outcomes incl. 8 failure/malformed kinds, cyclic graphs and stale initial '
                'environments (C03), entry losses between runs (C04); each run under one controlled schedule '
                '(uniform / PCT / master-starving / master-first); non-trivial = >= 4 thread alternations and a '
                'task with dependencies started (or cyclic graph); distinct by (case, schedule)')
    quick = ctx.tier == 'quick'
    ncases = {'C01': 220, 'C02': 220, 'C03': 220, 'C04': 140}[focus] if quick else 4000
    cases = [dict(c) for c in CORPUS if focus in c.get('only', [focus])]
    for i in range(ncases):
        cases.append(gen_case(ctx.rng, focus, big=(not quick and i % 5 == 0)))
    ecases = explore_cases(ctx.rng, focus, quick)
    eres, ehung, ecode, eout = run_impl(ctx, ecases, timeout=100 if quick else 2400)
    explored = 0
    for ec, er in zip(ecases, eres):
        if not er.get('ok'):
            ctx.violations.append(('harness', 'exploration error: ' + str(er)[:600], ec))
            continue
        explored += er['explored']
        ctx.count('explored_schedules', er['explored'])
        for what, rcase, key in er['failures']:
            ctx.oracle_failure(what, rcase, key=key)
        ctx.notes.append(f"bounded-exhaustive: n={ec['n']} workers={ec['workers']} outcomes={ec['runs'][0]['outcomes']}"
                         f"{' carried env' if ec.get('init') else ''}: all {er['explored']} schedules with <= {er['k']} "
                         f"deviations from the default schedule ({'complete' if er['complete'] else 'budget reached'}, "
                         f"up to {er['max_events']} events)")
    if ehung or ecode != 0 or len(eres) != len(ecases):
        what = f'bounded-exhaustive exploration did not come back (hang={ehung}, exit={ecode}): {eout[-400:]}'
        if focus == 'C03':
            ctx.oracle_failure(what, ecases[len(eres)] if len(eres) < len(ecases) else None, key='hang')
        else:
            ctx.violations.append(('harness', what, None))
    ctx.extra['explored_schedules_bounded_exhaustive'] = explored
    results, hung, code, out = run_impl(ctx, cases, timeout=100 if quick else 1500)
    # a sample of the explored runs is replayed on the model as well
    for ec, er in zip(ecases, eres):
        for sres in er.get('sample_runs', []) if er.get('ok') else []:
            cases.append(ec)
            results.append({'ok': True, 'runs': sres})
    if hung or code != 0 or len(results) != len(cases):
        k = len(results)
        what = (f'the run of case {k} did not come back (hang={hung}, exit={code}): '
                f'{out[-500:]}')
        if focus == 'C03':
            ctx.oracle_failure(what + ' :: ' + brief(cases[k]) if k < len(cases) else what,
                               cases[k] if k < len(cases) else None, key='hang')
        else:
            ctx.violations.append(('harness', what, cases[k] if k < len(cases) else None))
    coq_items = []
    owners = []
    for case, res in zip(cases, results):
        if not res['ok']:
            ctx.violations.append(('harness', 'harness error: ' + res['error'] + res['tb'], case))
            continue
        nt = False
        for run_ in res['runs']:
            vcase = crun(case, run_)
            ORACLES[focus](ctx, vcase, run_)
            ctx.count('result_' + run_['result'])
            ctx.count('events', len(run_['trace']))
            if run_['cyclic']:
                ctx.count('cyclic_runs')
            if any(e is not None for e in run_['env0']):
                ctx.count('runs_with_initial_env')
            for kind in run_['outcomes']:
                ctx.count('outcome_' + kind.partition(':')[0])
            nt = nt or nontrivial(case, run_)
            if not case.get('stages') and not run_['cyclic'] and run_.get('impl_deps') is not None \
                    and (run_['impl_deps'] != full_deps(vcase) or run_['impl_hdeps'] != hard_deps(vcase)):
                ctx.mismatch(f'the graphs prepared by Scheduler.__init__ (full {run_["impl_deps"]}, hard '
                             f'{run_["impl_hdeps"]}) are not the generated ones :: {brief(case)}',
                             replay_case(case, run_))
            if run_.get('prep_error'):
                ctx.mismatch(f'cannot read the prepared graphs: {run_["prep_error"]}', replay_case(case, run_))
            if case.get('no_model'):
                ctx.count('oracle_only_runs')
                continue
            coq_items.append(coq_case(vcase, run_))
            owners.append((case, run_))
        sample = dict(case)
        sample['schedules'] = [[ev[0] for ev in r['trace']] for r in res['runs']]
        ctx.case_seen(sample, nt, sample_every=199)
        if len(ctx.samples) and ctx.samples[-1] is sample:
            sample['schedules'] = [s[:60] for s in sample['schedules']]
    ctx.traces_validated = len(coq_items)
    per = 25
    shards = []
    for k in range(0, len(coq_items), per):
        shards.append('Definition cases : list tcase :=\n [' + ';\n '.join(coq_items[k:k + per])
                      + '].\nEval vm_compute in bad_indices (map check_case cases).')
    outs = common.coq_eval(ctx.pid, IMPORTS, shards)
    for k, o in enumerate(outs):
        for i in common.parse_nat_list(o):
            case, run_ = owners[k * per + i]
            ctx.mismatch(f'the recorded trace of run {run_["irun"]} ({run_["result"]}, {len(run_["trace"])} '
                         f'events) is not a trace of the scheduler model :: {brief(case)}',
                         replay_case(case, run_))
    if ctx.corr_broken and not [v for v in ctx.violations if v[0] == 'oracle']:
        # the model no longer describes the code: search for a failing input with the oracle only
        extra = [gen_case(ctx.rng, focus, big=(i % 3 == 0)) for i in range(900)]
        res2, hung2, _, _ = run_impl(ctx, extra, timeout=90)
        for case, res in zip(extra, res2):
            if res['ok']:
                for run_ in res['runs']:
                    ORACLES[focus](ctx, crun(case, run_), run_)
        ctx.count('search_phase_cases', len(res2))
        ctx.notes.append(f'search phase after a correspondence break: {len(res2)} more histories run '
                         f'through the oracle only')
    if focus == 'C03':
        from vp import scheddriver
        scheddriver.run(ctx)
    if focus in ('C02', 'C04'):
        from vp import scheddecide
        scheddecide.run(ctx, 1200 if quick else 10 ** 7)      # thorough: the whole 2-dependency space
    ctx.assumptions = [
        'CPython threading/queue primitives behave as the shims in harness/vp/detsched.py (FIFO queue, '
        'join waits for unfinished == 0, notify_all wakes all waiters, re-entrant locks)',
        'pre-emption is explored at synchronisation operations only (one thread runs at a time)',
        'time.time() is replaced by a strictly increasing logical clock',
    ]


def replay(ctx, path, focus):
    data = json.load(open(path))
    case = data['case']
    case = {k: v for k, v in case.items() if k not in ('failing_run', 'schedule')}
    results, hung, code, out = run_impl(ctx, [case], timeout=120)
    print('hung' if hung else 'exit %s' % code)
    for res in results:
        if not res['ok']:
            print(res)
            continue
        for run_ in res['runs']:
            print(f'run {run_["irun"]}: {run_["result"]} leaked={run_["leaked"]} execs={run_["execs"]}')
            print('  env before:', run_['env0'])
            print('  env after :', run_['env_after'])
            for ev in run_['trace']:
                print('   ', ev[0], ev[1], ev[2], ev[3], 'obs=%s' % ev[6] if ev[6] else '')
            ORACLES[focus](ctx, case, run_)
            body = 'Eval vm_compute in diagnose ' + coq_case(case, run_) + '.'
            print('  model (index of first event that is not a model step, reason):',
                  common.coq_eval(ctx.pid, IMPORTS, [body])[0].strip())
    for v in ctx.violations:
        print('oracle:', v[1][:400])
    return 0

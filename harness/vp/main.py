'''Entry point:  python -m vp.main <id>|setup [--tier T] [--seed N] [--replay F]'''
import argparse
import importlib
import sys
import traceback

from . import common


def setup():
    '''Full .vo build of everything the checks rest on: Props/<id>.vo for every check
    registered in MANIFEST.json, the NonVacuity files, and every module that a driver's
    generated cases files import (found by scanning harness/ for "From VV Require Import");
    then the hygiene scan over the whole development.'''
    import json
    import os
    import re
    manifest = json.load(open(os.path.join(common.VERIF, 'MANIFEST.json')))
    targets = set()
    for chk in manifest.get('checks', []):
        pid = chk['property_id']
        if os.path.exists(os.path.join(common.COQ, 'Props', pid + '.v')):
            targets.add(f'Props/{pid}.vo')
    for root, _, names in os.walk(common.COQ):
        for name in names:
            if name == 'NonVacuity.v':
                targets.add(os.path.relpath(os.path.join(root, name), common.COQ)[:-2] + '.vo')
    for root, _, names in os.walk(os.path.join(common.VERIF, 'harness')):
        for name in names:
            if name.endswith('.py'):
                text = open(os.path.join(root, name)).read()
                for stmt in re.findall(r'From\s+VV\s+Require\s+(?:Import\s+|Export\s+)?'
                                       r'((?:[A-Za-z_][\w\']*(?:\.[A-Za-z_][\w\']*)*\s*)+)\.(?:\s|$|\\n)', text):
                    for mod in stmt.split():
                        tgt = mod.replace('.', '/') + '.vo'
                        if os.path.exists(os.path.join(common.COQ, tgt[:-1])):
                            targets.add(tgt)
    ok, out = common.coq_make(sorted(targets))
    if not ok:
        print(out[-6000:])
        print('setup: Coq build FAILED')
        return 1
    bad = common.hygiene_scan()
    if bad:
        print('\n'.join(bad))
        print('setup: hygiene scan FAILED')
        return 1
    print(f'setup: {len(targets)} Coq targets (and all they depend on) built with a full .vo build, '
          'hygiene scan clean')
    return 0


def reset_signals():
    '''A check may be started from a background job or under nohup, where SIGINT, SIGQUIT or
    SIGHUP are ignored; ignored signals are inherited by the commands the checks run (C19 runs
    commands that kill themselves with a signal).  Restore the default dispositions.'''
    import signal
    for sig in (signal.SIGINT, signal.SIGQUIT, signal.SIGHUP, signal.SIGTERM, signal.SIGPIPE,
                signal.SIGUSR1, signal.SIGUSR2, signal.SIGALRM):
        try:
            if signal.getsignal(sig) == signal.SIG_IGN:
                signal.signal(sig, signal.SIG_DFL)
        except (OSError, ValueError):
            pass


def main(argv=None):
    reset_signals()
    par = argparse.ArgumentParser()
    par.add_argument('pid')
    par.add_argument('targets', nargs='*')
    par.add_argument('--tier', default=None)
    par.add_argument('--seed', default=None)
    par.add_argument('--replay', default=None)
    args = par.parse_args(argv)
    if args.pid == 'setup':
        return setup()
    if args.pid == 'build':      # ./check build C14/Proofs.vo ...   (only these targets)
        ok, out = common.coq_make(args.targets)
        print(out[-6000:])
        return 0 if ok else 1
    pid = args.pid.upper()
    mod = importlib.import_module(pid.lower())
    ctx = common.Ctx(pid, tier=args.tier, seed=args.seed)
    if args.replay:
        return mod.replay(ctx, args.replay)
    try:
        ctx.proofs()
        mod.run(ctx)
    except Exception:  # the check itself broke: report, never pass silently
        tb = traceback.format_exc()
        print(tb)
        ctx.violations.append(('harness', 'check aborted: ' + tb[-1500:], None))
    search_for_failing_input(ctx)
    return ctx.finish()


def search_for_failing_input(ctx):
    '''A proof obligation or the correspondence broke (or the check itself) but the oracle has
    no failing input yet: run the property's thorough generator once more, with another seed,
    in a child process under a time limit, and adopt the oracle violations it finds.  The
    violation is reported either way; without a failing input the VIOLATION line ends with
    no-failing-input-found.'''
    import json
    import os
    import re
    import subprocess
    import sys
    if os.environ.get('VERIF_SEARCH') or ctx.tier != 'quick':
        return
    broken = ctx.corr_broken or [v for v in ctx.violations if v[0] != 'oracle']
    if not broken or [v for v in ctx.violations if v[0] == 'oracle']:
        return
    env = dict(os.environ)
    env['VERIF_SEARCH'] = '1'
    limit = int(os.environ.get('VERIF_SEARCH_TIMEOUT', '300'))
    cmd = [sys.executable, '-W', 'ignore', '-m', 'vp.main', ctx.pid, '--tier', 'thorough',
           '--seed', str(ctx.seed + 7919)]
    try:
        proc = subprocess.run(cmd, env=env, timeout=limit, stdout=subprocess.PIPE,
                              stderr=subprocess.STDOUT, text=True)
        out = proc.stdout
    except subprocess.TimeoutExpired as exc:
        out = exc.stdout or ''
        if isinstance(out, bytes):
            out = out.decode('utf-8', 'replace')
        ctx.notes.append(f'search phase: thorough generator stopped after {limit} s')
    found = 0
    for path in re.findall(r'^VIOLATION property=\S+ replay=(\S+)$', out, re.M):
        try:
            data = json.load(open(path))
        except (OSError, ValueError):
            continue
        if data.get('kind') == 'oracle':
            ctx.violations.append(('oracle', data['what'], data.get('case')))
            found += 1
    ctx.notes.append(f'search phase after a broken proof/correspondence: thorough generator through the '
                     f'oracle, {found} failing input(s) found')


if __name__ == '__main__':
    sys.exit(main())

'''C02: see harness/vp/schedcheck.py (shared driver of the scheduler checks)'''
from vp import common, schedcheck


def run(ctx):
    common.import_repo()
    schedcheck.run(ctx, 'C02')
    from vp import schedresult
    schedresult.run(ctx, 150 if ctx.tier == 'quick' else 5000)


def replay(ctx, path):
    common.import_repo()
    return schedcheck.replay(ctx, path, 'C02')

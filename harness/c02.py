'''C02: see harness/vp/schedcheck.py (shared driver of the scheduler checks)'''
from vp import common, schedcheck


def run(ctx):
    common.import_repo()
    schedcheck.run(ctx, 'C02')
    from vp import schedresult
    schedresult.run(ctx, 150 if ctx.tier == 'quick' else 5000)
    schedresult.run_default_env(ctx)


def replay(ctx, path):
    common.import_repo()
    import json
    case = json.load(open(path)).get('case') or {}
    if case.get('kind') == 'default-env':
        from vp import schedresult
        schedresult.run_default_env(ctx)
        for v in ctx.violations:
            print('oracle:', v[1][:400])
        return 0
    if case.get('kind') == 'result':
        print('returned value (repr):', case.get('value'), '- shape', case.get('shape'),
              '- see harness/vp/schedresult.py; re-run ./check C02 to evaluate it')
        return 0
    return schedcheck.replay(ctx, path, 'C02')

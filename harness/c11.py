'''C11: truncated Tripoli-4 listings.

Real ``scan.Scanner`` / ``parse.Parser`` on byte prefixes of example and
synthetic listings, against the Coq model C11/Model.v (evaluated with
vm_compute inside Coq, prefixes evaluated incrementally from the states after
each complete line), plus the property oracle: the exception is the parser's
own, or the edition's results are identical to those of the complete listing;
no hang (watchdog).'''
import hashlib
import json
import multiprocessing
import os
import signal
import sys
import time

from vp import common
from vp.common import cz, cn, cN, cb, clist, copt, cstr

IMPORTS = '''From Coq Require Import List ZArith String.
From VV Require Import Lib.Base C11.Pystr C11.Model.
Import ListNotations.
Local Open Scope string_scope.
'''

DATA = 'tests/eponine/tripoli4/data'

# lines the scanner interprets (generator guidance only: where every byte
# offset is tried)
KEYWORDS = ['//', '!!!', 'WARNING', 'ERROR', 'PARTIAL EDITION', 'BATCH', 'number of tasks is',
            'PACKET_LENGTH', 'initialization time', 'RESULTS ARE GIVEN', ' number of batch',
            ' batch number :', 'simulation time', 'exploitation time', 'elapsed time',
            'Edition after batch number', '#' * 64, 'DUMP HOMOGENIZED MATERIAL',
            'number of batches used', 'NORMAL COMPLETION',
            'Type and parameters of random generator', 'COUNTER']
FLAGS = {'simulation_time': 0, 'exploitation_time': 1, 'elapsed_time': 2}

QUICK_EXAMPLES = [
    # (file, stride outside key lines, number of prefixes through the full parser)
    ('ELECTRON_PHOTON_BALANCE.d.res.ceav5', 2500, 12),
    ('pertu_covariances.d.res.ceav5', 900, 30),
    ('ttsSimplePacket20.d.PARA.res.ceav5', 120, 40),
    ('ttsSimplePacket20.d.res.ceav5', 1500, 30),
    ('failure_test_no_normal_completion.d.res', 250, 25),
    ('failure_test_segFault.d.res', 60, 10),
    ('failure_test_no_simu_time.d.res', 200, 10),
    ('greenband_exploit_T410_contrib.d.res.ceav5', 1200, 15),
    ('failure_noaopt_uniform_sources.d.res', 200, 20),
    # the three ways the grammar layer fails: ParseException, SpectrumDictBuilderException,
    # MeshDictBuilderException (complete listing always goes through the parser)
    ('failure_test_bad_resp_name.d.res', 300, 6),
    ('failure_test_no_a_opt.d.res', 300, 6),
    ('tungstene_missing_vals.d.res', 40000, 2),
]


class Hang(Exception):
    pass


def _alarm(signum, frame):
    raise Hang()


# --------------------------------------------------------------------------
# implementation side (runs in worker processes)

def read_text(path):
    '''the text the scanner iterates over'''
    with open(path, errors='ignore', encoding='utf-8') as fil:
        return fil.read()


def canon(obj):
    '''canonical, hashable form of a parse result (datasets, arrays, dicts)'''
    import numpy as np
    from valjean.eponine.dataset import Dataset
    if isinstance(obj, Dataset):
        return ('DS', canon(obj.value), canon(obj.error),
                tuple((k, canon(v)) for k, v in obj.bins.items()), obj.name, obj.what)
    if isinstance(obj, np.ndarray):
        return ('ND', obj.shape, str(obj.dtype), obj.tobytes())
    if isinstance(obj, np.generic):
        return ('NG', str(obj.dtype), obj.tobytes())
    if isinstance(obj, dict):
        return ('D',) + tuple(sorted(((str(k), canon(v)) for k, v in obj.items()),
                                     key=lambda kv: kv[0]))
    if isinstance(obj, (list, tuple)):
        return ('L',) + tuple(canon(x) for x in obj)
    if isinstance(obj, float) and obj != obj:
        return ('NaN',)
    if isinstance(obj, (int, float, str, bool, type(None))):
        return (type(obj).__name__, obj)
    return ('O', type(obj).__name__, repr(obj))


def edition_digest(res):
    '''results of one edition: everything but run_data; a time that is None
    (another edition has that kind of time, this one does not) counts as absent'''
    out = {}
    for key, val in res.items():
        if key == 'run_data':
            continue
        if key == 'batch_data':
            val = {k: v for k, v in val.items()
                   if not (k in FLAGS and v is None)}
        out[key] = val
    return hashlib.sha1(repr(canon(out)).encode('utf-8', 'replace')).hexdigest()


def scan_obs(path):
    '''run the real Scanner; canonical observation'''
    from valjean.eponine.tripoli4 import scan
    try:
        sres = scan.Scanner(path)
    except scan.ScannerException:
        return {'exc': 'ScannerException'}
    except Exception as exc:  # noqa
        return {'exc': type(exc).__name__}
    times = []
    init = None
    for key, val in sres.times.items():
        if key == 'initialization_time':
            init = val
        elif key in FLAGS and isinstance(val, dict):
            for bnum, tim in val.items():
                times.append([FLAGS[key], bnum, tim if isinstance(tim, int) else None])
        else:
            times.append([9, 0, None])
    return {'coll': [[k, sres[k]] for k in sres.keys()], 'times': times, 'init': init,
            'partial': bool(sres.partial), 'para': bool(sres.para)}


def grammar_obs(block, scan_time):
    '''what gram.parseString does on a block, as far as Parser looks at it'''
    from pyparsing import ParseException
    from valjean.eponine.tripoli4.grammar import t4gram
    from valjean.eponine.tripoli4.common import (SpectrumDictBuilderException,
                                                 MeshDictBuilderException)
    try:
        res = t4gram.parseString(block).asList()
    except (ParseException, SpectrumDictBuilderException, MeshDictBuilderException, IndexError):
        # the classes _parse_listing_worker is documented to turn into ParserException
        # (IndexError: raised by the array builders inside a parse action; pyparsing lets
        # it escape on the first call of the action in a process)
        return {'raise': 0}
    except Hang:
        raise
    except Exception:  # noqa
        return {'raise': 1}
    if len(res) != 1 or not isinstance(res[0], dict):
        return {'raise': 1}
    pres = res[0]
    if 'batch_data' not in pres:
        return {'bd': False, 'tm': None}
    bdata = pres['batch_data']
    tkey = next((k for k in bdata if 'time' in k), None)
    if tkey is None:
        return {'bd': True, 'tm': None}
    return {'bd': True, 'tm': [FLAGS.get(tkey), tkey, bdata[tkey]]}


def parser_obs(path, sels, watchdog):
    '''run the real Parser on a prefix file; for every selector the exception
    class or the digest of the edition results'''
    from valjean.eponine.tripoli4.parse import Parser, ParserException
    out = {'open': None, 'sel': []}
    signal.signal(signal.SIGALRM, _alarm)
    signal.setitimer(signal.ITIMER_REAL, watchdog)
    try:
        try:
            par = Parser(path)
        except ParserException:
            out['open'] = 'ParserException'
            return out
        except Hang:
            out['open'] = 'HANG'
            return out
        except Exception as exc:  # noqa
            out['open'] = type(exc).__name__
            return out
        keys = par.batch_numbers()
        for sel in sels:
            if sel == 'last':
                bnum, call = None, (lambda: par.parse_from_index(-1))
            elif sel == 'first':
                bnum, call = keys[0], (lambda: par.parse_from_number(keys[0]))
            else:
                bnum, call = sel, (lambda: par.parse_from_number(sel))
            item = {'sel': bnum}
            signal.setitimer(signal.ITIMER_REAL, watchdog)
            try:
                pres = call()
                item['ok'] = edition_digest(pres.res)
                bdat = pres.res['batch_data']
                item['bn'] = bdat['batch_number']
                item['times'] = [[FLAGS[k], bdat[k] if isinstance(bdat[k], int) else None]
                                 for k in FLAGS if bdat.get(k) is not None]
                item['browser_ok'] = not pres.to_browser().is_empty() or len(pres.res) <= 2
            except ParserException:
                item['exc'] = 'ParserException'
            except Hang:
                item['exc'] = 'HANG'
            except KeyError:
                item['exc'] = 'KeyError'
            except Exception as exc:  # noqa
                item['exc'] = type(exc).__name__
            # the grammar alone on the same block (input of the model's Parser layer)
            the_bn = bnum if bnum is not None else (keys[-1] if keys else None)
            if the_bn in par.scan_res:
                signal.setitimer(signal.ITIMER_REAL, watchdog)
                try:
                    gob = grammar_obs(par.scan_res[the_bn], None)
                except Hang:
                    gob = {'raise': 1, 'hang': True}
                if gob.get('tm'):
                    flag, tkey, val = gob['tm']
                    stime = par.scan_res.times.get(tkey, {}).get(the_bn) \
                        if isinstance(par.scan_res.times.get(tkey), dict) else None
                    gob['tm'] = [flag, bool(val != stime)]
                item['gram'] = gob
            out['sel'].append(item)
        return out
    finally:
        signal.setitimer(signal.ITIMER_REAL, 0)


def worker(job):
    '''one listing: scanner on every requested prefix, parser on some; block
    texts are returned as (id in the table of block contents, sha1)'''
    common.import_repo()
    import logging
    logging.disable(logging.CRITICAL)
    wdir, name, data, offsets, poffsets, watchdog = job
    path = os.path.join(wdir, f'{name}.cut.res')
    full = os.path.join(wdir, f'{name}.full.res')
    with open(full, 'wb') as fil:
        fil.write(data)
    text = read_text(full)
    lst = Listing(text)
    out = {'name': name, 'scan': {}, 'parse': {}, 'bound': {}, 'text': text}
    t0 = time.time()

    def scan_prefix(off):
        with open(path, 'wb') as fil:
            fil.write(data[:off])
        obs = scan_obs(path)
        if 'coll' in obs:
            obs['coll'] = [[k, lst.block_id(k, t), hashlib.sha1(t.encode()).hexdigest()[:16]]
                           for k, t in obs['coll']]
        return obs

    def boundary(off):
        if off not in out['bound']:
            out['bound'][off] = scan_prefix(off)
        return out['bound'][off]
    out['full_scan'] = boundary(len(data))
    keys = [k for k, _, _ in out['full_scan'].get('coll', [])]
    out['full_parse'] = parser_obs(full, ['last'] + keys, watchdog)
    # line boundaries after every line that may close a block or carry a time:
    # all the moments at which the complete listing stores something
    pos = 0
    for line in data.split(b'\n'):
        pos += len(line) + 1
        if pos <= len(data) and any(f in line for f in (b'simulation time', b'exploitation time',
                                                        b'elapsed time')):
            boundary(pos)
    out['snapshots'] = sorted(out['bound'])
    pset = set(poffsets)
    for off in offsets:
        obs = scan_prefix(off)
        ptxt = read_text(path)
        obs['ptext_len'] = len(ptxt)
        obs['is_prefix'] = text.startswith(ptxt)
        obs['boundary'] = max(data.rfind(b'\n', 0, off), data.rfind(b'\r', 0, off)) + 1
        boundary(obs['boundary'])
        out['scan'][off] = obs
        if off in pset:
            pkeys = [k for k, _, _ in obs.get('coll', [])]
            sels = ['last'] + pkeys[-2:]
            out['parse'][off] = parser_obs(path, sels, watchdog)
    # once more at the end: "whatever was parsed earlier in the same process"
    out['full_parse_again'] = parser_obs(full, ['last'] + keys, watchdog)
    out['wall'] = time.time() - t0
    out['listing'] = lst
    os.unlink(path)
    os.unlink(full)
    return out


# --------------------------------------------------------------------------
# histories with threads: "never hangs, whatever was parsed earlier in the same process"

REFUSED = ['failure_test_bad_resp_name.d.res', 'failure_test_no_a_opt.d.res',
           'failure_noaopt_uniform_sources.d.res', 'tungstene_missing_vals.d.res',
           'failure_test_no_simu_time.d.res']
ACCEPTED = ['pertu_covariances.d.res.ceav5', 'ttsSimplePacket20.d.PARA.res.ceav5',
            'failure_test_no_normal_completion.d.res', 'test_adjoint_small.d.res',
            'greenband_exploit_T410_contrib.d.res.ceav5']


def draw_thread_history(rng, repo, kind):
    '''a sequence of (thread, listing, cut) executed one after the other, every
    thread staying alive until the end.  kind 0: refused listing(s) in one
    thread, then an accepted one in another; 1: the reverse; 2: two or three
    threads alternating over both kinds, complete or cut after the end flag.'''
    def item(name):
        size = os.path.getsize(os.path.join(repo, DATA, name))
        if rng.random() < 0.3:
            data = open(os.path.join(repo, DATA, name), 'rb').read()
            marks = [i for i in range(len(data)) if data.startswith(b' time (s)', i)]
            if marks:       # cut just after an end-flag line, or anywhere
                pos = data.find(b'\n', rng.choice(marks))
                return [name, pos + 1 if pos >= 0 and rng.random() < 0.7 else rng.randrange(size)]
        return [name, size]
    if kind == 0:
        steps = [[0] + item(rng.choice(REFUSED)) for _ in range(rng.choice([1, 1, 2]))]
        steps += [[1] + item(rng.choice(ACCEPTED)), [0] + item(rng.choice(ACCEPTED))]
    elif kind == 1:
        steps = [[0] + item(rng.choice(ACCEPTED)), [1] + item(rng.choice(REFUSED)),
                 [0] + item(rng.choice(ACCEPTED)), [2] + item(rng.choice(ACCEPTED))]
    else:
        nthr = rng.choice([2, 3])
        steps = [[rng.randrange(nthr)] + item(rng.choice(REFUSED + ACCEPTED))
                 for _ in range(rng.randint(4, 7))]
    return steps


def thread_history(job):
    '''run one history in this (fresh) process: persistent daemon threads, one
    parse at a time, each under the watchdog'''
    common.import_repo()
    import logging
    import queue
    import threading
    logging.disable(logging.CRITICAL)
    from valjean.eponine.tripoli4.parse import Parser, ParserException
    wdir, hid, steps, repo, watchdog = job
    threads = {}
    results = []

    def loop(inq, outq):
        while True:
            path = inq.get()
            if path is None:
                return
            try:
                pres = Parser(path).parse_from_index(-1)
                out = ['ok', edition_digest(pres.res)]
            except ParserException:
                out = ['ParserException', None]
            except Exception as exc:  # noqa
                out = [type(exc).__name__, None]
            outq.put(out)
    for num, (tid, name, cut) in enumerate(steps):
        if tid not in threads:
            inq, outq = queue.Queue(), queue.Queue()
            thr = threading.Thread(target=loop, args=(inq, outq), daemon=True)
            thr.start()
            threads[tid] = (thr, inq, outq)
        path = os.path.join(wdir, f'hist{hid}_{num}.res')
        with open(path, 'wb') as fil:
            fil.write(open(os.path.join(repo, DATA, name), 'rb').read()[:cut])
        thr, inq, outq = threads[tid]
        inq.put(path)
        try:
            out = outq.get(timeout=watchdog)
        except queue.Empty:
            out = ['HANG', None]
        results.append(out)
        if out[0] == 'HANG':
            break
    for thr, inq, outq in threads.values():
        inq.put(None)
    for name in os.listdir(wdir):
        if name.startswith(f'hist{hid}_'):
            os.unlink(os.path.join(wdir, name))
    return results


# --------------------------------------------------------------------------
# histories in one process on generated listings (ground truth known): repeated
# parses with other work in between, and one path rewritten with other content
# of exactly the same length

class Collector:
    '''stands for the check context inside a worker process'''

    def __init__(self):
        self.failures = []
        self.counts = {}

    def oracle_failure(self, what, case, key=None):
        self.failures.append([what, key])

    def count(self, key, n=1):
        self.counts[key] = self.counts.get(key, 0) + n


def dirty_allocator(rng, repo):
    '''other work between two parses: a shipped listing with large arrays, then
    many short-lived small arrays full of ordinary numbers'''
    import numpy as np
    from valjean.eponine.tripoli4.parse import Parser
    name = rng.choice(['gauss_E_time_mu_phi.res.ceav5', 'box_dyn.res.ceav5', 'pertu_covariances.d.res.ceav5'])
    try:
        res = Parser(os.path.join(repo, DATA, name)).parse_from_index(-1)
        del res
    except Exception:  # noqa
        pass
    for size in range(1, 140):
        blocks = [np.full(size, rng.choice([7.5, -1.25e10, 3.0])) for _ in range(6)]
        recs = [np.full((1, 1, 1, 1, size % 7 + 1, 1, 1), 2.5,
                        dtype=np.dtype({'names': ['score', 'sigma'], 'formats': [np.float64] * 2}))
                for _ in range(6)]
        del blocks, recs


def parse_outcome(path, doc=None, coll=None, where=''):
    '''{batch: digest | exception class} of everything a listing holds; with a
    document, every edition is also compared with its ground truth'''
    import c10
    from valjean.eponine.tripoli4.parse import Parser, ParserException
    try:
        par = Parser(path)
    except ParserException:
        return {'open': 'ParserException'}
    except Exception as exc:  # noqa
        return {'open': type(exc).__name__}
    out = {'scan': [[k, hashlib.sha1(par.scan_res[k].encode()).hexdigest()[:12]] for k in par.batch_numbers()]}
    editions = {e['batch']: e for e in doc['editions']} if doc else {}
    for bnum in par.batch_numbers():
        try:
            pres = par.parse_from_number(bnum)
            out[str(bnum)] = edition_digest(pres.res)
            if bnum in editions and coll is not None:
                c10.t4_oracle(coll, editions[bnum], pres.to_browser(), {'listing': where}, bnum)
        except ParserException:
            out[str(bnum)] = 'ParserException'
        except Exception as exc:  # noqa
            out[str(bnum)] = type(exc).__name__
    return out


def generated_history(job):
    '''one history in this (fresh) process; returns the oracle failures'''
    import random
    common.import_repo()
    import logging
    logging.disable(logging.CRITICAL)
    import c10
    wdir, hid, mode, seed, repo = job
    rng = random.Random(seed)
    coll = Collector()
    head = c10.header(repo)
    base = os.path.join(wdir, f'gen{hid}_')
    made = []

    def write(name, data):
        path = base + name
        with open(path, 'wb') as fil:
            fil.write(data)
        if path not in made:
            made.append(path)
        return path

    def compare(got, want, what, key):
        if got != want:
            diff = sorted(k for k in set(got) | set(want) if got.get(k) != want.get(k))
            coll.oracle_failure(f'{what} (differs for {diff[:4]})', None, key)
    if mode == 'unconverged':
        doc = c10.draw_unconverged_doc(rng)
        data = c10.listing_text(doc, head).encode('utf-8')
        full = write('full.res', data)
        ref = parse_outcome(full, doc, coll, f'generated listing, first parse (seed {seed})')
        ends = [i for i in range(len(data)) if data.startswith(b' simulation time (s) :', i)]
        for rep in range(3):
            dirty_allocator(rng, repo)
            again = parse_outcome(full, doc, coll, f'generated listing, parse {rep + 2} in the process')
            compare(again, ref, f'parse {rep + 2} of the same listing in one process gives other results than '
                    'the first one', 'repeated-parse-differs')
            for pos in rng.sample(ends, min(2, len(ends))):
                cut = data.find(b'\n', pos) + 1 + rng.choice([0, 0, 1, 7, 40])
                dirty_allocator(rng, repo)
                part = parse_outcome(write('cut.res', data[:cut]), doc, coll,
                                     f'generated listing cut at byte {cut}')
                for key, val in part.items():
                    if key not in ('scan', 'open') and ref.get(key) != val:
                        coll.oracle_failure(f'results of edition {key} of the listing cut at byte {cut} differ '
                                            'from those of the complete listing', None, 'edition-results-differ')
                coll.count('generated_prefixes_parsed')
        coll.count('generated_unconverged_histories')
    elif mode == 'duplicated-times':
        # every edition prints its time(s) twice with different values (mono: simulation time again
        # after the block; parallel style: elapsed time after the block and again in a summary)
        para = rng.random() < 0.6
        doc = c10.draw_doc(rng)
        if rng.random() < 0.4:
            doc['editions'] = doc['editions'][:1]
        for edi in doc['editions']:
            # a run cannot have used more batches than the batch of the edition (in a parallel
            # listing the scanner takes the largest 'number of batches used' as the edition's batch)
            edi['used'] = min(edi['used'], edi['batch'])
            if edi.get('keff'):
                edi['keff']['used'] = min(edi['keff']['used'], edi['batch'])
        if para:
            plines = open(os.path.join(repo, DATA, 'ttsSimplePacket20.d.PARA.res.ceav5'), encoding='utf-8',
                          errors='ignore').read().split('\n')
            i_init = next(i for i, l in enumerate(plines) if 'initialization time' in l)
            head_used = plines[:i_init + 1] + ['', ' elapsed time (s): %d' % rng.randint(1, 9)]
        else:
            head_used = head
        lines = c10.listing_text(doc, head_used).split('\n')
        out_lines, wanted = [], {}
        batches = iter(e['batch'] for e in doc['editions'])
        for line in lines:
            out_lines.append(line)
            if line.startswith(' simulation time (s) :'):
                bnum = next(batches)
                tsim = int(line.split()[-1])
                extra = ['']
                if para:
                    tela = rng.randint(100, 900)
                    extra += [' elapsed time (s): %d' % tela, '', ' some statistics of the run', '',
                              ' elapsed time (s): %d' % (tela + rng.randint(1, 9)), '']
                    wanted[bnum] = {'simulation_time': tsim, 'elapsed_time': tela}
                else:
                    wanted[bnum] = {'simulation_time': tsim}
                if not para or rng.random() < 0.5:
                    extra += [' end of the edition', ' simulation time (s) : %d' % (tsim + rng.randint(1, 9)), '']
                out_lines += extra
        data = '\n'.join(out_lines).encode('utf-8')
        full = write('full.res', data)

        def observe(path):
            from valjean.eponine.tripoli4.parse import Parser, ParserException
            try:
                par = Parser(path)
            except ParserException:
                return None
            except Exception as exc:  # noqa
                coll.oracle_failure(f'Parser(path) raises {type(exc).__name__}', None,
                                    'parser-open-' + type(exc).__name__)
                return None
            obs = {}
            for bnum in par.batch_numbers():
                try:
                    res = par.parse_from_number(bnum).res
                except ParserException:
                    continue
                except Exception as exc:  # noqa
                    coll.oracle_failure(f'parsing edition {bnum} raises {type(exc).__name__}', None,
                                        'parse-raises-' + type(exc).__name__)
                    continue
                times = {k: res['batch_data'].get(k) for k in FLAGS}
                rest = {k: (v if k != 'batch_data' else {kk: vv for kk, vv in v.items() if kk not in FLAGS})
                        for k, v in res.items() if k != 'run_data'}
                obs[bnum] = (hashlib.sha1(repr(canon(rest)).encode('utf-8', 'replace')).hexdigest(), times)
            return obs
        ref = observe(full) or {}
        for bnum, want in wanted.items():
            got = ref.get(bnum, (None, {}))[1]
            for key, val in want.items():
                if got.get(key) != val:
                    coll.oracle_failure(f'{key} of edition {bnum} of the complete listing is {got.get(key)}, the '
                                        f'time printed for that edition is {val}', None, 'edition-time-wrong')
        first_end = data.find(b' simulation time (s) :')
        bounds = [i + 1 for i in range(first_end, len(data)) if data[i:i + 1] == b'\n']
        tail_of_editions = [b for b in bounds
                            if any(0 <= b - e < 260 for e in
                                   [i for i in range(len(data)) if data.startswith(b' simulation time (s) :', i)])]
        offsets = sorted(set(rng.sample(tail_of_editions, min(26, len(tail_of_editions)))
                             + [b + rng.choice([1, 5, 11]) for b in rng.sample(tail_of_editions,
                                                                               min(8, len(tail_of_editions)))]))
        for cut in offsets:
            part = observe(write('cut.res', data[:cut]))
            coll.count('duplicated_times_prefixes')
            for bnum, (dig, times) in (part or {}).items():
                if bnum not in ref:
                    coll.oracle_failure(f'edition {bnum} parses in the listing cut at byte {cut} but not in the '
                                        'complete one', None, 'only-truncated-parses')
                    continue
                if dig != ref[bnum][0]:
                    coll.oracle_failure(f'results of edition {bnum} of the listing cut at byte {cut} differ from '
                                        'those of the complete listing', None, 'edition-results-differ')
                for key, val in times.items():
                    full_val = ref[bnum][1].get(key)
                    if val == full_val:
                        continue
                    if val is None:
                        # not printed yet when the job was killed: the known finding
                        coll.oracle_failure(f'edition {bnum} of the listing cut at byte {cut} lacks the {key} '
                                            'printed after its end flag', None, 'elapsed-time-after-cut')
                    else:
                        coll.oracle_failure(f'{key} of edition {bnum} is {val} for the listing cut at byte {cut}, '
                                            f'{full_val} for the complete listing', None, 'edition-time-differs')
        coll.count('duplicated_times_histories_' + ('parallel' if para else 'mono'))
    else:
        # one scratch path rewritten with other content of the same length
        if mode == 'same-length-generated':
            doc_a = c10.draw_unconverged_doc(rng) if rng.random() < 0.5 else c10.draw_doc(rng)
            doc_b = c10.same_length_variant(doc_a, rng)
            contents = [(c10.listing_text(d, head).encode('utf-8'), d) for d in (doc_a, doc_b)]
        else:
            # equal-length prefixes of two shipped listings, at least one of them usable
            for _ in range(8):
                names = rng.sample(ACCEPTED + REFUSED[:3], 2)
                blobs = [open(os.path.join(repo, DATA, n), 'rb').read() for n in names]
                size = min(len(b) for b in blobs)
                short = min(blobs, key=len)
                marks = [i for i in range(size) if short.startswith(b' time (s)', i)]
                if marks and rng.random() < 0.5:
                    size = short.find(b'\n', rng.choice(marks)) + 1 + rng.choice([0, 30])
                contents = [(b[:size], None) for b in blobs]
                if len(marks) > 0:
                    break
        if len(contents[0][0]) != len(contents[1][0]):
            coll.count('same_length_variant_not_same_length')
        else:
            refs = [parse_outcome(write(f'unique{k}.res', dat), doc, coll, f'content {k} at its own path')
                    for k, (dat, doc) in enumerate(contents)]
            if refs[0] == refs[1]:
                coll.count('same_length_contents_with_equal_results')
            order = [0, 1] + [rng.randrange(2) for _ in range(2)]
            for num, k in enumerate(order):
                dat, doc = contents[k]
                got = parse_outcome(write('scratch.res', dat), doc, coll,
                                    f'scratch path rewritten, step {num} (content {k}, {len(dat)} bytes)')
                compare(got, refs[k], f'a path rewritten with content {k} of the same length ({len(dat)} bytes, '
                        f'step {num} of {order}) is parsed as something else than that content',
                        'rewritten-path-stale')
            coll.count('rewritten_path_histories_' + mode)
    for path in made:
        if os.path.exists(path):
            os.unlink(path)
    return coll.failures, coll.counts


def start_generated_histories(ctx):
    quick = ctx.tier == 'quick'
    modes = ['unconverged', 'same-length-generated', 'same-length-prefixes', 'duplicated-times']
    jobs = [(ctx.wd(), hid, modes[hid % 4], ctx.rng.randrange(10 ** 9), common.REPO)
            for hid in range(16 if quick else 200)]
    pool = multiprocessing.get_context('fork').Pool(4, maxtasksperchild=1)
    return pool, jobs, pool.map_async(generated_history, jobs, chunksize=1)


def finish_generated_histories(ctx, started):
    pool, jobs, pending = started
    outs = pending.get(timeout=1500)
    pool.close()
    pool.join()
    for job, (failures, counts) in zip(jobs, outs):
        case = {'kind': 'generated-history', 'mode': job[2], 'seed': job[3], 'id': job[1]}
        for key, num in counts.items():
            ctx.count(key, num)
        for what, key in failures:
            ctx.oracle_failure(f'{what} :: history {job[2]} (seed {job[3]})', case, key=key)
        ctx.case_seen(case, True, sample_every=4)


def run_thread_histories(ctx):
    quick = ctx.tier == 'quick'
    nhist = 12 if quick else 120
    watchdog = 60 if quick else 90      # wall clock: generous, a loaded machine must not look like a hang
    jobs = []
    for hid in range(nhist):
        steps = draw_thread_history(ctx.rng, common.REPO, hid % 3)
        jobs.append((ctx.wd(), hid, steps, common.REPO, watchdog))
    with multiprocessing.get_context('fork').Pool(min(common.NPROC, 6), maxtasksperchild=1) as pool:
        outs = pool.map(thread_history, jobs, chunksize=1)
    reference = {}
    for job, results in zip(jobs, outs):
        steps = job[2]
        case = {'kind': 'threads', 'steps': steps}
        ctx.count('thread_histories')
        nontrivial = False
        for num, (out, (tid, name, cut)) in enumerate(zip(results, steps)):
            where = (f'step {num} (thread {tid}, {name} cut at {cut}) of the history '
                     + ' ; '.join(f't{t}:{n}[:{c}]' for t, n, c in steps[:num + 1]))
            ctx.count('thread_step_' + out[0])
            if out[0] == 'HANG':
                ctx.oracle_failure(f'parsing hangs in a thread after earlier parses in other threads :: {where}',
                                   case, key='thread-history-hang')
            elif out[0] not in ('ok', 'ParserException'):
                ctx.oracle_failure(f'parsing raises {out[0]} in a thread :: {where}', case,
                                   key='thread-history-raises-' + out[0])
            else:
                # same listing and cut -> same outcome, whatever thread and whatever came before
                prev = reference.setdefault((name, cut), out)
                if prev != out:
                    ctx.oracle_failure(f'outcome depends on the thread / on what was parsed earlier '
                                       f'({prev[0]} then {out[0]}) :: {where}', case,
                                       key='thread-history-differs')
                nontrivial = nontrivial or (num > 0 and out[0] == 'ok')
        ctx.case_seen({'kind': 'threads', 'steps': steps}, nontrivial, sample_every=5)


# --------------------------------------------------------------------------
# generators

def key_line_offsets(data, stride, rng, per_kind=None):
    '''byte offsets: every byte of the lines the scanner interprets (and the
    byte after), a stride elsewhere, the boundaries of every key line.  With
    ``per_kind`` only that many lines of each kind (first keyword matched) get
    the every-byte treatment: the first, the last and random ones.'''
    offs = {0, len(data)}
    pos = 0
    kinds = {}
    for line in data.split(b'\n'):
        end = pos + len(line) + 1
        text = line.decode('utf-8', 'ignore')
        kind = None
        if text.lstrip().startswith(('//', '!!!')):
            kind = 'comment'
        else:
            kind = next((k for k in KEYWORDS if k in text), None)
        if kind is not None:
            kinds.setdefault(kind, []).append((pos, end))
        pos = end
    allspans = [sp for spans in kinds.values() for sp in spans]
    if per_kind is not None and len(allspans) > 30:
        allspans = rng.sample(allspans, 30)
    for pos, end in allspans:
        offs.update((pos, min(end, len(data)), min(end - 1, len(data))))
    for kind, spans in kinds.items():
        if per_kind is not None and len(spans) > per_kind:
            chosen = ([spans[0], spans[-1]] + rng.sample(spans[1:-1], per_kind - 2)) if per_kind >= 2 else []
        else:
            chosen = spans
        for pos, end in chosen:
            offs.update(range(pos, min(end + 1, len(data) + 1)))
    if stride:
        start = rng.randrange(stride)
        offs.update(range(start, len(data), stride))
    return sorted(o for o in offs if 0 <= o <= len(data))


END_FLAGS = (b'simulation time', b'exploitation time', b'elapsed time')


def line_spans(data):
    spans, pos = [], 0
    for line in data.split(b'\n'):
        spans.append((pos, min(pos + len(line) + 1, len(data))))
        pos += len(line) + 1
    return [sp for sp in spans if sp[0] < len(data) or sp == (len(data), len(data))]


def boundary_and_tail_offsets(data, rng, max_boundaries=None, nrandom_lines=40):
    '''every byte of the tail of the file after the last end flag (final
    generator state, completion banner, last bytes), every byte of the lines
    adjacent to each edition boundary (start flag and end flag +- 3 lines), and
    for random lines elsewhere the cut at the line boundary without and with
    the newline'''
    spans = line_spans(data)
    offs = set()
    ends = [k for k, (a, b) in enumerate(spans) if any(f in data[a:b] for f in END_FLAGS)]
    starts = [k for k, (a, b) in enumerate(spans) if b'RESULTS ARE GIVEN' in data[a:b]]
    if ends:
        offs.update(range(spans[ends[-1]][0], len(data) + 1))           # the whole tail
    else:
        offs.update(range(max(0, len(data) - 400), len(data) + 1))
    marks = sorted(set(ends + starts))
    if max_boundaries is not None and len(marks) > max_boundaries:
        marks = sorted(set([marks[0], marks[-1]] + rng.sample(marks, max_boundaries - 2)))
    for k in marks:
        for j in range(max(0, k - 3), min(len(spans), k + 4)):
            offs.update(range(spans[j][0], spans[j][1] + 1))
    for a, b in rng.sample(spans, min(nrandom_lines, len(spans))):
        offs.update((max(a, b - 1), b))                                   # without / with the newline
    return offs


def synth_scanner_listing(rng, idx):
    '''small synthetic listing exercising every branch of the scanner (the
    grammar does not accept these blocks: scanner + "parser's own error" only)'''
    para = rng.random() < 0.4
    nl = '\r\n' if rng.random() < 0.15 else '\n'
    lines = []
    junk = ['', ' some text', '\tvalue = 1.0e+00 2.0', ' time step', ' THIS BATCH is odd',
            ' keff = 9.9e-01 ± 2', ' // a comment BATCH x', ' !!! simulation time (s) : 3',
            ' WARNING', ' ERROR : something', ' Total', ' 5 groups', ' NB_BATCH 12',
            ' end of the time', ' 12 13 14', ' batches 7', 'x' * rng.randint(1, 5)]

    def noise(n):
        for _ in range(rng.randint(0, n)):
            lines.append(rng.choice(junk))
    noise(2)
    if para:
        lines.append(f' number of tasks is : {rng.randint(1, 9)}')
    noise(1)
    lines.append(rng.choice(['        BATCH %d' % rng.randint(1, 500), 'BATCH', ' SIMULATION BATCH 10 SIZE 5',
                             ' BATCH_PER_SIMULATOR %d' % rng.randint(1, 50), ' BATCH 1_0']))
    if rng.random() < 0.5:
        lines.append('\tPACKET_LENGTH %d' % rng.randint(1, 20))
    noise(2)
    if rng.random() < 0.93:
        lines.append(f' initialization time (s): {rng.randint(0, 50)}')
    if para and rng.random() < 0.8:
        lines.append(f' elapsed time (s): {rng.randint(0, 9)}')
    nedit = rng.choice([0, 1, 1, 2, 2, 3, 4])
    flag = rng.choice(['simulation', 'simulation', 'exploitation'])
    bnum = 0
    repeat = rng.random() < 0.25
    partial = rng.random() < 0.25
    for ied in range(nedit):
        for _ in range(rng.randint(1, 3)):
            bnum += rng.randint(1, 12)
            if rng.random() < 0.9:
                lines.append(f' batch number : {bnum}')
            noise(1)
        if repeat and ied and rng.random() < 0.5:
            bnum = max(1, bnum - rng.randint(5, 30))
            lines.append(f' batch number : {bnum}')
        if partial and ied == nedit - 1:
            lines.append(' PARTIAL EDITION')
            if rng.random() < 0.6:
                lines.append(f' number of batch used: {bnum}')
        lines.append(' RESULTS ARE GIVEN FOR SOURCE INTENSITY : 1.000000e+00')
        noise(2)
        if rng.random() < 0.8:
            ebn = bnum if rng.random() < 0.8 else rng.randint(1, 300)
            lines.append(f' Edition after batch number : {ebn}')
        noise(2)
        if rng.random() < 0.3:
            lines.append(' ' + '#' * rng.choice([64, 64, 70, 63]))
            for k in range(rng.randint(1, 4)):
                noise(1)
                lines.append(' Total photons %d' % k)
            noise(1)
        if rng.random() < 0.25:
            lines.append(' DUMP HOMOGENIZED MATERIAL')
            lines.append(' dump total section :')
            for k in range(rng.randint(0, 3)):
                lines.append(f'{k} 1.0e+00')
            lines.append(' dump absorption section :')
            noise(1)
            if rng.random() < 0.8:
                lines.append(' correlation between absorption and total cross section')
                for k in range(rng.randint(0, 4)):
                    lines.append(f' {k} 0.5')
        if para:
            for _ in range(rng.randint(0, 2)):
                lines.append('number of batches used: %d\t1.4e+01\t1.4e+00' % rng.randint(1, 40))
        noise(2)
        if rng.random() < 0.12:
            break       # killed inside the block
        this_flag = flag if rng.random() < 0.85 else rng.choice(['simulation', 'exploitation', 'elapsed'])
        tim = rng.choice([str(rng.randint(0, 3000)), str(rng.randint(0, 99)), '1.5', 'unknown', ''])
        lines.append(f' {this_flag} time (s) : {tim}'.rstrip() if tim else f' {this_flag} time (s) :')
        if rng.random() < 0.2:
            lines.append(f' {this_flag} time (s) : {rng.randint(0, 99)}')
        noise(1)
        if para and rng.random() < 0.8:
            lines.append(f' elapsed time (s): {rng.randint(10, 999)}')
        if rng.random() < 0.08:
            lines.append(' FATAL ERROR : abort')
    noise(2)
    if rng.random() < 0.7:
        lines.append('\tNORMAL COMPLETION')
    text = nl.join(lines)
    if rng.random() < 0.85:
        text += nl
    return f'synth{idx}', text.encode('utf-8')


def edition_variants(rng, repo):
    '''synthetic listings the grammar accepts: editions of a shipped
    two-edition listing dropped, repeated, renumbered, with another end flag'''
    path = os.path.join(repo, DATA, 'ttsSimplePacket20.d.res.ceav5')
    lines = open(path, encoding='utf-8', errors='ignore').read().split('\n')
    i_res = [i for i, l in enumerate(lines) if 'RESULTS ARE GIVEN' in l]
    i_sim = [i for i, l in enumerate(lines) if 'simulation time' in l]
    # keep the listing small: head (input echo), then per edition the last
    # "batch number" line and the block
    i_init = next(i for i, l in enumerate(lines) if 'initialization time' in l)
    head = lines[:i_init + 1]
    eds = [lines[r:s + 1] for r, s in zip(i_res, i_sim)]
    tail = lines[i_sim[-1] + 1:]
    out = []
    # 1: first edition closed by "exploitation time", then re-edited (same batch) with
    #    "simulation time": used to be a KeyError in the time consistency check
    v1 = head + [' batch number : 100'] + eds[0][:-1] + [eds[0][-1].replace('simulation', 'exploitation')] \
        + [' batch number : 200'] + eds[1] + [' batch number : 100'] + eds[0] + tail
    out.append(('variant_reedit', '\n'.join(v1).encode()))
    # 2: three editions, middle one a copy with another batch number and time
    mid = [l.replace('batch number : 100', 'batch number : 150') for l in eds[0]]
    mid[-1] = ' simulation time (s) : %d' % rng.randint(113, 216)
    v2 = head + [' batch number : 100'] + eds[0] + [' batch number : 150'] + mid \
        + [' batch number : 200'] + eds[1] + tail
    out.append(('variant_three', '\n'.join(v2).encode()))
    # 3/4: batch 100 edited twice with the same flag and another time: the scanner keeps the
    #    first time, the block is the second one -> time inconsistency (ParserException), which
    #    is only a warning when a PARTIAL EDITION is announced afterwards
    again = list(eds[0])
    again[-1] = ' simulation time (s) : %d' % rng.randint(113, 216)
    v3 = head + [' batch number : 100'] + eds[0] + [' batch number : 100'] + again + tail
    out.append(('variant_retimed', '\n'.join(v3).encode()))
    v4 = head + [' batch number : 100'] + eds[0] + [' batch number : 100'] + again \
        + [' PARTIAL EDITION'] + tail
    out.append(('variant_retimed_partial', '\n'.join(v4).encode()))
    # 5: a parallel run that prints its times again, with other values, in the final summary
    para = open(os.path.join(repo, DATA, 'ttsSimplePacket20.d.PARA.res.ceav5'), encoding='utf-8',
                errors='ignore').read().split('\n')
    i_ela = max(i for i, l in enumerate(para) if 'elapsed time' in l)
    i_simu = max(i for i, l in enumerate(para) if 'simulation time' in l)
    tsim = int(para[i_simu].split()[-1])
    tela = int(para[i_ela].split()[-1])
    v5 = para[:i_ela + 1] + ['', ' final summary', ' simulation time (s): %d' % (tsim + rng.randint(1, 9)),
                             '', ' elapsed time (s): %d' % (tela + rng.randint(1, 9))] + para[i_ela + 1:]
    out.append(('variant_para_times_twice', '\n'.join(v5).encode()))
    return out


# --------------------------------------------------------------------------
# Coq side

def cbstr(text):
    '''compact Coq literal (one byte per character) of a line'''
    data = text.encode('utf-8')
    if all(c >= 32 or c == 9 for c in data) and 127 not in data:
        return '"' + text.replace('"', '""') + '"%bs'
    return '(bsn [' + '; '.join(str(c) for c in data) + ']%N)'


def coq_obs(obs):
    if 'exc' in obs:
        return '(OErr %s)' % cn(0 if obs['exc'] == 'ScannerException' else 1)
    coll = clist(['(%s, %s)' % (cz(k), cn(bid)) for k, bid, _ in obs['coll']])
    times = clist(['(%s, %s, %s)' % (cn(f), cz(b), copt(t, cz)) for f, b, t in obs['times']])
    return '(OOk %s %s %s %s %s)' % (coll, times, copt(obs['init'], cz), cb(obs['partial']),
                                     cb(obs['para']))


def coq_gobs(gob):
    if gob is None:
        return '(GRaise 1%nat)'
    if 'raise' in gob:
        return '(GRaise %s)' % cn(gob['raise'])
    tm = gob['tm']
    if tm is None:
        return '(GRes %s None)' % cb(gob['bd'])
    return '(GRes %s (Some (%s, %s)))' % (cb(gob['bd']), copt(tm[0], cn), cb(tm[1]))


def coq_pobs(item, opened):
    if opened is not None:
        return '(PErr %s)' % cn(0 if opened == 'ParserException' else 2)
    if 'exc' in item:
        cls = {'ParserException': 0, 'KeyError': 1}.get(item['exc'], 2)
        return '(PErr %s)' % cn(cls)
    times = clist(['(%s, %s)' % (cn(f), copt(t, cz)) for f, t in item['times']])
    return '(POk %s %s)' % (cz(item['bn']), times)


class Listing:
    '''the decoded text of a listing as a table of distinct line contents'''

    def __init__(self, text):
        self.text = text
        self.last_nl = text.endswith('\n') or text == ''
        raw = text.split('\n')
        if self.last_nl:
            raw = raw[:-1]
        self.lines = raw                       # without their newline
        self.uniq = {}
        self.cids = []
        for line in raw:
            self.cids.append(self.uniq.setdefault(line, len(self.uniq)))
        self.blocks = {}                       # (tuple of cids) -> id
        self.block_list = []
        self.bytes_lines = [l.encode('utf-8') for l in raw]

    def locate(self, ptext):
        '''(k, j): k complete lines and j bytes of line k'''
        k = ptext.count('\n')
        part = ptext[ptext.rfind('\n') + 1:]
        return k, len(part.encode('utf-8'))

    def block_id(self, key, text):
        '''id of a block text in the table of block contents (as line content
        ids); a text that is not a sequence of complete lines of the listing
        gets an id outside the table'''
        parts = text.split('\n')
        if parts and parts[-1] == '':
            parts = parts[:-1]
            complete = True
        else:
            complete = False
        ids = []
        for i, part in enumerate(parts):
            if part in self.uniq and (complete or i < len(parts) - 1 or not self.last_nl):
                cid = self.uniq[part]
                if not complete and i == len(parts) - 1:
                    cid = len(self.uniq) + 1      # tag of the unterminated last line
                ids.append(cid)
            else:
                return 10 ** 6
        tup = tuple(ids)
        if tup not in self.blocks:
            self.blocks[tup] = len(self.block_list)
            self.block_list.append(tup)
        return self.blocks[tup]

    def coq_defs(self, sfx=''):
        uniq = sorted(self.uniq, key=self.uniq.get)
        return (f'Definition uniq{sfx} : list bstr := [\n ' + ';\n '.join(cbstr(u) for u in uniq) + '].\n'
                + f'Definition cids{sfx} : list N := ' + clist([str(c) for c in self.cids]) + '%N.\n'
                + f'Definition blocks{sfx} : list (list N) := '
                + clist([clist([str(c) for c in b]) for b in self.block_list]) + '%N.\n')


# --------------------------------------------------------------------------
# CPython validation of Pystr.v

def pystr_queries(rng, n):
    alpha = ' \t\x0b\x0c\x1c\x1f0159_+-aB#:/!±'
    out = []

    def rs(maxlen=12, alphabet=alpha):
        return ''.join(rng.choice(alphabet) for _ in range(rng.randint(0, maxlen)))
    ints = ['1_0', '_1', '1__0', '+5', '-0', '0x1', ' 7 ', '\x1c7', '9' * 4301, '-' + '1' * 4301,
            '7' * 300, '+', '', '1_', '007', '-1_2', '\t12\n', '12\x0b', '1 2', '--1', '+-1']
    for x in ints:
        out.append(('QInt', x))
    for _ in range(n):
        kind = rng.choice(['QSplit', 'QLstrip', 'QContains', 'QStarts', 'QIsdigit', 'QInt', 'QLines',
                           'QIndex'])
        if kind in ('QSplit', 'QLstrip'):
            out.append((kind, rs(16)))
        elif kind == 'QContains':
            x = rs(14, 'ab ')
            out.append((kind, rs(3, 'ab '), x))
        elif kind == 'QStarts':
            x = rs(8, 'ab ')
            out.append((kind, rng.choice([x[:rng.randint(0, 4)], rs(3, 'ab ')]), x))
        elif kind == 'QIsdigit':
            out.append((kind, rs(4, '0123456789a ')))
        elif kind == 'QInt':
            out.append((kind, rs(6, '0123456789_+- \t\x1c')))
        elif kind == 'QLines':
            out.append((kind, rs(12, 'ab\n\n \x0b\x0c')))
        else:
            toks = [rs(2, 'ab') for _ in range(rng.randint(0, 5))]
            out.append((kind, rng.choice(toks + ['a', 'ab']), toks))
    return out


def pystr_answer(q):
    kind = q[0]
    if kind == 'QSplit':
        return q[1].split()
    if kind == 'QLstrip':
        return q[1].lstrip()
    if kind == 'QContains':
        return q[1] in q[2]
    if kind == 'QStarts':
        return q[2].startswith(q[1])
    if kind == 'QIsdigit':
        return q[1].isdigit()
    if kind == 'QInt':
        try:
            return int(q[1])
        except ValueError:
            return None
    if kind == 'QLines':
        # iteration over a text file splits at \n only
        parts = q[1].split('\n')
        return [p + '\n' for p in parts[:-1]] + ([parts[-1]] if parts[-1] else [])
    try:
        return q[2].index(q[1])
    except ValueError:
        return None


def coq_pyq(q, ans):
    kind = q[0]
    if kind in ('QSplit', 'QLines'):
        return f'({kind} {cstr(q[1])} {clist([cstr(a) for a in ans])})'
    if kind == 'QLstrip':
        return f'({kind} {cstr(q[1])} {cstr(ans)})'
    if kind in ('QContains', 'QStarts'):
        return f'({kind} {cstr(q[1])} {cstr(q[2])} {cb(ans)})'
    if kind == 'QIsdigit':
        return f'({kind} {cstr(q[1])} {cb(ans)})'
    if kind == 'QInt':
        return f'({kind} {cstr(q[1])} {copt(ans, cz)})'
    return f'({kind} {cstr(q[1])} {clist([cstr(a) for a in q[2]])} {copt(ans, cn)})'


# --------------------------------------------------------------------------

def build_jobs(ctx):
    rng = ctx.rng
    quick = ctx.tier == 'quick'
    jobs = []
    watchdog = 90 if quick else 120     # wall clock: generous, a loaded machine must not look like a hang
    wdir = ctx.wd()
    if quick:
        examples = QUICK_EXAMPLES
    else:
        names = sorted(n for n in os.listdir(os.path.join(common.REPO, DATA))
                       if '.res' in n and os.path.getsize(os.path.join(common.REPO, DATA, n)) <= 200000)
        examples = [(n, 0, 0) for n in names]
    for name, stride, npar in examples:
        data = open(os.path.join(common.REPO, DATA, name), 'rb').read()
        if quick:
            offs = sorted(set(key_line_offsets(data, stride, rng, per_kind=2))
                          | boundary_and_tail_offsets(data, rng, max_boundaries=3))
            if name.startswith('ELECTRON'):
                offs = sorted(set(offs) | {9932, 10547})      # corpus: the reproduced defects
            tail = sorted(o for o in boundary_and_tail_offsets(data, rng, max_boundaries=2, nrandom_lines=0))
            poffs = sorted(set(rng.sample(offs, min(npar, len(offs))))
                           | set(rng.sample(tail, min(8, len(tail)))) | {len(data)})
            jobs.append((wdir, name.replace('.', '_'), data, offs, poffs, watchdog))
        else:
            # every byte of the file for the scanner, in chunks (one job and one Coq file each)
            pstride = 64 if len(data) <= 40000 else 512
            tail = boundary_and_tail_offsets(data, rng, max_boundaries=None, nrandom_lines=0)
            pall = sorted(set(range(rng.randrange(pstride), len(data), pstride)) | {len(data)}
                          | set(rng.sample(sorted(tail), min(60, len(tail)))))
            chunk = 25000
            for num, lo in enumerate(range(0, len(data) + 1, chunk)):
                offs = list(range(lo, min(lo + chunk, len(data) + 1)))
                poffs = [o for o in pall if lo <= o < lo + chunk]
                jobs.append((wdir, name.replace('.', '_') + (f'__{num}' if num else ''), data, offs, poffs,
                             watchdog))
        ctx.count('example_listings')
    # corpus: the defects of the pinned tree
    data = open(os.path.join(common.REPO, DATA, 'pertu_covariances.d.res.ceav5'), 'rb').read()
    iend = data.index(b'simulation time (s) : 27') + len(b'simulation time (s) : 27')
    jobs.append((wdir, 'corpus_pertu_endflag', data, list(range(iend - 30, iend + 3)),
                 list(range(iend - 4, iend + 2)), watchdog))
    for name, data in edition_variants(rng, common.REPO):
        offs = sorted(set(key_line_offsets(data, 700 if quick else 16, rng, per_kind=2 if quick else None))
                      | boundary_and_tail_offsets(data, rng, max_boundaries=3 if quick else None))
        poffs = sorted(rng.sample(offs, min(25 if quick else 600, len(offs)))) + [len(data)]
        jobs.append((wdir, name, data, offs, poffs, watchdog))
        ctx.count('edition_variant_listings')
    nsyn = 40 if quick else 150
    for idx in range(nsyn):
        name, data = synth_scanner_listing(rng, idx)
        offs = list(range(0, len(data) + 1))
        if quick and len(offs) > 50:
            offs = sorted(set(rng.sample(offs, 50)) | set(key_line_offsets(data, 0, rng, per_kind=0))
                          | boundary_and_tail_offsets(data, rng, max_boundaries=2, nrandom_lines=5))
        poffs = sorted(rng.sample(offs, min(3, len(offs))))
        jobs.append((wdir, name, data, offs, poffs, watchdog))
        ctx.count('synthetic_scanner_listings')
    return jobs


def changed_keys(out):
    '''batch numbers whose block, and (flag, batch) whose time, are stored more
    than once with different contents while the complete listing is read (seen
    on the line-boundary prefixes after every line that can store something):
    for those "the block of the same key in the complete listing" is not what
    an earlier prefix saw, and the comparison with the complete listing is
    left to the model (whose theorem is about store events)'''
    blocks, times = {}, {}
    for off in out['snapshots']:
        obs = out['bound'][off]
        for key, _, dig in obs.get('coll', []):
            blocks.setdefault(key, set()).add(dig)
        for flag, bnum, tim in obs.get('times', []):
            times.setdefault((flag, bnum), set()).add(tim)
    return ({k for k, v in blocks.items() if len(v) > 1},
            {k for k, v in times.items() if len(v) > 1})


def oracle_and_cases(ctx, job, out, sfx):
    '''property oracle on every real run; returns the Coq definitions of the
    listing, the call that checks its cases and the case index'''
    name = out['name']
    lst = out['listing']
    full = out['full_scan']
    fcoll = dict((k, dig) for k, _, dig in full.get('coll', []))
    ftimes = dict(((f, b), t) for f, b, t in full.get('times', []))
    rep_blocks, rep_times = changed_keys(out)
    if rep_blocks or rep_times:
        ctx.count('listings_with_restored_batch')
    cases, index = [], []
    pcases, pindex = [], []
    obs_ids, obs_list = {}, []

    def obs_id(obs):
        lit = coq_obs(obs)
        if lit not in obs_ids:
            obs_ids[lit] = len(obs_list)
            obs_list.append(lit)
        return obs_ids[lit]
    fparse = {}
    for item in out['full_parse']['sel']:
        if 'ok' in item:
            fparse[item['bn']] = item
    # global parser state: the complete listing parsed first and last in the worker
    for a, b in zip(out['full_parse']['sel'], out['full_parse_again']['sel']):
        if a.get('ok') != b.get('ok') or a.get('exc') != b.get('exc'):
            ctx.oracle_failure(f'parsing {name} twice in one process gives different results '
                               f':: {a.get("sel")}', {'listing': name, 'offset': len(job[2])},
                               key='parse-depends-on-history')
    for off in job[3]:
        obs = out['scan'][off]
        case = {'listing': name, 'offset': off}
        if name.startswith('synth') or name.startswith('variant'):
            case['data_hex'] = job[2].hex() if len(job[2]) < 4000 else None
        where = f'{name} cut at byte {off}'
        nontrivial = False
        if not obs['is_prefix']:
            ctx.oracle_failure(f'decoded text of the prefix is not a prefix of the decoded text :: {where}',
                               case, key='decode-not-monotone')
        if 'exc' in obs:
            ctx.count('scan_' + obs['exc'])
            if obs['exc'] != 'ScannerException':
                ctx.oracle_failure(f'Scanner raises {obs["exc"]} on a truncated listing :: {where}',
                                   case, key='scanner-raises-' + obs['exc'])
        else:
            ctx.count('scan_ok_%d_editions' % min(len(obs['coll']), 3))
            nontrivial = bool(obs['coll']) and off < len(job[2])
            pdig = [(k, dig) for k, _, dig in obs['coll']]
            # (1) the unterminated last line contributes no block and no time
            bnd = out['bound'][obs['boundary']]
            if 'exc' in bnd or [(k, d) for k, _, d in bnd['coll']] != pdig \
                    or sorted(map(tuple, bnd['times']), key=repr) != sorted(map(tuple, obs['times']), key=repr):
                ctx.oracle_failure('blocks or times differ from those of the same listing cut at the '
                                   f'previous line boundary (a partial line was interpreted) :: {where}',
                                   case, key='partial-line-interpreted')
            # (2) every stored block / time is the one of the complete listing
            #     (nothing to compare with when the complete listing itself is unusable)
            if 'exc' in full:
                ctx.count('complete_listing_unusable')
                pdig_cmp, times_cmp = [], []
            else:
                pdig_cmp, times_cmp = pdig, obs['times']
            for key, dig in pdig_cmp:
                if fcoll.get(key) == dig:
                    continue
                if key in rep_blocks:
                    ctx.count('oracle_left_to_model_restored_batch')
                    continue
                ctx.oracle_failure(f'block of batch {key} differs from the block of the complete '
                                   f'listing (or does not exist there) :: {where}', case,
                                   key='block-differs')
            for flag, bnum, tim in times_cmp:
                if (flag, bnum) in ftimes and ftimes[(flag, bnum)] == tim:
                    continue
                if (flag, bnum) in rep_times and full.get('partial'):
                    # a PARTIAL EDITION takes the last time printed: a prefix may hold an earlier one
                    ctx.count('oracle_left_to_model_restored_batch')
                    continue
                # (a time printed twice for an edition: the first one is the edition's, whatever follows)
                ctx.oracle_failure(f'time {flag} of batch {bnum} = {tim} differs from the complete '
                                   f'listing ({ftimes.get((flag, bnum))}) :: {where}', case,
                                   key='time-differs')
        k, j = lst.locate(out['text'][:obs['ptext_len']])
        oid = obs_id(obs)
        pob = out['parse'].get(off)
        if pob is not None:
            ctx.count('through_full_parser')
            opened = pob['open']
            if opened is not None:
                ctx.count('parser_' + opened)
                if opened != 'ParserException':
                    what = 'hangs' if opened == 'HANG' else f'raises {opened}'
                    ctx.oracle_failure(f'Parser(path) {what} :: {where}', case,
                                       key='parser-open-' + opened)
                pcases.append('(%s, %s, %s, (None, GRaise 1%%nat, %s))'
                              % (cN(k), cN(j), cN(oid), coq_pobs(None, opened)))
                pindex.append(case)
            elif 'exc' in obs or not obs['coll']:
                ctx.oracle_failure(f'Parser(path) succeeds although the scan keeps no edition :: {where}',
                                   case, key='parser-open-without-edition')
            for item in pob['sel']:
                if 'exc' in item:
                    ctx.count('parse_' + item['exc'])
                    if item['exc'] != 'ParserException':
                        what = 'hangs' if item['exc'] == 'HANG' else f'raises {item["exc"]}'
                        ctx.oracle_failure(f'parsing edition {item["sel"]} {what} :: {where}', case,
                                           key='parse-raises-' + item['exc'])
                else:
                    ctx.count('parse_ok')
                    nontrivial = True
                    bnum = item['bn']
                    ref = fparse.get(bnum)
                    restored = bnum in rep_blocks or any(b == bnum for _, b in rep_times)
                    blk_same = dict(pdig).get(bnum) == fcoll.get(bnum)
                    if item['sel'] is not None and item['sel'] != bnum:
                        ctx.oracle_failure(f'edition {item["sel"]} requested, {bnum} returned :: {where}',
                                           case, key='wrong-edition')
                    if ref is None:
                        if not restored:
                            ctx.oracle_failure(f'edition {bnum} parses in the truncated listing but not '
                                               f'in the complete one :: {where}', case,
                                               key='only-truncated-parses')
                    elif ref['ok'] != item['ok']:
                        no_ela = [t for t in ref['times'] if t[0] != 2]
                        if blk_same and ref['times'] != item['times'] and no_ela == item['times']:
                            ctx.oracle_failure(
                                f'edition {bnum} of a truncated parallel listing lacks the elapsed '
                                f'time printed after its end flag :: {where}', case,
                                key='elapsed-time-after-cut')
                        elif restored and not blk_same:
                            ctx.count('oracle_left_to_model_restored_batch')
                        else:
                            ctx.oracle_failure(f'results of edition {bnum} differ from those of the '
                                               f'complete listing :: {where}', case,
                                               key='edition-results-differ')
                pcases.append('(%s, %s, %s, (%s, %s, %s))'
                              % (cN(k), cN(j), cN(oid), copt(item['sel'], cz),
                                 coq_gobs(item.get('gram')), coq_pobs(item, None)))
                pindex.append(case)
        cases.append('(%s, %s, %s)' % (cN(k), cN(j), cN(oid)))
        index.append(case)
        ctx.case_seen({'listing': name, 'offset': off, 'bytes': len(job[2])}, nontrivial,
                      sample_every=1499)
    defs = (lst.coq_defs(sfx)
            + f'Definition obss{sfx} : list obs := [\n ' + ';\n '.join(obs_list) + '].\n'
            + f'Definition cases{sfx} : list case := [\n ' + ';\n '.join(cases) + '].\n'
            + f'Definition pcases{sfx} : list pcase := [\n ' + ';\n '.join(pcases) + '].\n')
    call = (f'check_listing uniq{sfx} cids{sfx} {cb(lst.last_nl)} blocks{sfx} obss{sfx} '
            f'cases{sfx} pcases{sfx}')
    return defs, call, index + pindex


def run(ctx):
    common.import_repo()
    import logging
    logging.disable(logging.CRITICAL)
    ctx.rule = ('byte prefixes of example listings (every byte of the lines the scanner interprets, a '
                'stride elsewhere), of edition variants the grammar accepts and of synthetic scanner '
                'listings (mono/para, repeated batch numbers, partial editions, CRLF, no final newline); '
                'histories of parses in two or three threads that stay alive (grammar-refused listings '
                'first, then accepted ones in another thread; the reverse; alternating), each parse under a '
                'watchdog; non-trivial = a strict prefix whose scan keeps at least one edition, or a parse '
                'that succeeds (after another parse, for a history); distinct by (listing, offset) / steps')
    jobs = build_jobs(ctx)
    t0 = time.time()
    started = start_generated_histories(ctx)     # in their own processes, next to the prefix sweep
    with multiprocessing.get_context('fork').Pool(min(common.NPROC, 14)) as pool:
        outs = pool.map(worker, jobs, chunksize=1)
    run_thread_histories(ctx)
    finish_generated_histories(ctx, started)
    ctx.extra['implementation_wall_s'] = round(time.time() - t0, 1)
    # which listings store a batch number twice: compare line-boundary prefixes (cheap, synthetic only)
    shards, indexes = [], []
    group = []          # small listings share a Coq file

    def flush():
        if group:
            shards.append(''.join(g[0] for g in group) + 'Eval vm_compute in bad_indices ('
                          + ' ++ '.join(g[1] for g in group) + ').')
            indexes.append([c for g in group for c in g[2]])
            del group[:]
    for num, (job, out) in enumerate(zip(jobs, outs)):
        defs, call, index = oracle_and_cases(ctx, job, out, f'_{num}')
        small = len(job[2]) < 5000
        if not small:
            shards.append(defs + f'Eval vm_compute in bad_indices ({call}).')
            indexes.append(index)
        else:
            group.append((defs, call, index))
            if len(group) >= 8:
                flush()
    flush()
    # CPython validation of the string functions of the model
    queries = pystr_queries(ctx.rng, 300 if ctx.tier == 'quick' else 3000)
    items = [coq_pyq(q, pystr_answer(q)) for q in queries]
    shards.append('Definition qs : list pyq := [\n ' + ';\n '.join(items) + '].\n'
                  'Eval vm_compute in bad_indices (map check_pyq qs).')
    ctx.count('pystr_queries', len(queries))
    t0 = time.time()
    res = common.coq_eval(ctx.pid, IMPORTS, shards)
    ctx.extra['model_wall_s'] = round(time.time() - t0, 1)
    for k, text in enumerate(res[:-1]):
        for i in common.parse_nat_list(text):
            case = indexes[k][i]
            ctx.mismatch(f'model and implementation disagree on {case["listing"]} cut at byte '
                         f'{case["offset"]}', case)
    for i in common.parse_nat_list(res[-1]):
        ctx.mismatch(f'Pystr.v differs from CPython on {queries[i]!r}', {'query': repr(queries[i])})
    ctx.extra['prefixes_scanned'] = sum(len(j[3]) for j in jobs)
    ctx.extra['prefixes_through_parser'] = sum(len(o['parse']) for o in outs)
    ctx.extra['listings'] = len(jobs)
    ctx.assumptions = [
        'open(..., encoding="utf-8", errors="ignore") of a byte prefix yields a prefix of the decoded '
        'text (checked on every prefix tried)',
        'parse_block (the pyparsing grammar) is a function of the block text (tested: complete listing '
        'parsed first and last in each worker process)',
        'the listing text is fed to the model as utf-8 bytes; bytes >= 128 are opaque characters']


def replay(ctx, path):
    common.import_repo()
    import logging
    logging.disable(logging.CRITICAL)
    data = json.load(open(path))
    case = data['case']
    if case.get('kind') == 'generated-history':
        print('history', case['mode'], 'seed', case['seed'], '(regenerated from the seed)')
        with multiprocessing.get_context('fork').Pool(1, maxtasksperchild=1) as pool:
            failures, counts = pool.map(generated_history, [(ctx.wd(), case['id'], case['mode'], case['seed'],
                                                             common.REPO)])[0]
        print('counts:', counts)
        for what, key in failures:
            print('oracle:', key, '-', what)
        print('model: results are a function of the text of the listing (C11_prefix_parse_identical)')
        return 0
    if case.get('kind') == 'threads':
        print('history (thread, listing, cut):', case['steps'])
        with multiprocessing.get_context('fork').Pool(1, maxtasksperchild=1) as pool:
            res = pool.map(thread_history, [(ctx.wd(), 0, case['steps'], common.REPO, 30)])[0]
        for step, out in zip(case['steps'], res):
            print('impl:', step, '->', out[0])
        print('model: parse is a total function of the listing text (C11/Model.v): every step returns')
        return 0
    name, off = case['listing'], case['offset']
    if case.get('data_hex'):
        blob = bytes.fromhex(case['data_hex'])
    else:
        cand = [n for n in os.listdir(os.path.join(common.REPO, DATA))
                if n.replace('.', '_') == name.split('__')[0]]
        if name == 'corpus_pertu_endflag':
            cand = ['pertu_covariances.d.res.ceav5']
        if not cand:
            print('listing', name, 'is generated: re-run ./check C11 --seed', data.get('seed'))
            return 1
        blob = open(os.path.join(common.REPO, DATA, cand[0]), 'rb').read()
    wdir = ctx.wd()
    cut = os.path.join(wdir, 'replay.cut.res')
    with open(cut, 'wb') as fil:
        fil.write(blob[:off])
    print(f'{name}: {len(blob)} bytes, cut at {off}; last bytes of the prefix: {blob[max(0, off - 60):off]!r}')
    obs = scan_obs(cut)
    if 'coll' in obs:
        obs['coll'] = [[k, f'<{len(t)} chars, ends {t[-40:]!r}>'] for k, t in obs['coll']]
    print('impl scanner:', json.dumps(obs))
    pob = parser_obs(cut, ['last'], 60)
    print('impl parser :', json.dumps(pob))
    fullp = os.path.join(wdir, 'replay.full.res')
    with open(fullp, 'wb') as fil:
        fil.write(blob)
    lst = Listing(read_text(fullp))
    k, j = lst.locate(read_text(cut))
    body = (lst.coq_defs() + 'Definition lines := tagged_lines uniq cids ' + cb(lst.last_nl) + '.\n'
            + f'Eval vm_compute in match close_scan (model_prefix (scanl (OkS init_st) lines) lines '
            f'(N.of_nat (List.length uniq)) {k}%N {j}%N) with Ok s => Ok (map fst (s_coll s), s_times s, s_partial s) '
            '| Err e => Err e end.')
    print('model       :', common.coq_eval(ctx.pid, IMPORTS, [body])[0])
    return 0

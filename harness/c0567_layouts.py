'''Memory layouts for the arrays handed to valjean by the C05/C06/C07 drivers.

The logical content of an array (its elements in C order and its shape) is what
a case records; the same content can be presented to the code as a C-ordered,
Fortran-ordered, axis-permuted, strided (also negatively strided), read-only or
broadcast (read-only, zero strides) numpy array.  Expected results never depend
on the layout.'''
import numpy as np

KINDS = ['C', 'F', 'P', 'S', 'N', 'R', 'B']


def pick(rng, shape, plain=0.45):
    '''layout kind for an array of this shape ('C' for scalars)'''
    if not shape:
        return 'C'
    if rng.random() < plain:
        return 'C'
    return rng.choice(KINDS[1:])


def apply(arr, kind):
    '''same shape, same elements, other memory layout; falls back to 'F'/'C'
    when a kind is not applicable (e.g. 'B' on a non-constant array)'''
    arr = np.asarray(arr)
    if arr.ndim == 0 or kind == 'C':
        return arr
    if kind == 'B':
        flat = arr.reshape(-1)
        first = flat[0]
        same = bool(np.all(flat == first)) or bool(np.all(flat != flat))
        if same:
            return np.broadcast_to(arr.dtype.type(first), arr.shape)      # read-only, strides 0
        kind = 'F'
    if kind == 'F':
        out = np.asfortranarray(arr)
        if arr.ndim == 1:                         # 1-d: F == C; use a strided view instead
            kind = 'S'
        else:
            return out
    if kind == 'P':                               # axes stored in rotated order
        if arr.ndim < 2:
            kind = 'N'
        else:
            return np.moveaxis(np.ascontiguousarray(np.moveaxis(arr, 0, -1)), -1, 0)
    if kind == 'S':                               # every second element of a wider buffer
        big = np.full(arr.shape[:-1] + (2 * arr.shape[-1] + 1,), 7, dtype=arr.dtype)
        big[..., 1::2] = arr
        return big[..., 1::2]
    if kind == 'N':                               # negative stride along the first axis
        return np.ascontiguousarray(arr[::-1])[::-1]
    if kind == 'R':
        out = np.array(arr, copy=True)
        out.setflags(write=False)
        return out
    return arr


def describe(arr):
    arr = np.asarray(arr)
    if arr.ndim == 0:
        return 'scalar'
    f = arr.flags
    if 0 in arr.strides and arr.size > 1:
        return 'broadcast'
    if not f.writeable:
        return 'readonly'
    if f.c_contiguous and f.f_contiguous:
        return 'contiguous'
    if f.c_contiguous:
        return 'c'
    if f.f_contiguous:
        return 'fortran'
    if any(s < 0 for s in arr.strides):
        return 'negative_stride'
    return 'strided'


# --------------------------------------------------------------------------
# round 5: integer dtypes and masks are presentations of the same numbers too

INT_VALUE_DTYPES = ['int64', 'int32']                      # numpy keeps float64 accuracy for these
INT_ERROR_DTYPES = ['int64', 'int32', 'uint32', 'uint64']   # (sqrt of int16/int8 is float32/float16)


def cast(arr, dtype):
    '''the same numbers with an integer dtype when they are integers in range, else unchanged'''
    if not dtype or dtype == 'float64':
        return arr
    a = np.asarray(arr, dtype=float)
    limit = 2 ** 30 if dtype in ('int64', 'uint64', 'pyint') else 30000     # squares must not wrap around
    if not np.all(np.isfinite(a)) or np.any(a != np.round(a)) or np.any(np.abs(a) > limit) \
            or (dtype.startswith('u') and np.any(a < 0)):
        return arr
    if np.ndim(arr) == 0:
        return int(a) if dtype == 'pyint' else np.dtype(dtype).type(int(a))
    return a.astype(dtype)


def make_dataset(Dataset, shape, values, errors, kinds=('C', 'C'), dtypes=None, mask=None):
    '''Dataset with the given logical content (flat lists of floats, C order), presented with the
    given memory layouts, dtypes ('pyint' = Python int scalar) and, if not None, masked through
    Dataset.mask(mask) (flat list of 0/1)'''
    shape = tuple(shape)
    dtypes = dtypes or (None, None)

    def arr(flat, kind, dtype):
        if not shape:
            out = cast(np.float64(flat[0]), dtype)
            return out
        return apply(cast(np.array(flat, dtype=float).reshape(shape), dtype), kind)
    dset = Dataset(arr(values, kinds[0], dtypes[0]), arr(errors, kinds[1], dtypes[1]))
    if mask is not None and shape:
        dset = dset.mask(np.array(mask, dtype=bool).reshape(shape))
    return dset


# --------------------------------------------------------------------------
# round 7: numeric types of the scalar arguments (ndf, alpha) are presentations too

NDF_TYPES = ['int', 'int64', 'int32', 'int16', 'uint8', 'intp', 'float', 'float64', 'float32', 'array0', 'farray0', 'bool']
ALPHA_TYPES = ['float', 'float64', 'float32', 'array0']


def scalar(value, typ):
    '''the number `value` as an object of the given numeric type (None stays None); falls back to the
    plain Python number when the type cannot hold the value exactly'''
    if value is None or not typ or typ in ('int', 'float') and not isinstance(value, bool):
        if typ == 'float' and value is not None:
            return float(value)
        return value
    if typ == 'bool':
        return True if value == 1 else value
    if typ == 'array0':
        return np.array(value)
    if typ == 'farray0':
        return np.array(float(value))
    obj = np.dtype(typ).type(value)
    return obj if float(obj) == float(value) else value


def pick_ndf_type(rng, ndf):
    if ndf is None or rng.random() < 0.5:
        return 'int'
    typ = rng.choice(NDF_TYPES[1:])
    if typ == 'uint8' and ndf > 255 or typ == 'int16' and ndf > 32767 or typ == 'bool' and ndf != 1 \
            or typ == 'float32' and ndf > 2 ** 24:
        return 'int64'
    return typ


# --------------------------------------------------------------------------
# round 7: in-place edits of the input arrays between two evaluations

def writable_datasets(Dataset, case, unbits, rng):
    '''datasets of a float, unmasked, non-scalar case built on WRITABLE arrays; the error array of one
    dataset is a slice of a larger parent array.  Returns (datasets, parent, index of its dataset)'''
    shape = tuple(case['shape'])
    lay = case.get('layouts') or []
    owner = rng.randrange(len(case['datasets']))
    dsets, parent = [], None
    for k, (v, e) in enumerate(case['datasets']):
        kv, ke = lay[k] if k < len(lay) else ('C', 'C')
        kv, ke = [x if x in ('C', 'F', 'P', 'S', 'N') else 'C' for x in (kv, ke)]
        val = np.array(apply(np.array([unbits(b) for b in v], dtype=float).reshape(shape), kv), copy=False)
        err = apply(np.array([unbits(b) for b in e], dtype=float).reshape(shape), ke)
        if k == owner:
            parent = np.full(shape[:-1] + (shape[-1] + 2,), 9.0)
            parent[..., 1:-1] = err
            err = parent[..., 1:-1]
        if not val.flags.writeable:
            val = val.copy()
        dsets.append(Dataset(val, err))
    return dsets, parent, owner


def edit_in_place(dsets, parent, owner, rng):
    '''one in-place edit of an input array; returns its description'''
    k = rng.randrange(len(dsets))
    dset = dsets[k]
    err = np.asarray(dset.error)
    fin = err[np.isfinite(err) & (err > 0)]
    typical = float(np.median(fin)) if fin.size else 1.0
    op = rng.choice(['scale', 'item', 'fillzeros', 'value_add', 'parent', 'scale', 'item'])
    if op == 'fillzeros' and not np.any(err == 0):
        op = 'scale'
    if op == 'scale':
        dset.error *= 2.5
    elif op == 'item':
        idx = tuple(rng.randrange(n) for n in err.shape)
        dset.error[idx] = rng.choice([0.3 * typical, 3.1 * typical, 0.0])
    elif op == 'fillzeros':
        dset.error[dset.error == 0] = 0.7 * typical
    elif op == 'value_add':
        dset.value += 0.9 * typical
    else:
        k = owner
        parent[..., 1] = 1.9 * typical          # write through the parent of the error view
    return f'{op} on dataset {k}'


def current_numbers(dsets, bits):
    return [[[bits(x) for x in np.asarray(d.value, dtype=float).reshape(-1)],
             [bits(x) for x in np.asarray(d.error, dtype=float).reshape(-1)]] for d in dsets]

'''Memory layouts for the arrays handed to valjean by the C05/C06/C07 drivers.

The logical content of an array (its elements in C order and its shape) is what
a case records; the same content can be presented to the code as a C-ordered,
Fortran-ordered, axis-permuted, strided (also negatively strided), read-only or
broadcast (read-only, zero strides) numpy array.  Expected results never depend
on the layout.'''
import numpy as np

KINDS = ['C', 'F', 'P', 'S', 'N', 'R', 'B']


def pick(rng, shape, plain=0.45):
    '''layout kind for an array of this shape ('C' for scalars)'''
    if not shape:
        return 'C'
    if rng.random() < plain:
        return 'C'
    return rng.choice(KINDS[1:])


def apply(arr, kind):
    '''same shape, same elements, other memory layout; falls back to 'F'/'C'
    when a kind is not applicable (e.g. 'B' on a non-constant array)'''
    arr = np.asarray(arr)
    if arr.ndim == 0 or kind == 'C':
        return arr
    if kind == 'B':
        flat = arr.reshape(-1)
        first = flat[0]
        same = bool(np.all(flat == first)) or bool(np.all(flat != flat))
        if same:
            return np.broadcast_to(arr.dtype.type(first), arr.shape)      # read-only, strides 0
        kind = 'F'
    if kind == 'F':
        out = np.asfortranarray(arr)
        if arr.ndim == 1:                         # 1-d: F == C; use a strided view instead
            kind = 'S'
        else:
            return out
    if kind == 'P':                               # axes stored in rotated order
        if arr.ndim < 2:
            kind = 'N'
        else:
            return np.moveaxis(np.ascontiguousarray(np.moveaxis(arr, 0, -1)), -1, 0)
    if kind == 'S':                               # every second element of a wider buffer
        big = np.full(arr.shape[:-1] + (2 * arr.shape[-1] + 1,), 7, dtype=arr.dtype)
        big[..., 1::2] = arr
        return big[..., 1::2]
    if kind == 'N':                               # negative stride along the first axis
        return np.ascontiguousarray(arr[::-1])[::-1]
    if kind == 'R':
        out = np.array(arr, copy=True)
        out.setflags(write=False)
        return out
    return arr


def describe(arr):
    arr = np.asarray(arr)
    if arr.ndim == 0:
        return 'scalar'
    f = arr.flags
    if 0 in arr.strides and arr.size > 1:
        return 'broadcast'
    if not f.writeable:
        return 'readonly'
    if f.c_contiguous and f.f_contiguous:
        return 'contiguous'
    if f.c_contiguous:
        return 'c'
    if f.f_contiguous:
        return 'fortran'
    if any(s < 0 for s in arr.strides):
        return 'negative_stride'
    return 'strided'


# --------------------------------------------------------------------------
# round 5: integer dtypes and masks are presentations of the same numbers too

INT_VALUE_DTYPES = ['int64', 'int32']                      # numpy keeps float64 accuracy for these
INT_ERROR_DTYPES = ['int64', 'int32', 'uint32', 'uint64']   # (sqrt of int16/int8 is float32/float16)


def cast(arr, dtype):
    '''the same numbers with an integer dtype when they are integers in range, else unchanged'''
    if not dtype or dtype == 'float64':
        return arr
    a = np.asarray(arr, dtype=float)
    limit = 2 ** 30 if dtype in ('int64', 'uint64', 'pyint') else 30000     # squares must not wrap around
    if not np.all(np.isfinite(a)) or np.any(a != np.round(a)) or np.any(np.abs(a) > limit) \
            or (dtype.startswith('u') and np.any(a < 0)):
        return arr
    if np.ndim(arr) == 0:
        return int(a) if dtype == 'pyint' else np.dtype(dtype).type(int(a))
    return a.astype(dtype)


def make_dataset(Dataset, shape, values, errors, kinds=('C', 'C'), dtypes=None, mask=None):
    '''Dataset with the given logical content (flat lists of floats, C order), presented with the
    given memory layouts, dtypes ('pyint' = Python int scalar) and, if not None, masked through
    Dataset.mask(mask) (flat list of 0/1)'''
    shape = tuple(shape)
    dtypes = dtypes or (None, None)

    def arr(flat, kind, dtype):
        if not shape:
            out = cast(np.float64(flat[0]), dtype)
            return out
        return apply(cast(np.array(flat, dtype=float).reshape(shape), dtype), kind)
    dset = Dataset(arr(values, kinds[0], dtypes[0]), arr(errors, kinds[1], dtypes[1]))
    if mask is not None and shape:
        dset = dset.mask(np.array(mask, dtype=bool).reshape(shape))
    return dset

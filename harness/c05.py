'''C05: Student test.  Implementation (valjean.gavroche.stat_tests.student)
vs Coq model C05/Model.v, plus the property oracle (Python floats and
scipy.special as ground truth) incl. the metamorphic clauses (symmetry,
rescaling, monotonicity) evaluated on real runs.'''
import json
import math
import time

import numpy as np

import c0567_layouts as layouts
from vp import common
from vp.common import cz, cb, clist

IMPORTS = '''From Coq Require Import List ZArith.
From VV Require Import Lib.Base Lib.B64 C05.Model.
Import ListNotations.
'''

NAN = float('nan')
INF = float('inf')
ALPHAS = [0.001, 0.01, 0.05, 0.1, 0.5]
NDFS = [None, 1, 2, 3, 5, 10, 1000, 10001, 10 ** 6]       # every class of degrees of freedom
BAND = 1e-9


def bits(x):
    return common.canon_bits(x)


def unbits(n):
    return common.bits_f64(n)


# --------------------------------------------------------------------------
# running the implementation

def make_datasets(case, sets=None):
    '''datasets of the case.  Presentation only (same numbers): case['layouts'][k] = memory layouts
    [values, errors] of dataset k, case['dtypes'][k] = integer dtypes, case['masks'][k] = mask given to
    Dataset.mask() (flat 0/1 list) or None'''
    from valjean.eponine.dataset import Dataset
    lay = case.get('layouts') or []
    dty = case.get('dtypes') or []
    msk = case.get('masks') or []
    use_masks = sets is None
    out = []
    for k, (v, e) in enumerate(sets if sets is not None else case['datasets']):
        out.append(layouts.make_dataset(
            Dataset, case['shape'], [unbits(b) for b in v], [unbits(b) for b in e],
            lay[k] if k < len(lay) else ('C', 'C'), dty[k] if k < len(dty) else None,
            msk[k] if use_masks and k < len(msk) else None))
    return out


def scalar_args(case):
    '''alpha and ndf as the numeric objects the case asks for (same numbers)'''
    return {'alpha': layouts.scalar(case['alpha'], case.get('alpha_type')),
            'ndf': layouts.scalar(case['ndf'], case.get('ndf_type'))}


def plain_number(x):
    '''a numeric scalar of any type as None / int / float (for the observation)'''
    if x is None:
        return None
    val = float(np.asarray(x))
    return int(val) if val == int(val) else val


def expected_masks(case):
    '''per compared dataset: bins masked on either side (flat list of bool), or None'''
    msk = case.get('masks') or []
    if not any(m is not None for m in msk):
        return None
    size = len(case['datasets'][0][0])
    get = lambda k: [bool(x) for x in msk[k]] if k < len(msk) and msk[k] is not None else [False] * size
    ref = get(0)
    return [[a or b for a, b in zip(ref, get(d + 1))] for d in range(len(case['datasets']) - 1)]


def observe(test, res, shape):
    '''canonical observation of a (test, result) pair'''
    ndat = len(test.datasets)
    oracles = np.asarray(res.oracles())
    tpv = res.test_pvalue()
    obs = {'thr': bits(test.threshold), 'verdict': bool(res), 'datasets': [],
           'alpha': bits(np.asarray(test.alpha, dtype=float)), 'ndf': plain_number(test.ndf)}
    if len(res.tstud) != ndat or oracles.shape != (ndat,) + shape \
            or not isinstance(tpv, (list, tuple, np.ndarray)) or len(tpv) != ndat \
            or len(res.pvalue) != ndat:
        obs['malformed'] = (f'tstud {len(res.tstud)}, oracles {oracles.shape}, '
                            f'test_pvalue() = {tpv if not isinstance(tpv, (list, tuple, np.ndarray)) else len(tpv)!r}')
        return obs
    for d in range(ndat):
        tst = np.asarray(res.tstud[d], dtype=float)
        pvl = np.asarray(res.pvalue[d], dtype=float)
        pdc = np.asarray(tpv[d])
        if tst.shape != shape or pvl.shape != shape or pdc.shape != shape:
            obs['malformed'] = f'shapes {tst.shape} {pvl.shape} {pdc.shape} for {shape}'
            return obs
        obs['datasets'].append({
            't': [bits(x) for x in tst.reshape(-1)],
            'tmask': [bool(x) for x in np.ma.getmaskarray(res.tstud[d]).reshape(-1)],
            'oracles': [bool(x) for x in oracles[d].reshape(-1)],
            'p': [bits(x) for x in pvl.reshape(-1)],
            'pdec': [bool(x) for x in pdc.reshape(-1)]})
    return obs


def run_impl(case, sets=None):
    '''canonical observation (dict) or {'raise': class name}'''
    from valjean.gavroche.stat_tests.student import TestStudent
    shape = tuple(case['shape'])
    try:
        with np.errstate(all='ignore'):
            dsets = make_datasets(case, sets)
            test = TestStudent(*dsets, name='student', **scalar_args(case))
            res = test.evaluate()
            return observe(test, res, shape)
    except Exception as exc:  # noqa
        return {'raise': type(exc).__name__}


def round_trips(ctx, case, obs):
    '''state round trips: a copy / deep copy / pickle round trip of the TEST evaluated afterwards, the
    same round trips of its RESULT read afterwards, and an environment holding the result written
    with Env.to_file and read back with Env.from_file -- each must read exactly as the direct
    evaluation (verdict, oracles, p-value decision, t, p, alpha, ndf, threshold)'''
    import copy
    import os
    import pickle
    from valjean.gavroche.stat_tests.student import TestStudent
    shape = tuple(case['shape'])
    tag = f' :: {json.dumps(case)[:600]}'
    route = 'construction'
    try:
        with np.errstate(all='ignore'):
            test = TestStudent(*make_datasets(case), name='student', **scalar_args(case))
            res = test.evaluate()
            routes = [('copy.copy of the test, then evaluate', lambda: (lambda t: (t, t.evaluate()))(copy.copy(test))),
                      ('copy.deepcopy of the test, then evaluate',
                       lambda: (lambda t: (t, t.evaluate()))(copy.deepcopy(test))),
                      ('pickle round trip of the test, then evaluate',
                       lambda: (lambda t: (t, t.evaluate()))(pickle.loads(pickle.dumps(test)))),
                      ('copy.copy of the result', lambda: (lambda r: (r.test, r))(copy.copy(res))),
                      ('copy.deepcopy of the result', lambda: (lambda r: (r.test, r))(copy.deepcopy(res))),
                      ('pickle round trip of the result',
                       lambda: (lambda r: (r.test, r))(pickle.loads(pickle.dumps(res))))]

            def env_route():
                from valjean.cosette.env import Env
                path = os.path.join(ctx.wd(), 'c05-env.pickle')
                Env({'student_task': {'result': [res], 'other': 1}}).to_file(path)
                back = Env.from_file(path)
                os.unlink(path)
                got = back['student_task']['result'][0]
                return got.test, got
            routes.append(('Env.to_file / Env.from_file of an environment holding the result', env_route))
            for route, fun in routes:
                tst, rsl = fun()
                got = observe(tst, rsl, shape)
                if got != obs:
                    diff = [k for k in obs if obs[k] != got.get(k)]
                    ctx.oracle_failure(
                        f'after {route} the comparison reads differently ({diff}: threshold '
                        f'{unbits(obs["thr"])!r} -> {unbits(got["thr"])!r}, verdict {obs["verdict"]} -> '
                        f'{got["verdict"]})' + tag, dict(case, route=route), key='state-round-trip')
                    return
            if observe(test, res, shape) != obs:
                ctx.oracle_failure('the original test / result changed during the round trips' + tag, case,
                                   key='state-round-trip-original')
    except Exception as exc:  # noqa
        ctx.oracle_failure(f'state round trip ({route}) raises {type(exc).__name__}' + tag,
                           dict(case, route=route), key='state-round-trip-raises')


def inplace_history(ctx, case, obs):
    '''evaluate; edit an input array IN PLACE (error scaled, one error set, zero errors filled in,
    values shifted, a write through the parent array of which the error is a slice); evaluate the
    same test again and a brand-new test on the same dataset objects: both must read exactly as fresh
    datasets built from copies of the current numbers'''
    from valjean.eponine.dataset import Dataset
    from valjean.gavroche.stat_tests.student import TestStudent
    if not case['shape'] or case.get('masks') or case.get('dtypes'):
        return
    shape = tuple(case['shape'])
    tag = f' :: {json.dumps(case)[:600]}'
    steps = []
    try:
        with np.errstate(all='ignore'):
            dsets, parent, owner = layouts.writable_datasets(Dataset, case, unbits, ctx.rng)
            new_test = lambda: TestStudent(*dsets, name='student', **scalar_args(case))
            test = new_test()
            if observe(test, test.evaluate(), shape) != obs:
                ctx.oracle_failure('the same numbers on writable arrays give another result' + tag, case,
                                   key='inplace-first')
                return
            for _ in range(ctx.rng.choice([1, 2])):
                steps.append(layouts.edit_in_place(dsets, parent, owner, ctx.rng))
                ncase = dict(case, datasets=layouts.current_numbers(dsets, bits))
                fresh = run_impl(ncase)
                for what, tst in (('the same test evaluated again', test), ('a new test on the same datasets',
                                                                            new_test())):
                    got = observe(tst, tst.evaluate(), shape)
                    if got != fresh:
                        ctx.oracle_failure(
                            f'after the in-place edits {steps}, {what} does not read as fresh datasets with the '
                            f'current numbers (t {[unbits(b) for b in got["datasets"][0]["t"]][:6]} instead of '
                            f'{[unbits(b) for b in fresh.get("datasets", [{"t": []}])[0]["t"]][:6]}, verdict '
                            f'{got["verdict"]} / {fresh.get("verdict")})' + tag,
                            dict(ncase, before=case['datasets'], edits=steps), key='inplace-edit')
                        return
    except Exception as exc:  # noqa
        ctx.oracle_failure(f'in-place history {steps} raises {type(exc).__name__}' + tag, case,
                           key='inplace-raises')


def history(ctx, case, obs):
    '''the user's TestStudent object is evaluated, wrapped in Bonferroni / Holm-Bonferroni tests that
    are evaluated (in any order, possibly several times), evaluated again; after every step the
    FIRST result object and the test's alpha / ndf / threshold must read what they read at the start,
    a new evaluation must give an equal result, and earlier correction results must not change'''
    from valjean.gavroche.stat_tests.student import TestStudent
    from valjean.gavroche.stat_tests.bonferroni import TestBonferroni, TestHolmBonferroni
    rng = ctx.rng
    shape = tuple(case['shape'])
    ops = [rng.choice(['bonf', 'holm', 'student', 'bonf', 'holm']) for _ in range(rng.randint(2, 5))]
    walphas = [rng.choice([case['alpha'], 0.01, 0.2, 0.5]) for _ in ops]
    tag = f' (history: evaluate, then {list(zip(ops, walphas))}) :: {json.dumps(case)[:600]}'
    hcase = dict(case, history=[list(x) for x in zip(ops, walphas)])
    try:
        with np.errstate(all='ignore'):
            test = TestStudent(*make_datasets(case), name='student', **scalar_args(case))
            first = test.evaluate()
            start = observe(test, first, shape)
            if start != obs:
                ctx.oracle_failure('two identical Student tests give different results' + tag, hcase,
                                   key='history-nondeterministic')
                return
            wrappers, wresults = {}, []
            for op, walpha in zip(ops, walphas):
                if op == 'student':
                    again = observe(test, test.evaluate(), shape)
                    if again != start:
                        ctx.oracle_failure('re-evaluating the same Student test gives another result' + tag,
                                           hcase, key='history-reevaluation')
                        return
                else:
                    cls = TestBonferroni if op == 'bonf' else TestHolmBonferroni
                    wrp = wrappers.setdefault((op, walpha), cls(name=op, test=test, alpha=walpha))
                    wres = wrp.evaluate()
                    wresults.append((wres, bool(wres), [np.array(x, copy=True) for x in wres.rejected_null_hyp]))
                if observe(test, first, shape) != start:
                    now = observe(test, first, shape)
                    diff = [k for k in start if start[k] != now.get(k)]
                    ctx.oracle_failure(f'after step {op!r} the first Student result / its test read differently '
                                       f'({diff}: alpha {unbits(start["alpha"])!r} -> {unbits(now["alpha"])!r}, '
                                       f'verdict {start["verdict"]} -> {now["verdict"]})' + tag, hcase,
                                       key='history-earlier-result-changed')
                    return
                for wres, wbool, wflags in wresults:
                    if bool(wres) != wbool or not all(np.array_equal(a, b) for a, b in
                                                      zip(wres.rejected_null_hyp, wflags)):
                        ctx.oracle_failure('an earlier correction result changed' + tag, hcase,
                                           key='history-correction-changed')
                        return
    except Exception as exc:  # noqa
        ctx.oracle_failure(f'history raises {type(exc).__name__}' + tag, hcase, key='history-raises')


# --------------------------------------------------------------------------
# ground truth

def expected_threshold(alpha, ndf):
    from scipy import special
    if ndf is None:
        return abs(float(special.ndtri(alpha / 2)))
    return abs(float(special.stdtrit(ndf, alpha / 2)))


def expected_pvalue(tabs, ndf):
    from scipy import special
    if tabs != tabs:
        return NAN
    if ndf is None:
        return 2.0 * float(special.ndtr(-tabs))
    return 2.0 * float(special.stdtr(ndf, -tabs))


def expected_t(v1, e1, v2, e2, hypot=False):
    '''(v1 - v2) / quadratic sum of the errors, signed; documented conventions: 0/0 -> 0,
    equal values with both errors undefined -> 0, both values undefined -> 0.  The
    quadratic sum is sqrt(e1*e1 + e2*e2), or math.hypot (no spurious under/overflow).'''
    if v1 != v1 and v2 != v2:
        return 0.0
    with np.errstate(all='ignore'):
        num = float(np.float64(v1) - np.float64(v2))
    if e1 != e1 or e2 != e2:                       # an undefined error makes the bin undefined
        den = NAN
    elif math.isinf(e1) or math.isinf(e2):
        den = INF
    elif hypot:
        den = math.hypot(e1, e2)
    else:
        sq = e1 * e1 + e2 * e2
        den = math.sqrt(sq) if not math.isinf(sq) else INF
    if num == 0 and den == 0:
        return 0.0
    if num == 0 and e1 != e1 and e2 != e2:
        return 0.0
    if num != num or den != den:
        return NAN
    if den == 0:
        return math.copysign(INF, num)
    if math.isinf(num) and math.isinf(den):
        return NAN
    return num / den


def extreme_scale(case):
    '''some bin where e*e under/overflows so that sqrt(e1^2+e2^2) and hypot(e1,e2) differ'''
    ref_v, ref_e = [[unbits(b) for b in x] for x in case['datasets'][0]]
    for v, e in case['datasets'][1:]:
        for i, (bv, be) in enumerate(zip(v, e)):
            a = expected_t(ref_v[i], ref_e[i], unbits(bv), unbits(be))
            b = expected_t(ref_v[i], ref_e[i], unbits(bv), unbits(be), hypot=True)
            if not rel_close(a, b, 1e-14):
                return True
    return False


def rel_close(a, b, rtol):
    if a != a or b != b:
        return a != a and b != b
    if a == b:
        return True
    if math.isinf(a) or math.isinf(b):
        return False
    return abs(a - b) <= rtol * max(abs(a), abs(b))


def in_band(tabs, thr):
    '''|t| so close to the critical value that rounding may decide (scipy's sf and ppf are
    mutually consistent to ~1e-14 for every ndf class, measured)'''
    return tabs == tabs and not math.isinf(tabs) and abs(tabs - thr) <= 1e-10 * thr


def oracle(ctx, case, obs):
    tag = f' :: {json.dumps(case)[:700]}'
    if 'raise' in obs:
        ctx.oracle_failure('Student test raises ' + obs['raise'] + tag, case, key='raises')
        return False
    if 'malformed' in obs:
        ctx.oracle_failure('oracles / p-value decision are not reported per compared dataset and bin ('
                           + obs['malformed'] + ')' + tag, case, key='malformed')
        return False
    alpha, ndf = case['alpha'], case['ndf']
    if unbits(obs['alpha']) != alpha or obs['ndf'] != ndf:
        ctx.oracle_failure(f'the test reads alpha = {unbits(obs["alpha"])!r}, ndf = {obs["ndf"]!r}; requested '
                           f'{alpha!r}, {ndf!r}' + tag, case, key='requested-level')
        return False
    emasks = expected_masks(case)
    thr_exp = expected_threshold(alpha, ndf)
    thr = unbits(obs['thr'])
    if not rel_close(thr, thr_exp, 1e-9):
        ctx.oracle_failure(f'threshold {thr!r} is not the two-sided critical value {thr_exp!r}' + tag, case,
                           key='threshold')
        return False
    ref_v, ref_e = [[unbits(b) for b in x] for x in case['datasets'][0]]
    all_expected = True
    near = False
    for d, dobs in enumerate(obs['datasets']):
        dv, de = [[unbits(b) for b in x] for x in case['datasets'][d + 1]]
        for i in range(len(ref_v)):
            t = unbits(dobs['t'][i])
            p = unbits(dobs['p'][i])
            where = f'bin {i} of dataset {d}'
            if emasks and emasks[d][i] and not dobs['tmask'][i]:
                ctx.oracle_failure(f'{where}: masked in the datasets but its statistic is not masked' + tag,
                                   case, key='mask')
                return False
            if dobs['tmask'][i] and not emasks:
                ctx.oracle_failure(f'{where}: statistic masked although no dataset is masked' + tag, case,
                                   key='mask')
                return False
            # (numpy's masked division also masks bins whose quotient is not finite)
            if dobs['tmask'][i]:
                continue                     # a masked bin takes no part in the comparison
            texp = expected_t(ref_v[i], ref_e[i], dv[i], de[i])
            if not rel_close(t, texp, 1e-9):      # an overflow-free quadratic sum is as good
                thyp = expected_t(ref_v[i], ref_e[i], dv[i], de[i], hypot=True)
                texp = thyp if rel_close(t, thyp, 1e-9) else texp
            if not rel_close(t, texp, 1e-9):
                ctx.oracle_failure(f'{where}: t = {t!r}, expected (v1-v2)/sqrt(e1^2+e2^2) = {texp!r}' + tag,
                                   case, key='t-value')
                return False
            tabs = abs(texp)
            band = in_band(tabs, thr_exp)
            near = near or band
            want = tabs < thr_exp            # NaN -> False
            one_sided_nan = (ref_v[i] != ref_v[i]) != (dv[i] != dv[i])
            if one_sided_nan and (dobs['oracles'][i] or dobs['pdec'][i]):
                ctx.oracle_failure(f'{where}: value undefined on one side only and the bin passes' + tag,
                                   case, key='nan-one-side-passes')
                return False
            one_sided_nan_err = ((ref_e[i] != ref_e[i]) != (de[i] != de[i])) \
                and not (ref_v[i] != ref_v[i] and dv[i] != dv[i])
            if one_sided_nan_err and (dobs['oracles'][i] or dobs['pdec'][i]):
                ctx.oracle_failure(f'{where}: error undefined on one side only (errors {ref_e[i]!r}, {de[i]!r}) '
                                   f'and the bin passes (t = {t!r})' + tag, case, key='nan-error-one-side-passes')
                return False
            if not band and dobs['oracles'][i] != want:
                ctx.oracle_failure(f'{where}: oracle {dobs["oracles"][i]} but |t| = {tabs!r}, critical value '
                                   f'{thr_exp!r}' + tag, case, key='oracle')
                return False
            if dobs['oracles'][i] != (abs(t) < thr):          # exact: the code's own t and critical value
                ctx.oracle_failure(f'{where}: oracle {dobs["oracles"][i]} but |t| = {abs(t)!r} and the critical '
                                   f'value is {thr!r}' + tag, case, key='oracle-exact')
                return False
            if dobs['pdec'][i] != (p > alpha):
                ctx.oracle_failure(f'{where}: p-value decision {dobs["pdec"][i]} but p = {p!r}, alpha = {alpha!r}'
                                   + tag, case, key='pvalue-decision-exact')
                return False
            pexp = expected_pvalue(tabs, ndf)
            if not (rel_close(p, pexp, 1e-7) or (p == p and abs(p - pexp) < 1e-300)):
                ctx.oracle_failure(f'{where}: p-value {p!r}, expected two-sided {pexp!r}' + tag, case,
                                   key='pvalue')
                return False
            if not band and dobs['pdec'][i] != (pexp > alpha):
                ctx.oracle_failure(f'{where}: p-value decision {dobs["pdec"][i]} but p = {pexp!r}, alpha = '
                                   f'{alpha!r}' + tag, case, key='pvalue-decision')
                return False
            if not band and dobs['pdec'][i] != dobs['oracles'][i]:
                ctx.oracle_failure(f'{where}: oracle {dobs["oracles"][i]} and p-value decision '
                                   f'{dobs["pdec"][i]} disagree (|t| = {tabs!r}, p = {p!r})' + tag, case,
                                   key='oracle-vs-pvalue')
                return False
            all_expected = all_expected and (want or band)
    if emasks and any(all(dobs['tmask']) for dobs in obs['datasets']):
        return True                          # a comparison without any unmasked bin: nothing to decide
    all_oracles = all(o or m for dobs in obs['datasets'] for o, m in zip(dobs['oracles'], dobs['tmask']))
    if obs['verdict'] != all_oracles:
        ctx.oracle_failure(f'verdict {obs["verdict"]} but conjunction of the oracles is {all_oracles}' + tag,
                           case, key='verdict-vs-oracles')
        return False
    if not near and obs['verdict'] != all_expected:
        ctx.oracle_failure(f'verdict {obs["verdict"]} but "every bin below the critical value" is '
                           f'{all_expected}' + tag, case, key='verdict')
        return False
    return True


def metamorphic(ctx, case, obs):
    '''symmetry, common positive rescaling, growing difference, shrinking error'''
    tag = f' :: {json.dumps(case)[:700]}'
    sets = case['datasets']
    ref = sets[0]
    # symmetry: (ref, d) vs (d, ref), dataset by dataset
    for d, dobs in enumerate(obs['datasets']):
        sw = run_impl(case, [sets[d + 1], ref])
        if 'raise' in sw or 'malformed' in sw:
            ctx.oracle_failure('swapped comparison raises / is malformed' + tag, case, key='symmetry')
            return
        a = [abs(unbits(b)) for b in dobs['t']]
        b = [abs(unbits(b)) for b in sw['datasets'][0]['t']]
        if not all(rel_close(x, y, 1e-12) for x, y in zip(a, b)) \
                or dobs['oracles'] != sw['datasets'][0]['oracles'] \
                or all(dobs['oracles']) != sw['verdict']:
            ctx.oracle_failure(f'comparison of dataset {d} is not symmetric: |t| / oracles differ when the two '
                               f'datasets are swapped' + tag, case, key='symmetry')
            return
    flat = [unbits(b) for v, e in sets for b in v + e]
    safe = all(x == 0 or x != x or math.isinf(x) or 1e-100 < abs(x) < 1e100 for x in flat)
    if safe:
        k = 2.0 ** ctx.rng.randint(-30, 30)
        sc = run_impl(case, [[[bits(unbits(b) * k) for b in v], [bits(unbits(b) * k) for b in e]]
                             for v, e in sets])
        if sc.get('datasets') is None or [x['oracles'] for x in sc['datasets']] != \
                [x['oracles'] for x in obs['datasets']] or sc['verdict'] != obs['verdict'] \
                or not all(rel_close(unbits(p), unbits(q), 1e-12) for x, y in zip(sc['datasets'], obs['datasets'])
                           for p, q in zip(x['t'], y['t'])):
            ctx.oracle_failure(f'common rescaling of values and errors by {k} changes t / oracles / verdict' + tag,
                               case, key='rescaling')
            return
    # a growing difference / a shrinking error never turns a failing bin into a passing one
    grown = [ref]
    shrunk = [ref]
    with np.errstate(all='ignore'):
        for v, e in sets[1:]:
            v1 = np.array([unbits(b) for b in ref[0]])
            v2 = np.array([unbits(b) for b in v])
            dlt = v1 - v2
            grown.append([[bits(x) for x in np.where(np.isnan(dlt), v2, v2 - dlt)], e])
            shrunk.append([v, [bits(unbits(b) / 2) for b in e]])
    for name, other in (('the differences grow', grown), ('an error shrinks', shrunk)):
        new = run_impl(case, other)
        if new.get('datasets') is None:
            ctx.oracle_failure('modified comparison raises / is malformed' + tag, case, key='monotone')
            return
        for dobs, nobs in zip(obs['datasets'], new['datasets']):
            if any(n and not o for o, n in zip(dobs['oracles'], nobs['oracles'])) \
                    or (new['verdict'] and not obs['verdict']):
                ctx.oracle_failure(f'verdict/oracle improves when {name}' + tag, case, key='monotone')
                return


# --------------------------------------------------------------------------
# generation

def gen_case(rng, quick):
    nd = rng.choice([0, 1, 1, 1, 2, 2, 3, 4])
    if nd == 0:
        shape = []
    else:
        shape = [rng.choice([1, 2, 3, 4] if nd < 3 or not quick else [1, 2, 2, 3]) for _ in range(nd)]
        if rng.random() < 0.15:
            shape[rng.randrange(nd)] = rng.randint(5, 12 if quick else 40)
    size = int(np.prod(shape)) if shape else 1
    ndat = rng.choice([1, 1, 1, 2, 3])
    special = rng.random() < 0.35       # NaN / inf at 5 % each
    scale = 1.0
    r = rng.random()
    if r < 0.06:
        scale = 10.0 ** rng.randint(140, 160)   # squares overflow
    elif r < 0.12:
        scale = 10.0 ** rng.randint(-200, -150)  # squares underflow
    elif r < 0.14:
        scale = 10.0 ** rng.randint(-321, -306)  # subnormal values and errors
    elif r < 0.3:
        scale = 10.0 ** rng.randint(-6, 6)
    sig = rng.choice([0.5, 1.0, 2.0, 3.0])       # typical |t|
    pairs = rng.random() < 0.12         # special values paired across the two sides

    def err():
        q = rng.random()
        if q < 0.10:
            return 0.0
        if special and q < 0.15:
            return NAN
        if special and q < 0.20:
            return INF
        return round(rng.uniform(0.05, 1.0), 3) * scale

    def val(mu):
        q = rng.random()
        if special and q < 0.05:
            return NAN
        if special and q < 0.10:
            return rng.choice([INF, -INF])
        return mu
    mus = [round(rng.uniform(-10, 10), 2) * scale for _ in range(size)]
    ref_e = [err() for _ in range(size)]
    ref_v = [val(mu) for mu in mus]
    sets = [[ref_v, ref_e]]
    for _ in range(ndat):
        es = [err() for _ in range(size)]
        vs = []
        for i in range(size):
            q = rng.random()
            if q < 0.12:
                vs.append(ref_v[i])                              # exact tie
            elif q < 0.16:
                vs.append(val(mus[i]))
            else:
                s = math.sqrt((ref_e[i] if ref_e[i] == ref_e[i] and ref_e[i] != INF else scale) ** 2
                              + (es[i] if es[i] == es[i] and es[i] != INF else scale) ** 2) \
                    if scale < 1e100 else scale
                vs.append(val(mus[i] + rng.gauss(0, sig) * s))
        sets.append([vs, es])
    if pairs:
        for vs, es in sets[1:]:
            for i in range(size):
                if rng.random() < 0.6:
                    ref_e[i], es[i] = rng.choice(ERR_SPECIALS), rng.choice(ERR_SPECIALS)
                if rng.random() < 0.4:
                    ref_v[i], vs[i] = rng.choice(VAL_SPECIALS), rng.choice(VAL_SPECIALS)
    const_err = rng.random() < 0.1      # constant errors: can be handed over as a broadcast view
    if const_err:
        for vs, es in sets:
            es[:] = [es[0]] * size
    alpha = rng.choice(ALPHAS) if rng.random() < 0.8 else round(rng.uniform(0.0005, 0.999), 4)
    ndf = rng.choice(NDFS) if rng.random() < 0.85 else rng.randint(10 ** 4, 10 ** 7)
    lay = [[layouts.pick(rng, shape), 'B' if const_err and rng.random() < 0.7 else layouts.pick(rng, shape)]
           for _ in sets]
    if rng.random() < 0.3:              # every array of the case in the same layout (results inherit it)
        kind = layouts.pick(rng, shape, plain=0.0)
        lay = [[kind, kind] for _ in sets]
    return {'shape': shape, 'alpha': alpha, 'ndf': ndf, 'layouts': lay,
            'datasets': [[[bits(x) for x in v], [bits(x) for x in e]] for v, e in sets]}


def gen_int_case(rng, quick):
    '''integer-valued data (counts) presented with integer dtypes: all values int, or mixed with
    float datasets; errors int (incl. unsigned) or float; 0-d cases as numpy or Python ints'''
    nd = rng.choice([0, 0, 1, 1, 2, 3])
    shape = [rng.choice([1, 2, 3, 4, 6]) for _ in range(nd)]
    size = int(np.prod(shape)) if shape else 1
    ndat = rng.choice([1, 1, 2, 3])
    mult = rng.choice([1, 1, 10, 1000])
    ref_v = [float(rng.randint(-50, 50) * mult) for _ in range(size)]
    all_int = rng.random() < 0.6
    sets, dts = [], []
    for k in range(ndat + 1):
        int_err = rng.random() < 0.5
        es = [float(0 if rng.random() < 0.12 else rng.randint(1, 9) * mult) if int_err
              else round(rng.uniform(0.5, 9.0), 2) * mult for _ in range(size)]
        vs = ref_v if k == 0 else [v if rng.random() < 0.15 else v + float(rng.randint(-25, 25) * mult)
                                   for v in ref_v]
        int_val = all_int or rng.random() < 0.5
        if not int_val:
            vs = [v + round(rng.uniform(-0.5, 0.5), 2) for v in vs]
        scal = (not shape) and rng.random() < 0.5
        dts.append(['pyint' if scal else rng.choice(layouts.INT_VALUE_DTYPES) if int_val else 'float64',
                    ('pyint' if scal else rng.choice(layouts.INT_ERROR_DTYPES)) if int_err else 'float64'])
        sets.append([vs, es])
    alpha = rng.choice(ALPHAS)
    return {'shape': shape, 'alpha': alpha, 'ndf': rng.choice(NDFS), 'dtypes': dts,
            'layouts': [[layouts.pick(rng, shape), layouts.pick(rng, shape)] for _ in sets],
            'datasets': [[[bits(x) for x in v], [bits(x) for x in e]] for v, e in sets]}


def add_masks(rng, case):
    '''the reference and / or compared datasets go through Dataset.mask(): no, some or all bins'''
    size = len(case['datasets'][0][0])
    if not case['shape']:
        return case

    def pattern():
        q = rng.random()
        if q < 0.2:
            return [0] * size
        if q < 0.3:
            return [1] * size
        return [int(rng.random() < 0.3) for _ in range(size)]
    who = rng.choice(['ref', 'cmp', 'both', 'same'])
    same = pattern()
    masks = []
    for k in range(len(case['datasets'])):
        if who == 'same':
            masks.append(same)
        elif (k == 0) == (who == 'ref') or who == 'both':
            masks.append(pattern())
        else:
            masks.append(None)
    return dict(case, masks=masks)


ERR_SPECIALS = [INF, NAN, 0.0, 0.5]
VAL_SPECIALS = [INF, -INF, NAN, 0.0, -0.0, 1.5, -1.5]


def special_pair_cases():
    '''every combination of (inf, nan, 0, finite) errors and (+-inf, nan, 0, finite) values across
    the two sides: 16 x 49 = 784 bins, exhaustively, each under two memory layouts'''
    grid = [(v1, e1, v2, e2) for e1 in ERR_SPECIALS for e2 in ERR_SPECIALS
            for v1 in VAL_SPECIALS for v2 in VAL_SPECIALS]
    out = []
    assert len(grid) == 784
    for k, ndf in enumerate([None, 10, 10 ** 6, 1, 2, 1000, 10001]):
        part = grid[k * 112:(k + 1) * 112]
        for lay in ('C', ('F', 'P', 'N')[k % 3]):   # all four arrays in the same layout
            case = mk([4, 28], 0.05, ndf, ([b[0] for b in part], [b[1] for b in part]),
                      ([b[2] for b in part], [b[3] for b in part]))
            case['layouts'] = [[lay, lay], [lay, lay]]
            out.append(case)
    return out


def between_cases():
    '''small ndf: |t| between the normal and the Student critical value (and just around both)'''
    out = []
    for ndf in (1, 2, 3, 4, 5, 10):
        for alpha in (0.01, 0.05, 0.2):
            znorm = expected_threshold(alpha, None)
            tcrit = expected_threshold(alpha, ndf)
            ref_v, ref_e, oth_v, oth_e = [], [], [], []
            for k, tval in enumerate((znorm * 0.99, znorm * 1.01, (znorm + tcrit) / 2, tcrit * 0.99, tcrit * 1.01)):
                unit = 2.0 ** (k - 2)
                a, b = (tval * unit, 0.0) if k % 2 else (0.0, tval * unit)
                ref_v.append(a), oth_v.append(b), ref_e.append(0.0), oth_e.append(unit)
            out.append(mk([5], alpha, ndf, (ref_v, ref_e), (oth_v, oth_e)))
    return out


def window_cases():
    '''for every class of ndf: bins just inside and just outside the REFERENCE two-sided critical
    value (relative distance 1e-7 and 1e-4), both signs'''
    out = []
    for ndf in NDFS + [10 ** 7]:
        for alpha in (0.01, 0.05, 0.5):
            thr = expected_threshold(alpha, ndf)
            ref_v, ref_e, oth_v, oth_e = [], [], [], []
            for k, delta in enumerate((-1e-7, 1e-7, -1e-4, 1e-4)):
                unit = 2.0 ** (k - 2)
                tval = thr * (1 + delta)
                a, b = (tval * unit, 0.0) if k % 2 else (0.0, tval * unit)
                ref_v.append(a), oth_v.append(b), ref_e.append(unit), oth_e.append(0.0)
            out.append(mk([4], alpha, ndf, (ref_v, ref_e), (oth_v, oth_e)))
    return out


def boundary_cases(rng, n):
    '''|t| == critical value exactly (and its float neighbours); alpha == p-value of a bin exactly'''
    from valjean.eponine.dataset import Dataset
    from valjean.gavroche.stat_tests.student import TestStudent
    out = []
    for _ in range(n):
        alpha = rng.choice(ALPHAS) if rng.random() < 0.7 else round(rng.uniform(0.0005, 0.999), 4)
        ndf = rng.choice(NDFS)
        one = Dataset(np.float64(1.), np.float64(1.))
        thr = float(TestStudent(one, one, name='thr', alpha=alpha, ndf=ndf).threshold)
        size = rng.choice([1, 2, 3, 5])
        ref_v, ref_e, oth_v, oth_e = [], [], [], []
        for _ in range(size):
            unit = 2.0 ** rng.randint(-8, 8)
            tval = rng.choice([thr, thr, math.nextafter(thr, 0.0), math.nextafter(thr, INF), thr / 2])
            a, b = (tval * unit, 0.0) if rng.random() < 0.5 else (0.0, tval * unit)
            ea, eb = (unit, 0.0) if rng.random() < 0.5 else (0.0, unit)
            ref_v.append(a), oth_v.append(b), ref_e.append(ea), oth_e.append(eb)
        case = mk([size] if size > 1 or rng.random() < 0.5 else [], alpha, ndf, (ref_v, ref_e), (oth_v, oth_e))
        out.append(case)
        if rng.random() < 0.5:                      # alpha := the p-value of one of the bins
            obs = run_impl(case)
            ps = [unbits(b) for b in obs.get('datasets', [{'p': []}])[0]['p']]
            ps = [q for q in ps if 0 < q < 1]
            if ps:
                out.append(dict(case, alpha=rng.choice(ps)))
    return out


def strip_masked(case, obs):
    '''the unmasked bins of a masked comparison with ONE compared dataset, as a 1-d case for the
    model (which has no notion of mask); None when there is nothing to send'''
    if len(case['datasets']) != 2 or 'datasets' not in obs or 'malformed' in obs:
        return None
    keep = [i for i, m in enumerate(obs['datasets'][0]['tmask']) if not m]
    if not keep:
        return None
    sel = lambda lst: [lst[i] for i in keep]
    ncase = {'shape': [len(keep)], 'alpha': case['alpha'], 'ndf': case['ndf'],
             'datasets': [[sel(v), sel(e)] for v, e in case['datasets']]}
    if extreme_scale(ncase):
        return None
    dobs = obs['datasets'][0]
    nobs = dict(obs, datasets=[{k: sel(dobs[k]) for k in ('t', 'tmask', 'oracles', 'p', 'pdec')}])
    return ncase, nobs


def with_scalar_types(rng, case, force=False):
    '''ndf / alpha handed over as NumPy scalars, 0-d arrays, Python float / bool ... (same numbers)'''
    typ = layouts.pick_ndf_type(rng, case['ndf'])
    if force and case['ndf'] is not None and typ == 'int':
        typ = 'int64'
    atyp = 'float' if rng.random() < 0.7 else rng.choice(layouts.ALPHA_TYPES[1:])
    out = dict(case, ndf_type=typ, alpha_type=atyp)
    if atyp == 'float32':
        out['alpha'] = float(np.float32(case['alpha']))
    return out


def mk(shape, alpha, ndf, *sets):
    return {'shape': shape, 'alpha': alpha, 'ndf': ndf,
            'datasets': [[[bits(x) for x in v], [bits(x) for x in e]] for v, e in sets]}


def corpus():
    return [
        mk([], 0.01, None, ([5.3], [0.2]), ([5.25], [0.08])),                 # test_pvalue() was False
        mk([5], 0.01, None, ([5.2, 5.3, 5.25, 5.4, 5.5], [0.2, 0.25, 0.1, 0.2, 0.3]),
           ([5.1, 5.6, 5.2, 5.3, 5.2], [0.1, 0.3, 0.05, 0.4, 0.3])),
        mk([5], 0.05, 1000, ([5.2, 5.3, 5.25, 5.4, 5.5], [0.2, 0.25, 0.1, 0.2, 0.3]),
           ([5.1, 5.9, 5.8, 5.3, 4.5], [0.1, 0.1, 0.05, 0.4, 0.1])),
        mk([3], 0.01, None, ([3.2, 0., 5.], [0., 0.5, 0.]), ([3.2, 0., 5.2], [0., 0.5, 0.])),
        mk([4], 0.05, 10, ([1., NAN, 3., INF], [0., .1, INF, .1]), ([1., NAN, 2., 5.], [0., .1, INF, .1])),
        mk([3], 0.05, None, ([1., NAN, 3.], [.1, .1, .1]), ([1., 2., 3.], [.1, .1, .1])),   # NaN one side
        mk([2], 0.05, None, ([1., 1.], [NAN, NAN]), ([1., 1.], [NAN, 0.1])),
        mk([], 0.05, 2, ([NAN], [0.1]), ([NAN], [0.2])),
        mk([], 0.05, 2, ([1.0], [0.0]), ([1.0], [0.0])),
        mk([2, 1], 0.5, 1, ([0., -0.], [0., 1.]), ([-0., 0.], [0., 1.]),
           ([1e-300, 1e300], [1e-200, 1e200])),
    ]


# --------------------------------------------------------------------------
# model side

def coq_bins(v, e):
    return clist(['(' + cz(a) + ', ' + cz(b) + ')' for a, b in zip(v, e)])


def coq_case(case, obs):
    ref = case['datasets'][0]
    dsets = []
    for (v, e), dobs in zip(case['datasets'][1:], obs['datasets']):
        dsets.append('(' + coq_bins(v, e) + ', mk_obs ' + clist([cz(x) for x in dobs['t']]) + ' '
                     + clist([cb(x) for x in dobs['oracles']]) + ' ' + clist([cz(x) for x in dobs['p']])
                     + ' ' + clist([cb(x) for x in dobs['pdec']]) + ')')
    return ('(' + cb(not case['shape']) + ', ' + cz(obs['thr']) + ', ' + cz(bits(case['alpha'])) + ', '
            + coq_bins(*ref) + ', ' + clist(dsets) + ', ' + cb(obs['verdict']) + ')')


def classify(ctx, case, obs):
    ctx.count('ndim_%d' % len(case['shape']))
    ctx.count('ndf_%s' % (case['ndf'] if case['ndf'] in NDFS else 'large_random'))
    for ds in make_datasets(case):
        ctx.count('layout_' + layouts.describe(ds.value))
        ctx.count('layout_' + layouts.describe(ds.error))
    ctx.count('compared_datasets', len(case['datasets']) - 1)
    flat = [unbits(b) for v, e in case['datasets'] for b in v + e]
    if any(x != x for x in flat):
        ctx.count('cases_with_nan')
    if any(math.isinf(x) for x in flat):
        ctx.count('cases_with_inf')
    if any(unbits(b) == 0 for v, e in case['datasets'] for b in e):
        ctx.count('cases_with_zero_error')
    if 'datasets' not in obs or 'malformed' in obs:
        return False
    orc = [o for d in obs['datasets'] for o in d['oracles']]
    ctx.count('bins', len(orc))
    ctx.count('bins_failing', len(orc) - sum(orc))
    ctx.count('verdict_%s' % obs['verdict'])
    return len(orc) > 1 and any(orc) and not all(orc) or (len(orc) == 1)


def run(ctx):
    common.import_repo()
    quick = ctx.tier == 'quick'
    ctx.rule = ('corpus (docstring examples, 0/0, NaN/inf patterns, signed zeros) + boundary cases (|t| == critical value exactly and its float neighbours, alpha == p-value of a bin) + random comparisons: scalar to 4-d, '
                '1..3 compared datasets, differences of 0.5..3 sigma, exact ties 12%, zero errors 10%, NaN/inf 5% '
                'each in a third of the cases, magnitudes 1e-321..1e160, alpha in {0.001..0.5} or random, ndf in '
                '{None,1,2,10,1000,10001,1e6} or random in 1e4..1e7, with bins 1e-7 and 1e-4 (relative) inside/outside the reference critical value for every ndf class; every combination of inf/NaN/0/finite errors and values across the two sides; ndf and alpha handed over as NumPy scalars (int64/int32/int16/uint8/intp/float64/float32), 0-d arrays, Python float/bool in half of the random cases and once for every deterministic window case; IN-PLACE EDITS of an input array between two evaluations on 30% of the cases (same test and a new test must read as fresh datasets with the current numbers); STATE ROUND TRIPS on a quarter of the cases and on all small-ndf cases with |t| between the normal and the Student critical value (copy / deepcopy / pickle of the test then evaluate, of the result then read, Env.to_file/from_file of an environment holding the result: all must read as the direct evaluation); HISTORIES on a third of the cases (the same TestStudent object evaluated, wrapped in Bonferroni/Holm tests that are evaluated in any order, re-evaluated; earlier results re-read); 12% integer-valued data with int64/int32/uint/Python-int dtypes (all-int or mixed with float datasets); 12% datasets masked through Dataset.mask() (none/some/all bins, reference and/or compared); arrays handed over C-/Fortran-ordered, axis-permuted, strided, negatively strided, read-only or broadcast; each case also run swapped, rescaled by 2^k, with grown differences and with '
                'halved errors; non-trivial = passing and failing bins in one case (or a scalar case)')
    cases = corpus()
    ctx.count('corpus', len(cases))
    ncorp = len(cases)
    cases += special_pair_cases()
    ctx.count('special_pair_grid_cases', len(cases) - ncorp)
    ncorp = len(cases)
    cases += window_cases()
    ctx.count('critical_window_cases', len(cases) - ncorp)
    ncorp = len(cases)
    between = between_cases()
    ctx.count('between_normal_and_student_cases', len(between))
    cases = between + cases                      # first in the list: always taken through the round trips
    # every deterministic case once more with ndf (and sometimes alpha) given as a NumPy number
    cases = cases + [with_scalar_types(ctx.rng, c, force=True) for c in between + window_cases()]
    ctx.count('numpy_scalar_argument_corpus_cases', len(between) + len(window_cases()))
    ncorp = len(cases)
    nrand = 520 if quick else 12000
    ncorp0 = len(cases)                          # deterministic cases keep their plain arguments
    cases += boundary_cases(ctx.rng, 60 if quick else 1000)
    ctx.count('boundary', len(cases) - ncorp)
    for _ in range(nrand):
        q = ctx.rng.random()
        if q < 0.12:
            cases.append(gen_int_case(ctx.rng, quick))
        elif q < 0.24:
            cases.append(add_masks(ctx.rng, gen_case(ctx.rng, quick)))
        else:
            cases.append(gen_case(ctx.rng, quick))
    done = []
    t_start = time.time()
    cases = [c if 'ndf_type' in c or k < ncorp0 else with_scalar_types(ctx.rng, c) for k, c in enumerate(cases)]
    for k, case in enumerate(cases):
        if case.get('ndf_type', 'int') != 'int':
            ctx.count('ndf_type_' + case['ndf_type'])
        if case.get('alpha_type', 'float') != 'float':
            ctx.count('alpha_type_' + case['alpha_type'])
        obs = run_impl(case)
        good = oracle(ctx, case, obs)
        masked = bool(case.get('masks'))
        if good and not masked:
            metamorphic(ctx, case, obs)
        if good and (k < 60 or ctx.rng.random() < 0.35):
            history(ctx, case, obs)
            ctx.count('histories')
        if good and not masked and ctx.rng.random() < 0.3:
            inplace_history(ctx, case, obs)
            ctx.count('inplace_edit_histories')
        if good and (k < 60 or ctx.rng.random() < 0.25):
            round_trips(ctx, case, obs)
            ctx.count('state_round_trips')
        if masked:
            ctx.count('masked_cases')
        if case.get('dtypes'):
            ctx.count('integer_dtype_cases')
        nontrivial = classify(ctx, case, obs)
        ctx.case_seen(case, nontrivial, sample_every=499)
        if 'raise' in obs:
            ctx.count('raise_' + obs['raise'])
        elif 'malformed' in obs:
            ctx.count('malformed')
        elif masked:
            stripped = strip_masked(case, obs)
            if stripped is None:
                ctx.count('masked_not_sent_to_model')
            else:
                done.append(stripped)
        elif extreme_scale(case):
            ctx.count('extreme_scale_not_sent_to_model')   # sqrt(e1^2+e2^2) vs hypot differ: either is fine
        else:
            done.append((case, obs))
    nshard = max(16, len(done) // 200)
    shards = [[] for _ in range(nshard)]
    load = [0] * nshard
    for item in sorted(done, key=lambda co: -sum(len(d['t']) for d in co[1]['datasets'])):
        k = load.index(min(load))
        shards[k].append(item)
        load[k] += sum(len(d['t']) for d in item[1]['datasets']) + 1
    shards = [s for s in shards if s]
    bodies = ['Definition cases : list (bool * Z * Z * list bin * list (list bin * obs) * bool) :=\n '
              + clist([coq_case(c, o) for c, o in chunk]).replace('); (', ');\n (')
              + '.\nEval vm_compute in bad_indices (map check_case cases).' for chunk in shards]
    ctx.extra['impl_and_oracle_s'] = round(time.time() - t_start, 1)
    t_start = time.time()
    outs = common.coq_eval(ctx.pid, IMPORTS, bodies)
    ctx.extra['model_eval_s'] = round(time.time() - t_start, 1)
    for chunk, out in zip(shards, outs):
        for i in common.parse_nat_list(out):
            case, obs = chunk[i]
            ctx.mismatch('t statistic (within 2^-40), oracles, p-value decision or verdict of the '
                         'model differ from the implementation: ' + json.dumps(obs)[:400],
                         {'case': case, 'obs': obs})
    ctx.extra['model_cases_compared'] = len(done)
    grid_cases = [c for c, _ in done if c['shape'] == [4, 28] and len(c['datasets'][0][0]) == 112]
    ctx.extra['exhaustive_special_value_grid'] = {
        'complete': len(grid_cases) == 14 and not ctx.corr_broken,
        'bins': 784,
        'bound': 'one bin (v1, e1, v2, e2): errors in {inf, NaN, 0, 0.5}^2 x values in {+inf, -inf, NaN, +0, -0, 1.5, '
                 '-1.5}^2, every combination, each under 2 memory layouts, compared with the model in Coq and the oracle'}
    ctx.assumptions = ['scipy.special.ndtri/stdtrit/ndtr/stdtr are the ground truth for critical values and p-values',
                       'Python float arithmetic is the ground truth for the statistic',
                       'the model is fed the implementation\'s own threshold and p-values (scipy is external)']


def replay(ctx, path):
    common.import_repo()
    data = json.load(open(path))
    case = data['case'].get('case', data['case'])
    obs = run_impl(case)
    print('case:', json.dumps(case))
    for k, (v, e) in enumerate(case['datasets']):
        print(f'  dataset {k}: values', [unbits(b) for b in v], 'errors', [unbits(b) for b in e])
    print('impl:', json.dumps(obs))
    if 'datasets' in obs and 'malformed' not in obs:
        print('  threshold', unbits(obs['thr']))
        for d in obs['datasets']:
            print('  t', [unbits(b) for b in d['t']], 'p', [unbits(b) for b in d['p']])
        ref = case['datasets'][0]
        body = ('Eval vm_compute in (check_case ' + coq_case(case, obs) + ', '
                + clist(['map to_bits (map2 model_t ' + coq_bins(*ref) + ' ' + coq_bins(v, e) + ')'
                         for v, e in case['datasets'][1:]]) + ').')
        print('model (agrees, t bits per dataset):', common.coq_eval(ctx.pid, IMPORTS, [body])[0])
    if oracle(ctx, case, obs):
        metamorphic(ctx, case, obs)
    for v in ctx.violations:
        print('oracle:', v[1][:400])
    return 0

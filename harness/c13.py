'''C13: observing a test result never changes it.

Every operation of random sequences of read-only operations (bool, oracles,
counts, table / plot representation with every representer at every verbosity,
rst formatting, fingerprint, copy / deepcopy, pickle, re-evaluation) is applied
to real results of every kind; a deep bit-level snapshot of the result (and
through it of its test and datasets) is taken before and after each one.  The
statistics results additionally go through the Coq model C13/Model.v.'''
import copy
import enum
import json
import os
import sys
import pickle
import re
import struct
import types
from collections import OrderedDict, defaultdict

import numpy as np

from vp import common
from vp.common import cz, cn, cb, clist

IMPORTS = '''From Coq Require Import List ZArith.
From VV Require Import Lib.Base C17.LibDict C18.Model C13.Model.
Import ListNotations.
'''

STATUSES = ['WAITING', 'PENDING', 'DONE', 'FAILED', 'SKIPPED']
OUTCOMES = ['SUCCESS', 'FAILURE', 'MISSING', 'NOT_A_TEST']
KINDS = ['equal', 'approx', 'student', 'bonf', 'holm', 'chi2', 'meta', 'tasks', 'tests', 'bylabels', 'failed']
REPRESENTERS = ['Table', 'FullTable', 'Plot', 'FullPlot', 'Full', 'Empty']
DTYPES = ['>f8', '>f8', '>f4', 'f4', 'f2', 'longdouble', '>i8', 'i8', 'i4', '>i4']
SPECIALS = [float('nan'), float('inf'), float('-inf'), -0.0, 5e-324, 1e308, -1e308, 0.0]


# ---------------------------------------------------------------------------
# deep, bit-level snapshot

def _raw(arr):
    '''raw bytes of an array / numpy scalar; for extended-precision floats (80-bit numbers stored in 12 or
    16 bytes) only the 10 significant bytes of each item: the padding bytes are not part of the value and
    are not initialised'''
    arr = np.asarray(arr)
    if arr.dtype.kind in 'fc' and arr.dtype.itemsize in (12, 16, 24, 32) and np.finfo(arr.dtype).nmant == 63:
        item = 16 if arr.dtype.itemsize in (16, 32) else 12
        by = np.frombuffer(np.ascontiguousarray(arr).tobytes(), dtype=np.uint8).reshape(-1, item)
        return by[:, :10].tobytes()
    return arr.tobytes()


def snap(obj, memo=None, ids=False):
    '''Nested tuples that identify the state of `obj` bit for bit: array
    buffers, dict key order (defaultdict contents and factory included),
    attribute dictionaries of objects, recursively.  Reads nothing through
    __getitem__ (so it cannot itself trigger a defaultdict insertion).'''
    if memo is None:
        memo = {'ids': ids}      # ids: also record WHICH array object sits where (identity of the arrays)
    if obj is None or isinstance(obj, (bool, int, str, bytes)):
        if isinstance(obj, enum.Enum):
            return ('enum', type(obj).__name__, obj.name)
        return (type(obj).__name__, obj)
    if isinstance(obj, float):
        return ('float', struct.pack('<d', obj))
    if isinstance(obj, enum.Enum):
        return ('enum', type(obj).__name__, obj.name)
    if isinstance(obj, np.ma.MaskedArray):
        return ('ma', snap(np.asarray(obj.data), memo), snap(np.ma.getmaskarray(obj), memo))
    if isinstance(obj, np.ndarray):
        if obj.dtype == object:
            return ('ndo', obj.shape, tuple(snap(x, memo) for x in obj.flat))
        # raw buffer (in the array's own dtype and byte order) AND logical values (native byte order)
        native = obj.astype(obj.dtype.newbyteorder('='), copy=False) if obj.dtype.byteorder in '<>' else obj
        return ('nd', obj.dtype.str, obj.shape, _raw(obj), _raw(np.ascontiguousarray(native)),
                bool(obj.flags.writeable), id(obj) if memo.get('ids') else 0)
    if isinstance(obj, np.generic):
        return ('ng', obj.dtype.str, _raw(obj))
    key = id(obj)
    if key in memo:
        return ('ref', memo[key])
    memo[key] = len(memo)
    if isinstance(obj, dict):
        fac = getattr(obj, 'default_factory', None)
        return ('dict', type(obj).__name__, getattr(fac, '__qualname__', repr(fac)),
                tuple((snap(k, memo), snap(v, memo)) for k, v in obj.items()))
    if isinstance(obj, (list, tuple)):
        return (type(obj).__name__, tuple(snap(x, memo) for x in obj))
    if isinstance(obj, (set, frozenset)):
        return (type(obj).__name__, tuple(sorted((snap(x, memo) for x in obj), key=repr)))
    if isinstance(obj, (types.FunctionType, types.BuiltinFunctionType, types.MethodType, type)):
        return ('callable', getattr(obj, '__qualname__', repr(obj)))
    if hasattr(obj, '__dict__'):
        return ('obj', type(obj).__qualname__, snap(vars(obj), memo))
    if hasattr(obj, '__slots__'):
        return ('slots', type(obj).__qualname__,
                tuple((s, snap(getattr(obj, s, None), memo)) for s in obj.__slots__))
    return ('repr', type(obj).__qualname__, repr(obj))


RESULT_AFFECTING = ('np.geterr', 'np.errcall', 'np.printoptions', 'locale', 'recursionlimit')


def global_state():
    '''process-wide settings a read-only operation has no business changing'''
    import locale
    import warnings
    state = {'np.geterr': dict(np.geterr()), 'np.printoptions': repr(sorted(np.get_printoptions().items(), key=str)),
             'warnings.filters': len(warnings.filters), 'locale': locale.setlocale(locale.LC_ALL, None),
             'cwd': os.getcwd(), 'np.errcall': repr(np.geterrcall()),
             'recursionlimit': sys.getrecursionlimit(), 'environ': len(os.environ)}
    if 'matplotlib' in sys.modules:
        import matplotlib
        state['mpl.rcParams'] = hash(str(list(dict.values(matplotlib.rcParams))))
        state['mpl.backend'] = matplotlib.get_backend()
    return state


def restore_global_state(state):
    np.seterr(**state['np.geterr'])


def first_diff(a, b, path='result'):
    '''where two snapshots differ (for the replay message)'''
    if type(a) is not type(b) or not isinstance(a, tuple):
        return f'{path}: {str(a)[:80]} -> {str(b)[:80]}' if a != b else None
    if len(a) != len(b):
        return f'{path}: {len(a)} -> {len(b)} parts ({str(a)[:60]} -> {str(b)[:60]})'
    for k, (x, y) in enumerate(zip(a, b)):
        if x != y:
            sub = first_diff(x, y, f'{path}.{k}')
            if sub:
                return sub
    return None


# ---------------------------------------------------------------------------
# results of every kind from a JSON case

def _layout(arr, layout):
    '''the same numbers in another memory layout (the logical content is what tobytes() snapshots)'''
    if layout == 'F' and arr.ndim >= 2:
        return np.asfortranarray(arr)
    if layout == 'T' and arr.ndim >= 2:          # transposed view of a C array
        return np.ascontiguousarray(arr.T).T
    if layout == 'S':                             # strided view: every second cell of a larger buffer
        big = np.zeros(tuple(2 * n for n in arr.shape), dtype=arr.dtype)
        view = big[tuple(slice(None, None, 2) for _ in arr.shape)]
        view[...] = arr
        return view
    if layout == 'R' and arr.ndim >= 1:           # negative stride
        return np.ascontiguousarray(arr[::-1])[::-1]
    return arr


def _cast(arr, dtype):
    '''the numbers in another dtype / byte order ('>f8', '>f4', 'f4', 'f2', 'longdouble', '>i8', 'i8', 'i4')'''
    if dtype in (None, 'f8'):
        return arr
    dtp = np.dtype(dtype)
    with np.errstate(all='ignore'):
        if dtp.kind in 'iu':
            arr = np.nan_to_num(np.rint(arr), nan=0.0, posinf=1e9, neginf=-1e9)
        return arr.astype(dtp)


def _grid(n, k, mode):
    '''the n+1 edges of dimension k: increasing / decreasing, regular / with very wide extreme bins (the
    range-trimming of the plot post-treatment) / irregular / negative; always >= 3 edges when n >= 2'''
    base = np.arange(n + 1, dtype=float) * (k + 1)
    if 'wide' in mode and n >= 2:
        base[0] -= 1e5
        base[-1] += 1e7
    if 'rep' in mode and n >= 2:          # repeated edges: zero-width cells next to the extreme bins
        base[1] = base[0]
        if 'rep2' in mode:
            base[-2] = base[-1]
    if 'irr' in mode:
        base = base ** 1.5 - 3.
    if 'dec' in mode:
        base = base[::-1].copy()
    return base


def _dataset(shape, vals, errs, name, what='', layout='C', dtype=None, grid='inc'):
    from valjean.eponine.dataset import Dataset
    if not shape:
        if dtype in (None, 'f8'):
            return Dataset(np.float64(vals[0]), np.float64(errs[0]), name=name, what=what)
        return Dataset(_cast(np.array(vals[0], dtype=float), dtype)[()], _cast(np.array(errs[0], dtype=float), dtype)[()],
                       name=name, what=what)
    bdt = dtype if dtype in ('>f8', 'f4', '>f4') else None
    bins = OrderedDict((f'x{k}', _layout(_cast(_grid(n, k, grid), bdt),
                                         layout if layout in 'SR' else 'C'))
                       for k, n in enumerate(shape))
    return Dataset(_layout(_cast(np.array(vals, dtype=float).reshape(shape), dtype), layout),
                   _layout(_cast(np.array(errs, dtype=float).reshape(shape), dtype), layout),
                   bins=bins, name=name, what=what)


def build_test(case):
    kind, data = case['kind'], case['data']
    if kind in ('equal', 'approx', 'student', 'chi2', 'bonf', 'holm', 'failed'):
        from valjean.gavroche.test import TestEqual, TestApproxEqual
        from valjean.gavroche.stat_tests.student import TestStudent
        from valjean.gavroche.stat_tests.chi2 import TestChi2
        from valjean.gavroche.stat_tests.bonferroni import TestBonferroni, TestHolmBonferroni
        shape = tuple(data['shape'])
        dnames = data.get('names') or [f'ds{k}' for k in range(len(data['vals']))]
        whats = data.get('whats') or [''] * len(dnames)
        layouts = data.get('layouts') or ['C'] * len(dnames)
        dtypes = data.get('dtypes') or [None] * len(dnames)
        grid = data.get('grid', 'inc')
        dsets = [_dataset(shape, v, e, dnames[k], whats[k], layouts[k], dtypes[k], grid)
                 for k, (v, e) in enumerate(zip(data['vals'], data['errs']))]
        labels = data.get('labels')
        tname = data.get('tname')
        descr = data.get('descr', '')
        if kind in ('equal', 'failed'):
            return TestEqual(*dsets, name=tname or 'eq', description=descr, labels=labels)
        if kind == 'approx':
            return TestApproxEqual(*dsets, name=tname or 'approx', description=descr, labels=labels)
        if kind == 'chi2':
            return TestChi2(*dsets, name=tname or 'chi2', description=descr, labels=labels)
        stud = TestStudent(*dsets, name=tname or 'student', description=descr, ndf=data.get('ndf'),
                           labels=labels)
        if kind == 'student':
            return stud
        cls = TestBonferroni if kind == 'bonf' else TestHolmBonferroni
        return cls(name=tname or kind, description=descr, test=stud, labels=labels)
    if kind == 'meta':
        from valjean.gavroche.diagnostics.metadata import TestMetadata
        snames = data.get('snames') or [f'sample{s}' for s in range(len(data['values']))]
        dmd = OrderedDict((snames[s], {f'key{k}': v for k, v in enumerate(row) if v is not None})
                          for s, row in enumerate(data['values']))
        return TestMetadata(dmd, name=data.get('tname') or 'md', description=data.get('descr', ''),
                            labels=data.get('labels'))
    from valjean.cosette.task import TaskStatus
    from valjean.gavroche.diagnostics import stats
    from valjean.gavroche.diagnostics.metadata import TestMetadata
    task_results = []
    for tname, status, result in data['tasks']:
        tres = {'status': TaskStatus[status]}
        if result is not None:
            tres['result'] = [
                TestMetadata({'a': {'k': 1}, 'b': {'k': 1 if verdict else 2}}, name=name,
                             labels=None if labels is None else dict(labels)).evaluate()
                for verdict, name, labels in result]
        task_results.append((tname, tres))
    if kind == 'tasks':
        return stats.TestStatsTasks(name='st', task_results=task_results)
    if kind == 'tests':
        return stats.TestStatsTests(name='st', task_results=task_results)
    return stats.TestStatsTestsByLabels(name='sl', task_results=task_results,
                                        by_labels=tuple(data['by_labels']))


def build_result(case):
    test = build_test(case)
    if case['kind'] == 'failed':
        from valjean.gavroche.test import TestResultFailed
        return test, TestResultFailed(test, case['data']['msg'])
    return test, test.evaluate()


# ---------------------------------------------------------------------------
# the read-only operations

def apply_op(result, op):
    '''returns a canonical, comparable output (used for repeatability)'''
    from valjean.javert import representation as rp
    from valjean.javert.verbosity import Verbosity
    name = op[0]
    if name == 'bool':
        return bool(result)
    if name == 'oracles':
        return snap(result.oracles())
    if name == 'counts':
        from valjean.cosette.task import TaskStatus
        from valjean.gavroche.diagnostics import stats
        ok = TaskStatus.DONE if type(result).__name__ == 'TestResultStatsTasks' else stats.TestOutcome.SUCCESS
        statuses, counts = stats.classification_counts(result.classify, ok)
        return ([s.name for s in statuses], list(counts))
    if name == 'missing':
        return result.nb_missing_labels()
    if name in ('table', 'rst'):
        reprs = {'Table': rp.TableRepresenter, 'FullTable': rp.FullTableRepresenter,
                 'Plot': rp.PlotRepresenter, 'FullPlot': rp.FullPlotRepresenter,
                 'Full': rp.FullRepresenter, 'Empty': rp.EmptyRepresenter}
        representation = rp.Representation(reprs[op[1]](), Verbosity[op[2]])
        if name == 'table':
            return representation(result)           # list of templates (kept: the Coq side reads it)
        from valjean.javert.rst import Rst
        return [str(line) for line in Rst(representation).format_result(result)]
    if name == 'fingerprint':
        from valjean.fingerprint import fingerprint
        return fingerprint(result.test)
    if name == 'copy':
        return snap(copy.copy(result)) == snap(result)
    if name == 'deepcopy':
        return snap(copy.deepcopy(result)) == snap(result)
    if name == 'pickle':
        clone = pickle.loads(pickle.dumps(result))
        return (bool(clone) == bool(result), type(clone).__name__)
    if name == 'str':
        return (str(result.test.name), repr(result)[:0])
    raise ValueError(op)


# ---------------------------------------------------------------------------
# generator

def gen_labels(rng):
    if rng.random() < 0.3:
        return None
    return {k: rng.choice(['a', 'b', 'c']) for k in ('day', 'meal', 'cat') if rng.random() < 0.7}


def gen_data(rng, kind):
    if kind in ('equal', 'approx', 'student', 'chi2', 'bonf', 'holm', 'failed'):
        shape = rng.choice([[], [1], [3], [4], [2, 3], [6]])
        if kind == 'chi2' and not shape:
            shape = [3]
        nbin = int(np.prod(shape)) if shape else 1
        nds = rng.choice([2, 2, 3, 3, 4])
        lo = -10. if rng.random() < 0.15 else 1.      # mixed signs now and then (in-place abs / clip)
        ref = [round(rng.uniform(lo, 20.), 3) for _ in range(nbin)]
        vals, errs = [ref], [[round(rng.uniform(0.1, 1.), 3) for _ in range(nbin)]]
        for _ in range(nds - 1):
            mode = rng.random()
            vals.append([v if mode < 0.3 else round(v + rng.gauss(0, 0.5 if mode < 0.7 else 5.), 3)
                         for v in ref])
            errs.append([round(rng.uniform(0.1, 1.), 3) for _ in range(nbin)])
        if rng.random() < 0.12:       # zero errors (all cells, or some cells of every dataset): 0/0, x/0
            cells = range(nbin) if rng.random() < 0.5 else rng.sample(range(nbin), max(1, nbin // 2))
            for k in range(nds):
                for c in cells:
                    errs[k][c] = 0.0
                    if rng.random() < 0.5:
                        vals[k][c] = vals[0][c]
        # special floats in values AND errors of any dataset (the reference included), at a controlled
        # rate: in-place "cleaning" idioms (nan_to_num / clip / abs / round / sort with out= or copy=False,
        # masked fills) only show on such cells
        r = rng.random()
        if r < 0.35:
            for _ in range(rng.choice([1, 1, 2, 3])):
                arr = rng.choice([vals, errs] if r < 0.25 else [errs])
                arr[rng.randrange(nds)][rng.randrange(nbin)] = rng.choice(SPECIALS)
        data = {'shape': shape, 'vals': vals, 'errs': errs, 'labels': gen_labels(rng)}
        # attributes other than arrays: dataset names (unique / shared / empty), `what`, test name and
        # description drawn from small pools so that they coincide across datasets and across results
        mode = rng.random()
        if mode < 0.4:
            data['names'] = [f'ds{k}' for k in range(nds)]
        elif mode < 0.7:
            pool = rng.choice([['same'], [''], ['a', 'a', 'b'], ['', 'x'], ['ref']])
            data['names'] = [rng.choice(pool) for _ in range(nds)]
        else:
            data['names'] = [rng.choice(['', 'a', 'b', 'same', f'ds{k}']) for k in range(nds)]
        data['whats'] = [rng.choice(['', 'flux', 'flux', 'dose'])] * nds if rng.random() < 0.7 else \
            [rng.choice(['', 'flux', 'dose']) for _ in range(nds)]
        data['tname'] = rng.choice([None, 'test', 'test', 'same', 'T1'])
        data['descr'] = rng.choice(['', '', 'a description', 'same'])
        # the grids (bins) of the datasets: increasing mostly; else decreasing (lethargy, cosine...), with very
        # wide extreme bins, irregular -- every dataset of a test owns its own arrays with the same numbers
        data['grid'] = rng.choice(['inc'] * 6 + ['dec', 'dec', 'dec-wide', 'wide', 'dec-irr', 'irr', 'rep', 'rep2',
                                   'dec-rep', 'rep-wide'])
        # dtypes / byte orders of the arrays: native float64 mostly; else non-native ('>f8', '>f4', '>i8'),
        # narrower / wider floats, integers -- uniform or mixed per test
        dtr = rng.random()
        if dtr < 0.6:
            data['dtypes'] = [None] * nds
        elif dtr < 0.85:
            data['dtypes'] = [rng.choice(DTYPES)] * nds
        else:
            data['dtypes'] = [rng.choice(DTYPES + [None]) for _ in range(nds)]
        # memory layouts of the arrays: C, Fortran, transposed view, strided view, negative stride
        lay = rng.random()
        if lay < 0.6:
            data['layouts'] = ['C'] * nds
        elif lay < 0.8:
            data['layouts'] = [rng.choice('FTSR')] * nds
        else:
            data['layouts'] = [rng.choice('CFTSR') for _ in range(nds)]
        if kind in ('student', 'bonf', 'holm') and rng.random() < 0.3:
            data['ndf'] = rng.choice([5, 20, 1000])
        if kind == 'failed':
            data['msg'] = rng.choice(['shapes differ', '', 'boom'])
        return data
    if kind == 'meta':
        nkeys = rng.randint(1, 5)
        nsamp = rng.choice([2, 3, 3, 4, 4, 5])
        snames = rng.choice([None, None, ['b', 'a', 'd', 'c', 'e'], ['run2', 'run10', 'run1', 'ref', 'x']])
        rows = []
        for s in range(nsamp):
            pnone = 0.5 if s == 0 or rng.random() < 0.2 else 0.15     # keys absent from a sample
            rows.append([None if rng.random() < pnone else rng.choice([1, 1, 2, 'x', 'y', 1.0]) for _ in range(nkeys)])
        return {'values': rows, 'snames': snames[:nsamp] if snames else None, 'labels': gen_labels(rng),
                'tname': rng.choice([None, 'test', 'same']), 'descr': rng.choice(['', 'same'])}
    allgood = rng.random() < 0.3
    tasks = []
    for k in range(rng.choice([0, 1, 2, 3, 5, 8])):
        status = 'DONE' if allgood or rng.random() < 0.5 else rng.choice(STATUSES)
        if kind == 'bylabels' or rng.random() < (0.97 if allgood else 0.85):
            result = [[allgood or rng.random() < 0.6, f'r{k}.{j}' if rng.random() < 0.8 else 'same',
                       {'day': rng.choice(['mon', 'tue']), **({'meal': rng.choice(['l', 'd'])}
                                                            if rng.random() < 0.6 else {})}]
                      for j in range(rng.choice([0, 1, 1, 2, 3]))]
        else:
            result = None
        tasks.append([rng.choice([f'task{k}', 't']), status, result])
    data = {'tasks': tasks}
    if kind == 'bylabels':
        if not any(r for _, _, r in tasks):
            tasks.append(['extra', 'DONE', [[True, 'x', {'day': 'mon'}]]])
        data['by_labels'] = rng.choice([['day'], ['day'], ['day', '_result'], ['_test_name'], ['_result']])
    return data


def gen_ops(rng, kind):
    from valjean.javert.verbosity import Verbosity
    verbs = [v.name for v in Verbosity]
    if rng.random() < 0.12:
        # every representation entry point (6 representers x every verbosity) once, in random order,
        # each followed now and then by an operation that would reveal a change (fingerprint, pickle, ...)
        ops = []
        sweep = [['table', rep, verb] for rep in REPRESENTERS for verb in verbs]
        rng.shuffle(sweep)
        for op in sweep:
            ops.append(op)
            if rng.random() < 0.15:
                ops.append([rng.choice(['fingerprint', 'pickle', 'evaluate', 'fresh', 'evaluate', 'bool', 'deepcopy'])])
        return ops
    ops = []
    for _ in range(rng.randint(1, 12)):
        r = rng.random()
        if r < 0.2:
            ops.append(['bool'])
        elif r < 0.55:
            ops.append(['table', rng.choice(REPRESENTERS), rng.choice(verbs)])
        elif r < 0.67:
            ops.append(['rst', rng.choice(REPRESENTERS), rng.choice(verbs)])
        elif r < 0.73:
            ops.append(['fingerprint'])
        elif r < 0.85:
            ops.append([rng.choice(['copy', 'deepcopy', 'pickle'])])
        elif r < 0.93:
            if kind in ('tasks', 'tests'):
                ops.append(['counts'])
            elif kind == 'bylabels':
                ops.append([rng.choice(['oracles', 'missing'])])
            elif kind in ('student', 'bonf', 'holm', 'chi2'):
                ops.append(['oracles'])
            else:
                ops.append(['bool'])
        else:
            ops.append([rng.choice(['evaluate', 'evaluate', 'fresh'])])
    return ops


CORPUS = [
    # the defect of the pinned tree: one table representation of a successful summary
    {'kind': 'tasks', 'data': {'tasks': [['a', 'DONE', None], ['b', 'DONE', None]]},
     'ops': [['bool'], ['table', 'Table', 'DEFAULT'], ['bool'], ['counts'], ['bool']]},
    {'kind': 'tests', 'data': {'tasks': [['a', 'DONE', [[True, 'r0', None], [True, 'r1', {'day': 'mon'}]]]]},
     'ops': [['bool'], ['table', 'Full', 'FULL_DETAILS'], ['bool'], ['rst', 'Table', 'SILENT'], ['counts']]},
    {'kind': 'tests', 'data': {'tasks': [['a', 'FAILED', None], ['b', 'DONE', [[False, 'r0', None]]]]},
     'ops': [['table', 'Plot', 'DEFAULT'], ['table', 'Table', 'SILENT'], ['pickle'], ['deepcopy'], ['bool']]},
    {'kind': 'tasks', 'data': {'tasks': []}, 'ops': [['bool'], ['table', 'Table', 'SILENT'], ['counts'],
                                                     ['table', 'FullTable', 'DEFAULT'], ['bool']]},
    {'kind': 'bylabels', 'data': {'tasks': [['a', 'DONE', [[True, 'x', {'day': 'mon'}], [False, 'y', {'day': 'tue'}],
                                                         [True, 'z', {}]]]], 'by_labels': ['day']},
     'ops': [['bool'], ['oracles'], ['missing'], ['table', 'Table', 'SUMMARY'], ['table', 'Full', 'DEFAULT'],
             ['rst', 'Table', 'FULL_DETAILS'], ['bool']]},
]


# ---------------------------------------------------------------------------

class Names:
    def __init__(self):
        self.names = []

    def __call__(self, name):
        if name not in self.names:
            self.names.append(name)
        return self.names.index(name)


def coq_state(result, names):
    cname = type(result).__name__
    if cname == 'TestResultStatsTestsByLabels':
        rows = clist(['(mk_row ' + clist([cz(names(str(v))) for v in r['labels']])
                      + f' {cn(r["OK"])} {cn(r["KO"])} {cn(r["total"])})' for r in result.classify])
        return f'(RByLabels {rows} {cn(result.n_labels)})'
    enum_names, ok = (STATUSES, 2) if cname == 'TestResultStatsTasks' else (OUTCOMES, 0)
    cls = clist([f'({cn(enum_names.index(st.name))}, '
                 + clist([cz(names((nf.name, nf.fingerprint))) for nf in lst]) + ')'
                 for st, lst in result.classify.items()])
    return f'(RStats {cn(ok)} {cls})'


def coq_step(result, op, out):
    '''(op, observed output) of one operation on a statistics result'''
    cname = type(result).__name__
    stats_kind = cname in ('TestResultStatsTasks', 'TestResultStatsTests')
    enum_names = STATUSES if cname == 'TestResultStatsTasks' else OUTCOMES
    if isinstance(out, Exception):
        if op[0] in ('oracles', 'missing', 'counts'):
            return f'({ {"oracles": "OOracles", "missing": "OMissing", "counts": "OCounts"}[op[0]]}, ZNothing)'
        return '(OExt 9, ZSkip)'
    if op[0] == 'bool':
        return f'(OBool, ZBool {cb(out)})'
    if op[0] == 'counts' and stats_kind:
        pairs = clist([f'({cn(enum_names.index(s))}, {cn(c)})' for s, c in zip(*out)])
        return f'(OCounts, ZCounts {pairs})'
    if op[0] == 'oracles' and not stats_kind:
        return f'(OOracles, ZBools {clist([cb(bool(b)) for b in result.oracles()])})'
    if op[0] == 'missing' and not stats_kind:
        return f'(OMissing, ZNat {cn(out)})'
    if op[0] == 'table' and stats_kind and op[1] in ('Table', 'FullTable'):
        silent = cb(op[2] == 'SILENT')
        if not out:
            return f'(OTable {silent}, ZNothing)'
        try:        # the layout of the rendering is not the property's business: skip what cannot be read
            table, text = out[0], out[1]
            cols = [[str(x) for x in col] for col in table.columns]
            scol = [c for c in cols if c and all(x in enum_names for x in c[:-1]) and c[-1] not in enum_names]
            ccol = [c for c in cols if c and all(re.match(r'\d+/\d+', x) for x in c)]
            if len(scol) != 1 or len(ccol) != 1 or len(scol[0]) != len(ccol[0]):
                return f'(OTable {silent}, ZSkip)'
            rows = [f'({cn(enum_names.index(st))}, {cn(int(re.match(r"(\d+)/", pct).group(1)))})'
                    for st, pct in zip(scol[0][:-1], ccol[0][:-1])]
            nsec = len(re.findall(r'with status', str(text.text)))
        except Exception:  # noqa
            return f'(OTable {silent}, ZSkip)'
        return f'(OTable {silent}, ZTable {clist(rows)} {cn(nsec)})'
    return '(OExt 0, ZSkip)'


def run_impl(ctx, case, steps):
    kind = case['kind']
    try:
        test, result = build_result(case)
    except Exception as exc:  # noqa
        ctx.count('construction_raises_' + type(exc).__name__)
        return False
    ctx.count('kind_' + kind)
    initial = snap(result)
    first_outputs = {}
    names = Names()
    stats_like = kind in ('tasks', 'tests', 'bylabels')
    state0 = coq_state(result, names) if stats_like else None
    zsteps = []
    verdict0 = bool(result)
    from valjean.fingerprint import fingerprint
    try:
        fprint0 = fingerprint(test)
    except Exception as exc:  # noqa
        fprint0 = ('exc', type(exc).__name__)
        ctx.count('fingerprint_raises_' + type(exc).__name__)
    prev_after = snap(result, ids=True)
    if fprint0 is not None and snap(result) != initial:
        ctx.oracle_failure(f'reading the verdict and fingerprint(test) of a fresh {kind} result changes it: '
                           f'{first_diff(initial, snap(result))} :: {case}', case, key='state-changed-by-read')
    for n, op in enumerate(case['ops']):
        before = snap(result, ids=True)
        if before != prev_after:      # only the verdict and the fingerprint were read in between
            ctx.oracle_failure(f'reading the verdict and fingerprint(test) before operation {n} changes the {kind} '
                               f'result: {first_diff(prev_after, before)} :: {case}', case,
                               key='state-changed-by-read')
        ctx.count('op_' + op[0])
        glob0 = global_state()
        try:
            if op[0] in ('evaluate', 'fresh'):
                # the same test object again / a fresh test built from equal inputs: identical result
                again = result if kind == 'failed' else test.evaluate() if op[0] == 'evaluate' else \
                    build_result(case)[1]
                out = snap(again) == initial
                if not out:
                    ctx.oracle_failure(f'evaluating the test again ({op[0]}) after operations '
                                       f'{case["ops"][:n]} gives another result '
                                       f'({first_diff(initial, snap(again))}) :: {case}', case,
                                       key='evaluate-not-repeatable')
            else:
                out = apply_op(result, op)
        except Exception as exc:  # noqa
            out = exc
            ctx.count('op_raises_' + type(exc).__name__)
            if op[0] in ('evaluate', 'fresh'):
                ctx.oracle_failure(f'evaluating the test again ({op[0]}) after operations {case["ops"][:n]} raises '
                                   f'{type(exc).__name__}: {str(exc)[:120]} although the first evaluation succeeded '
                                   f':: {case}', case, key='evaluate-not-repeatable')
        glob1 = global_state()
        if glob1 != glob0:
            changed = {k: (glob0.get(k), glob1.get(k)) for k in glob1
                       if k in glob0 and glob0.get(k) != glob1.get(k)}      # (a first import adds keys)
            # only what can change the result of a later evaluation or rendering is a violation; the rest
            # (warnings filters, environment size, cwd, matplotlib rcParams / backend) is a note in the evidence
            for k in [k for k in changed if k not in RESULT_AFFECTING]:
                ctx.count('note_global_state_changed_' + k)
                note = f'NOTE (not a violation): an operation {op[0]} changes {k}'
                if note not in ctx.notes:
                    ctx.notes.append(note)
            changed = {k: v for k, v in changed.items() if k in RESULT_AFFECTING}
        else:
            changed = {}
        if changed:
            ctx.oracle_failure(f'operation {n} {op} on a {kind} result changes process-wide state: {changed} '
                               f':: {case}', case, key='global-state-changed-by-' + op[0])
            restore_global_state(glob0)
        after = snap(result, ids=True)
        if after != before:
            ctx.oracle_failure(f'operation {n} {op} changes the {kind} result: {first_diff(before, after)} '
                               f':: {case}', case, key='state-changed-by-' + op[0])
        prev_after = after
        try:
            fprint = fingerprint(test)
        except Exception as exc:  # noqa
            fprint = ('exc', type(exc).__name__)
        if fprint != fprint0:
            ctx.oracle_failure(f'fingerprint of the test (the anchor of the report) changed after operation {n} '
                               f'{op} :: {case}', case, key='fingerprint-changed-by-' + op[0])
        if bool(result) != verdict0:
            ctx.oracle_failure(f'verdict {verdict0} became {bool(result)} after operation {n} {op} '
                               f':: {case}', case, key='verdict-changed-by-' + op[0])
        if op[0] in ('copy', 'deepcopy') and out is not True and not isinstance(out, Exception):
            ctx.oracle_failure(f'{op[0]} of the {kind} result differs from it :: {case}', case,
                               key=op[0] + '-differs')
        if op[0] == 'pickle' and not isinstance(out, Exception) and out[0] is not True:
            ctx.oracle_failure(f'unpickled {kind} result has another verdict :: {case}', case,
                               key='pickle-verdict')
        canon = ('exc', type(out).__name__) if isinstance(out, Exception) else \
            snap(out) if op[0] in ('table',) else out
        okey = json.dumps(op)
        if okey in first_outputs and first_outputs[okey] != canon:
            ctx.oracle_failure(f'operation {op} gives a different output the second time :: {case}', case,
                               key='not-repeatable-' + op[0])
        first_outputs.setdefault(okey, canon)
        if stats_like:
            zsteps.append(coq_step(result, op, out))
    if stats_like:
        steps.append((case, f'({cn(5 if kind == "tasks" else 4)}, {state0}, {clist(zsteps)}, '
                            f'{coq_state(result, names)})'))
    return len(case['ops']) >= 2


# ---------------------------------------------------------------------------
# fresh interpreters with different string hash seeds

def digest_case(case):
    '''what one interpreter records for a case: verdict, full state of the result (dict orders included),
    derived statistics, rendered tables'''
    import hashlib
    from valjean.javert import representation as rp
    from valjean.javert.verbosity import Verbosity
    from valjean.javert.rst import Rst

    def sha(text):
        return hashlib.sha1(text.encode('utf-8', 'replace')).hexdigest()[:12]

    try:
        _test, result = build_result(case)
    except Exception as exc:  # noqa
        return {'raises': type(exc).__name__}
    out = {'verdict': bool(result), 'state': sha(repr(snap(result)))}
    if hasattr(result, 'dict_res'):
        out['dict_res'] = repr(result.dict_res)[:1500]
        out['per_key'] = repr(result.per_key())[:800]
    if hasattr(result, 'classify'):
        out['classify'] = sha(repr(snap(result.classify)))
    for rep, verb in (('Table', 'INTERMEDIATE'), ('Table', 'FULL_DETAILS'), ('Full', 'DEFAULT')):
        try:
            reprs = {'Table': rp.TableRepresenter, 'Full': rp.FullRepresenter}
            lines = Rst(rp.Representation(reprs[rep](), Verbosity[verb])).format_result(result)
            out[f'rst {rep} {verb}'] = sha('\n'.join(str(x) for x in lines))
        except Exception as exc:  # noqa
            out[f'rst {rep} {verb}'] = 'raises ' + type(exc).__name__
    return out


def child_main(path):
    common.import_repo()
    cases = json.load(open(path))
    json.dump([digest_case(case) for case in cases], open(path + '.out.' + os.environ.get('PYTHONHASHSEED', 'x'), 'w'))


def run_hash_seeds(ctx, cases):
    '''the same cases evaluated in fresh child interpreters with PYTHONHASHSEED = 0, 1, 2, 3 and random:
    whatever is recorded must be identical'''
    import subprocess
    meta = [c for c in cases if c['kind'] == 'meta']
    # (extended-precision arrays carry uninitialised padding bytes that fingerprint() hashes: their anchors
    # differ from one process to the next whatever the hash seed; left out of this stream, noted in design.d)
    others = [c for c in cases if c['kind'] != 'meta'
              and 'longdouble' not in (c['data'].get('dtypes') or ())]
    sample = meta[:150 if ctx.tier == 'quick' else 1500] + others[:60 if ctx.tier == 'quick' else 400]
    path = os.path.join(ctx.wd(), 'hashseed_cases.json')
    json.dump(sample, open(path, 'w'))
    seeds = ['0', '1', '2', '3', 'random']
    procs = []
    for k, hs in enumerate(seeds):
        env = dict(os.environ, PYTHONHASHSEED=hs)
        tag = hs if hs != 'random' else 'random'
        procs.append((tag, subprocess.Popen(
            [sys.executable, '-W', 'ignore', os.path.abspath(__file__), '--child', path], env=env,
            stdout=subprocess.PIPE, stderr=subprocess.STDOUT, text=True)))
    results = {}
    for tag, proc in procs:
        out, _ = proc.communicate(timeout=900)
        fname = path + '.out.' + tag
        if proc.returncode != 0 or not os.path.exists(fname):
            raise RuntimeError(f'child interpreter with PYTHONHASHSEED={tag} failed: {out[-800:]}')
        results[tag] = json.load(open(fname))
    ref = results['0']
    for tag in seeds[1:]:
        for case, a, b in zip(sample, ref, results[tag]):
            if a != b:
                diff = [k for k in sorted(set(a) | set(b)) if a.get(k) != b.get(k)]
                ctx.oracle_failure(f'evaluating the {case["kind"]} test in interpreters with PYTHONHASHSEED=0 and '
                                   f'{tag} records different {diff}: {str(a.get(diff[0]))[:300]} / '
                                   f'{str(b.get(diff[0]))[:300]} :: {case}', case, key='hash-seed-dependent')
    ctx.count('cases_in_5_interpreters', len(sample))
    ctx.extra['hash_seed_interpreters'] = seeds


def run(ctx):
    common.import_repo()
    ctx.rule = ('results of every kind (equal, approx-equal, Student, Bonferroni, Holm-Bonferroni, chi2, '
                'metadata, statistics of tasks / tests / by labels built by the real evaluate(), failed) with '
                'random data, and random sequences of 1-12 read-only operations (bool, oracles, counts, '
                'nb_missing_labels, representation with each of the 6 representers at each verbosity, rst '
                'formatting, fingerprint, copy, deepcopy, pickle, re-evaluation); non-trivial = at least two '
                'operations; distinct by case content')
    rng = ctx.rng
    cases = [json.loads(json.dumps(c)) for c in CORPUS]
    nrand = 1800 if ctx.tier == "quick" else 30000
    for _ in range(nrand):
        kind = rng.choice(KINDS + ['tasks', 'tests', 'bylabels'])
        cases.append({'kind': kind, 'data': gen_data(rng, kind), 'ops': gen_ops(rng, kind)})
    steps = []
    nops = 0
    for case in cases:
        nontrivial = run_impl(ctx, case, steps)
        nops += len(case['ops'])
        ctx.case_seen(case, nontrivial, sample_every=199)
    run_hash_seeds(ctx, cases)
    shard_size = 100
    shards = []
    for k in range(0, len(steps), shard_size):
        chunk = steps[k:k + shard_size]
        shards.append('Definition cases : list (nat * zresult * list (op * zobs) * zresult) :=\n '
                      + clist([s[1] for s in chunk]).replace('; (', ';\n (')
                      + '.\nEval vm_compute in bad_indices (map check_case cases).')
    outs = common.coq_eval(ctx.pid, IMPORTS, shards)
    for k, out in enumerate(outs):
        for i in common.parse_nat_list(out):
            step = steps[k * shard_size + i]
            ctx.mismatch(f'statistics result: outputs or final state differ from the model: {step[1][:500]}',
                         {'case': step[0], 'coq': step[1]})
    ctx.traces_validated = len(cases)
    ctx.extra['operations_snapshotted'] = nops
    ctx.extra['model_sequences_compared'] = len(steps)
    ctx.extra['tested_not_proved'] = ('the footprint of every real operation on results of the dataset / '
                                      'metadata / failed kinds (deep snapshots before and after each operation)')
    ctx.assumptions = ['the recursive snapshot (array buffers, dict key order, defaultdict contents, object '
                       '__dict__) sees every part of the state the verdict and the statistics depend on',
                       'plot templates are built (PlotRepresenter) but matplotlib figures are not rendered']


def replay(ctx, path):
    common.import_repo()
    data = json.load(open(path))
    case = data['case']
    if isinstance(case, dict) and 'case' in case:
        case = case['case']
    steps = []
    run_impl(ctx, case, steps)
    print('case:', json.dumps(case))
    for step in steps:
        print('coq case:', step[1][:1500])
        body = ('Definition cases : list (nat * zresult * list (op * zobs) * zresult) :=\n ' + clist([step[1]])
                + '.\nEval vm_compute in bad_indices (map check_case cases).\n'
                'Eval vm_compute in map (fun c => match c with (n, s, st, _) => zrun n (map fst st) s end) cases.')
        print('model (disagreeing cases, then outputs and final state):')
        print(common.coq_eval(ctx.pid, IMPORTS, [body])[0])
    for v in ctx.violations:
        print('oracle:', v[1][:800])
    return 0


if __name__ == '__main__':
    if len(sys.argv) == 3 and sys.argv[1] == '--child':
        child_main(sys.argv[2])

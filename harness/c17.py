'''C17: browser selections.  Implementation (valjean.eponine.browser) vs the Coq
model C17/Model.v, plus the property oracle (a direct scan of the item list
with Python's own == as ground truth).'''
import enum
import json
import numbers
from decimal import Decimal
from fractions import Fraction

from vp import common
from vp.common import cz, cn, clist

IMPORTS = '''From Coq Require Import List ZArith.
From VV Require Import Lib.Base C17.LibDict C17.Model.
Import ListNotations.
'''

EXC = {'TypeError': 0, 'NoItemBrowserError': 1, 'TooManyItemsBrowserError': 2, 'ValueError': 3}

# ---------------------------------------------------------------------------
# JSON value specs -> Python objects


class Colour(enum.Enum):
    RED = 1
    GREEN = 2


class Level(enum.IntEnum):
    ONE = 1
    TWO = 2


_NANS = {}


def reset_cache():
    _NANS.clear()


def build(spec):
    tag = spec[0]
    if tag == 'i':
        return int(spec[1])
    if tag == 'f':
        return float(spec[1])
    if tag == 'b':
        return bool(spec[1])
    if tag == 's':
        return str(spec[1])
    if tag == 'n':
        return None
    if tag == 't':
        return tuple(build(s) for s in spec[1])
    if tag == 'l':
        return [build(s) for s in spec[1]]
    if tag == 'd':
        return {'v': spec[1]}
    if tag == 'fs':
        return frozenset(build(s) for s in spec[1])
    if tag == 'by':
        return str(spec[1]).encode()
    if tag == 'nan':           # one object per number and case: `is` matters for NaN
        return _NANS.setdefault(spec[1], float('nan'))
    if tag == 'dec':
        return Decimal(spec[1])
    if tag == 'fr':
        return Fraction(spec[1][0], spec[1][1])
    if tag == 'en':
        return Colour[spec[1]]
    if tag == 'ien':
        return Level[spec[1]]
    raise ValueError(spec)


def same(a, b):
    '''equality as Python containers see it (identity first: NaN)'''
    return a is b or a == b


def is_hashable(obj):
    try:
        hash(obj)
        return True
    except TypeError:
        return False


class Encoder:
    '''objects -> Coq literals.  Hashable objects are numbered by ==-class
    (linear scan with ==, no dict, so that the numbering does not rest on
    __hash__); objects equal to an int n get the code n itself (the model's
    [vpos]); unhashable objects are numbered by identity.'''

    def __init__(self):
        self.keys = ['index']
        self.hvals = []
        self.uvals = []

    def key(self, k):
        for n, other in enumerate(self.keys):
            if other == k:
                return n
        self.keys.append(k)
        return len(self.keys) - 1

    def val(self, v):
        if not is_hashable(v):
            for n, other in enumerate(self.uvals):
                if other is v:
                    return f'(U {cz(n)})'
            self.uvals.append(v)
            return f'(U {cz(len(self.uvals) - 1)})'
        if isinstance(v, numbers.Number) and not isinstance(v, complex):
            try:
                whole = int(v)
                if v == whole and abs(whole) < 10 ** 6:
                    return f'(H {cz(whole)})'
            except (ValueError, OverflowError, ArithmeticError):
                pass
        for n, other in enumerate(self.hvals):
            if other is v or other == v:
                return f'(H {cz(10 ** 6 + n)})'
        self.hvals.append(v)
        return f'(H {cz(10 ** 6 + len(self.hvals) - 1)})'

    def item(self, dic):
        return clist([f'({cz(self.key(k))}, {self.val(v)})' for k, v in dic.items()])

    def items(self, lst):
        return clist([self.item(d) for d in lst])

    def query(self, q):
        return clist([f'({cz(self.key(k))}, {self.val(v)})' for k, v in q])

    def keylist(self, ks):
        return clist([cz(self.key(k)) for k in ks])


# ---------------------------------------------------------------------------
# generator

ALPHA = ['a', 'b', 'c', 'menu', 'drink']
POOL = [['i', 1], ['f', 1.0], ['b', True], ['i', 0], ['f', 0.0], ['b', False], ['i', 2], ['f', 2.0],
        ['s', 'x'], ['s', 'y'], ['s', '1'], ['t', [['i', 1], ['i', 2]]],
        ['t', [['f', 1.0], ['f', 2.0]]], ['t', [['b', True], ['i', 2]]], ['n'],
        ['t', [['s', 'x']]], ['i', -1], ['f', 1.5], ['t', []], ['s', '']]
# unusual hashables: containers, bytes, NaN (two distinct objects), numbers equal to ints, enum members,
# a very long string, the empty string / tuple / frozenset
UNUSUAL = [['fs', [['i', 1], ['i', 2]]], ['fs', [['f', 2.0], ['b', True]]], ['fs', []], ['fs', [['s', 'x']]],
           ['t', [['t', [['i', 1]]], ['s', 'x']]], ['t', [['t', [['f', 1.0]]], ['s', 'x']]],
           ['t', [['fs', [['i', 1]]], ['n']]], ['by', 'x'], ['by', ''], ['n'], ['nan', 0], ['nan', 1],
           ['en', 'RED'], ['en', 'GREEN'], ['ien', 'ONE'], ['ien', 'TWO'], ['s', 'x' * 300], ['s', ''], ['t', []],
           ['i', 1], ['i', 2], ['s', 'x']]
NUMERIC_DEC = [['dec', '1'], ['dec', '2'], ['dec', '2.50'], ['dec', '0']]
NUMERIC_FR = [['fr', [1, 1]], ['fr', [4, 2]], ['fr', [7, 2]], ['fr', [0, 3]]]
# values whose str() / repr() coincide or nearly coincide
LOOKALIKE = [[['i', 3], ['s', '3']], [['n'], ['s', 'None']], [['t', [['i', 1], ['i', 2]]], ['s', '(1, 2)']],
             [['f', 1.0], ['s', '1.0']], [['b', True], ['s', 'True']], [['i', 1], ['s', '1']],
             [['by', 'x'], ['s', "b'x'"]], [['fs', []], ['s', 'frozenset()']], [['s', ''], ['t', []]],
             [['en', 'RED'], ['s', 'Colour.RED']], [['f', 2.5], ['dec', '2.5']]]
DKS = ['results'] * 11 + ['data'] * 5 + ['a'] * 2 + ['res'] * 2


def gen_items(rng, dk, nmax=12, mode='plain'):
    n = rng.choice([0, 1, 1, 2, 2, 3, 3, 4, 5, 6, 8, nmax])
    nkeys = rng.randint(1, 5)
    keys = rng.sample(ALPHA, nkeys)
    if mode == 'unusual':
        pool = rng.sample(UNUSUAL + rng.choice([NUMERIC_DEC, NUMERIC_FR]), rng.randint(3, 8))
    elif mode == 'history':
        pairs = rng.sample(LOOKALIKE, rng.randint(1, 3))
        pool = [v for pair in pairs for v in pair]
        keys = keys[:2]
        n = max(n, 2)
    else:
        pool = rng.sample(POOL, rng.randint(2, 6))
    items = []
    for i in range(n):
        it = []
        if rng.random() < 0.08:
            it.append([['s', 'index'], rng.choice(POOL)])
        for k in keys:
            if rng.random() < 0.7:
                it.append([['s', k], rng.choice(pool)])
        r = rng.random()
        if r < 0.6:
            it.append([['s', dk], ['l', [['i', i]]]])
        elif r < 0.75:
            it.append([['s', dk], ['d', i]])
        elif r < 0.85:
            it.append([['s', dk], rng.choice(POOL)])
        if dk != 'results' and rng.random() < 0.12:
            it.append([['s', 'results'], rng.choice(POOL) if rng.random() < 0.6 else ['l', []]])
        rng.shuffle(it)
        # a dict cannot hold two ==-equal keys: keep the first
        seen, uniq = [], []
        for k, v in it:
            kk = build(k)
            if not any(kk == s for s in seen):
                seen.append(kk)
                uniq.append([k, v])
        items.append(uniq)
    return items, keys, pool


def gen_globals(rng):
    r = rng.random()
    if r < 0.3:
        return None
    return [[rng.choice(['g1', 'g2', 'g3', 'table']), rng.choice(POOL)] for _ in range(rng.randint(0, 3))]


VARIANTS = {('i', 1): [['f', 1.0], ['b', True]], ('f', 1.0): [['i', 1], ['b', True]],
            ('b', True): [['i', 1], ['f', 1.0]], ('i', 0): [['f', 0.0], ['b', False]],
            ('f', 0.0): [['i', 0], ['b', False]], ('b', False): [['i', 0], ['f', 0.0]],
            ('i', 2): [['f', 2.0]], ('f', 2.0): [['i', 2]]}


def variant(rng, spec):
    if len(spec) == 2 and not isinstance(spec[1], list) and (spec[0], spec[1]) in VARIANTS \
            and rng.random() < 0.5:
        return rng.choice(VARIANTS[(spec[0], spec[1])])
    if spec == ['t', [['i', 1], ['i', 2]]] and rng.random() < 0.5:
        return ['t', [['f', 1.0], ['f', 2.0]]]
    return spec


def gen_query(rng, keys, pool, dk, n, items=()):
    q = []
    target = rng.choice(items) if items and rng.random() < 0.75 else None
    meta = [(k[1], v) for k, v in (target or []) if k[0] == 's' and k[1] not in (dk, 'index')
            and v[0] not in ('l', 'd')]
    for _ in range(rng.choice([0, 1, 1, 1, 2, 2, 3])):
        r = rng.random()
        if meta and r < 0.7:
            k, v = rng.choice(meta)
            v = variant(rng, v)
        elif r < 0.75 and keys:
            k = rng.choice(keys)
            v = rng.choice(pool) if rng.random() < 0.8 else rng.choice(POOL)
        elif r < 0.85:
            k = 'index'
            v = rng.choice([['i', rng.randint(-1, n + 1)], ['i', rng.randint(0, max(n - 1, 0))],
                            ['b', True], ['f', 1.0], ['f', 0.0], ['s', '0']])
        elif r < 0.9:
            k = dk
            v = rng.choice(POOL)
        elif r < 0.96:
            k = rng.choice(ALPHA)
            v = rng.choice(POOL)
        else:
            k = 'zz'
            v = rng.choice(POOL)
        if k not in [kk for kk, _ in q]:
            q.append([k, v])
    return q


def gen_keys(rng, keys, dk):
    out = []
    for _ in range(rng.choice([0, 0, 0, 1, 1, 2])):
        r = rng.random()
        if r < 0.55 and keys:
            out.append(['s', rng.choice(keys)])
        elif r < 0.7:
            out.append(['s', rng.choice(ALPHA)])
        elif r < 0.8:
            out.append(['s', 'index'])
        elif r < 0.88:
            out.append(['s', dk])
        elif r < 0.94:
            out.append(['s', 'zz'])
        else:
            out.append(rng.choice([['i', 1], ['b', True], ['i', 7], ['n']]))
    return out


def gen_case(rng):
    '''The generator follows the chain with its own direct scan (no valjean
    code) so that later operations of a chain are aimed at items that are
    still there.'''
    reset_cache()
    dk = rng.choice(DKS)
    r0 = rng.random()
    mode = 'plain' if r0 < 0.6 else 'unusual' if r0 < 0.8 else 'history'
    items, keys, pool = gen_items(rng, dk, mode=mode)
    case = {'items': items, 'dk': dk, 'globals': gen_globals(rng), 'ops': []}

    def stamped(specs):
        out = []
        for j, it in enumerate(specs):
            dic = dict((build(k), build(v)) for k, v in it)
            dic['index'] = j
            out.append((it, dic))
        return out

    cur = stamped(items)
    for _ in range(rng.choice([1, 2, 2, 3, 3, 4, 5]) if mode != 'history' else rng.randint(3, 8)):
        r = rng.random()
        if not cur and r < 0.6:
            r = 0.7         # an empty browser: merge something into it
        specs = [it for it, _ in cur]
        if mode == 'history' and r < 0.8:
            # HISTORIES: several queries on the SAME browser object (stay = True: the sub-browser is checked
            # and dropped), one key, values whose str()/repr() coincide with those of the previous queries
            key = rng.choice(keys)
            q = [[key, rng.choice(pool) if rng.random() < 0.9 else rng.choice(POOL)]]
            if rng.random() < 0.25 and len(keys) > 1:
                q.append([[k for k in keys if k != key][0], rng.choice(pool)])
            stay = rng.random() < 0.85
            kind = 'filter' if rng.random() < 0.6 else 'select'
            case['ops'].append([kind, [], [], q, stay])
            if kind == 'filter' and not stay:
                sel = scan([d for _, d in cur], dk, [], [], [(k, build(v)) for k, v in q])
                cur = stamped([it for it, d in cur if any(d is x for x in sel)])
            continue
        if r < 0.65:
            target = rng.choice(specs) if specs and rng.random() < 0.8 else None
            tkeys = [k[1] for k, _ in (target or [])]
            incl = [k for k in gen_keys(rng, keys, dk) if target is None or rng.random() < 0.3
                    or k[-1] in tkeys or k[-1] == 'index']
            excl = [k for k in gen_keys(rng, keys, dk) if target is None or rng.random() < 0.3
                    or (k[-1] not in tkeys and k[-1] != 'index')]
            q = gen_query(rng, keys, pool, dk, len(cur), [target] if target else specs)
            if r < 0.45:
                case['ops'].append(['filter', incl, excl, q])
                sel = scan([d for _, d in cur], dk, [build(k) for k in incl], [build(k) for k in excl],
                           [(k, build(v)) for k, v in q])
                cur = stamped([it for it, d in cur if any(d is x for x in sel)])
            else:
                case['ops'].append(['select', incl, excl, q])
        elif r < 0.8:
            dk2 = dk if rng.random() < 0.85 else rng.choice(DKS)
            items2, keys2, pool2 = gen_items(rng, dk2, nmax=5, mode=mode if mode != 'history' else 'plain')
            if mode == 'history':       # the merged items carry the same look-alike values under the same keys
                items2 = [[[k, rng.choice(pool)] if k[1] in keys else [k, v] for k, v in it] for it in items2]
                keys2 = []
            keys = sorted(set(keys) | set(keys2))
            pool = pool + [p for p in pool2 if p not in pool]
            case['ops'].append(['merge', {'items': items2, 'dk': dk2, 'globals': gen_globals(rng)}])
            if dk2 == dk:
                cur = stamped(specs + items2)
        elif r < 0.9:
            case['ops'].append(['keys'])
        else:
            case['ops'].append(['vals', rng.choice(gen_keys(rng, keys, dk) or [['s', dk]])])
    return case


CORPUS = [
    # the defect of the pinned tree: data key other than the default, unhashable data
    {'items': [[[['s', 'menu'], ['s', '1']], [['s', 'data'], ['l', [['i', 0]]]]],
               [[['s', 'menu'], ['s', '2']], [['s', 'data'], ['l', [['i', 1]]]]]],
     'dk': 'data', 'globals': [['g1', ['i', 42]]],
     'ops': [['filter', [], [], [['menu', ['s', '1']]]], ['keys'], ['filter', [], [], []]]},
    # same with hashable data: no exception, but the data gets indexed and the data key changes
    {'items': [[[['s', 'menu'], ['s', '1']], [['s', 'data'], ['s', 'payload']]]],
     'dk': 'data', 'globals': None,
     'ops': [['filter', [], [], [['menu', ['s', '1']]]], ['keys'], ['vals', ['s', 'data']]]},
    # 1 / 1.0 / True collide; tuples
    {'items': [[[['s', 'a'], ['i', 1]], [['s', 'results'], ['l', []]]],
               [[['s', 'a'], ['f', 1.0]], [['s', 'results'], ['l', []]]],
               [[['s', 'a'], ['b', True]]],
               [[['s', 'a'], ['t', [['i', 1], ['i', 2]]]]],
               [[['s', 'a'], ['t', [['f', 1.0], ['b', False]]]]],
               [[['s', 'b'], ['i', 1]]]],
     'dk': 'results', 'globals': [],
     'ops': [['filter', [], [], [['a', ['b', True]]]], ['vals', ['s', 'a']],
             ['select', [], [], [['index', ['f', 1.0]]]],
             ['filter', [['s', 'results']], [['s', 'b']], []]]},
    # empty browser, absent key, absent value, data key in the query
    {'items': [], 'dk': 'results', 'globals': None,
     'ops': [['filter', [], [], []], ['select', [], [], []], ['keys'], ['vals', ['s', 'a']],
             ['merge', {'items': [], 'dk': 'results', 'globals': [['g', ['i', 1]]]}]]},
    {'items': [[[['s', 'a'], ['i', 1]], [['s', 'results'], ['i', 5]]], [[['s', 'a'], ['i', 2]]]],
     'dk': 'results', 'globals': [['g1', ['i', 1]], ['g2', ['i', 2]]],
     'ops': [['filter', [], [], [['zz', ['i', 1]]]], ['filter', [], [], [['a', ['i', 3]]]],
             ['filter', [], [], [['results', ['i', 5]]]], ['select', [], [], [['a', ['i', 2]]]],
             ['merge', {'items': [[[['s', 'a'], ['i', 1]]]], 'dk': 'results',
                        'globals': [['g2', ['i', 3]], ['g3', ['i', 4]]]}],
             ['merge', {'items': [], 'dk': 'data', 'globals': None}]]},
    # unhashable metadata: the documented TypeError of the constructor
    {'items': [[[['s', 'a'], ['l', []]]]], 'dk': 'results', 'globals': None, 'ops': [['keys']]},
    # an input 'index' key is overwritten in the browser's copy only
    {'items': [[[['s', 'index'], ['s', 'junk']], [['s', 'a'], ['i', 1]]], [[['s', 'a'], ['i', 1]]]],
     'dk': 'results', 'globals': None,
     'ops': [['select', [], [], [['index', ['i', 1]]]], ['filter', [], [], [['a', ['i', 1]]]],
             ['filter', [], [], [['index', ['i', 1]]]]]},
]


# ---------------------------------------------------------------------------
# implementation + oracle

def snap_dicts(lst):
    return [[(repr(k), repr(v), id(v)) for k, v in d.items()] for d in lst]


def snap_browser(br):
    return (snap_dicts(br.content), repr(br.data_key), sorted((repr(k), repr(v)) for k, v in br.globals.items()),
            br.index.dump(sort=False))


def strip(dic):
    return {k: v for k, v in dic.items() if not (isinstance(k, str) and k == 'index')}


def scan(content, dk, incl, excl, q):
    '''the direct scan of the item list the property talks about'''
    out = []
    for it in content:
        ok = all(k != dk and k in it and same(it[k], v) for k, v in q)
        ok = ok and all(k in it for k in incl) and not any(k in it for k in excl)
        if ok:
            out.append(it)
    return out


def same_items(ctx, what, got, want, dk, case, key):
    '''got: items of the new browser; want: the items they must be copies of'''
    if len(got) != len(want):
        ctx.oracle_failure(f'{what}: {len(got)} items instead of {len(want)} :: {case}', case, key=key + '-count')
        return
    for j, (g, w) in enumerate(zip(got, want)):
        if strip(g) != strip(w) or type(g) is not dict:
            ctx.oracle_failure(f'{what}: item {j} is not the selected item, in order :: {case}', case,
                               key=key + '-items')
            return
        if dk in w and g[dk] is not w[dk]:
            ctx.oracle_failure(f'{what}: item {j}: data object replaced :: {case}', case,
                               key=key + '-data')
            return
        if g.get('index') != j:
            ctx.oracle_failure(f'{what}: item {j} carries index {g.get("index")!r} :: {case}', case,
                               key=key + '-index')
            return


def set_equal(got, want):
    return all(any(same(g, w) for w in want) for g in got) and all(any(same(g, w) for g in got) for w in want)


def obs_browser(enc, br):
    return ('(OBrowser ' + enc.items(br.content) + ' ' + cz(enc.key(br.data_key)) + ' '
            + enc.item(br.globals) + ')')


def run_impl(ctx, case, steps):
    from valjean.eponine import browser as bmod
    Browser = bmod.Browser
    enc = Encoder()
    reset_cache()

    def mk(desc):
        items = [dict((build(k), build(v)) for k, v in it) for it in desc['items']]
        glob = None if desc['globals'] is None else {k: build(v) for k, v in desc['globals']}
        return items, glob, desc['dk']

    def construct(desc, tag):
        items, glob, dk = mk(desc)
        before = snap_dicts(items)
        gbefore = None if glob is None else snap_dicts([glob])
        bad_meta = any(not is_hashable(v) for it in items for k, v in it.items() if k != dk)
        state = (enc.items(items), cz(enc.key(dk)), enc.item(glob or {}))
        try:
            br = Browser(items, data_key=dk, global_vars=glob)
        except Exception as exc:  # noqa
            br = exc
        if snap_dicts(items) != before or (glob is not None and snap_dicts([glob]) != gbefore):
            ctx.oracle_failure(f'{tag}: input dictionaries modified :: {case}', case, key='inputs-modified')
        if isinstance(br, Exception):
            if not (bad_meta and isinstance(br, TypeError)):
                ctx.oracle_failure(f'{tag}: constructor raises {type(br).__name__} :: {case}', case,
                                   key='make-raises-' + type(br).__name__)
            return state, br, items
        if bad_meta:
            ctx.oracle_failure(f'{tag}: unhashable metadata accepted :: {case}', case, key='make-accepts')
        same_items(ctx, tag, br.content, items, dk, case, 'make')
        if br.data_key != dk or br.globals != (glob or {}):
            ctx.oracle_failure(f'{tag}: data key or globals not those given :: {case}', case, key='make-meta')
        return state, br, items

    def result(obj):
        if isinstance(obj, Exception):
            return f'(Raise {cn(EXC.get(type(obj).__name__, 9))})'
        return '(Ok ' + obj + ')'

    nontrivial = False
    state, br, inputs = construct(case, 'Browser()')
    steps.append((case, 'ZMake', state,
                  result(br if isinstance(br, Exception) else obs_browser(enc, br))))
    if isinstance(br, Exception):
        ctx.count('make_raises')
        return False
    in_snap = snap_dicts(inputs)
    for op in case['ops']:
        kind = op[0]
        ctx.count(kind)
        before = snap_browser(br)
        attrs0 = {name: id(val) for name, val in vars(br).items()}
        state = (enc.items(br.content), cz(enc.key(br.data_key)), enc.item(br.globals))
        dk = br.data_key
        new_br = None
        if kind in ('filter', 'select'):
            incl = [build(k) for k in op[1]]
            excl = [build(k) for k in op[2]]
            q = [(k, build(v)) for k, v in op[3]]
            want = scan(br.content, dk, incl, excl, q)
            zargs = f'{enc.keylist(incl)} {enc.keylist(excl)} {enc.query(q)}'
            try:
                if kind == 'filter':
                    out = br.filter_by(include=tuple(incl), exclude=tuple(excl), **dict(q))
                else:
                    out = br.select_by(include=tuple(incl), exclude=tuple(excl), **dict(q))
            except Exception as exc:  # noqa
                out = exc
            if kind == 'filter':
                zop = f'(ZFilter {zargs})'
                if isinstance(out, Exception):
                    ctx.oracle_failure(f'filter_by raises {type(out).__name__} :: {case}', case,
                                       key='filter-raises-' + type(out).__name__)
                    res = result(out)
                else:
                    same_items(ctx, 'filter_by', out.content, want, dk, case, 'filter')
                    if out.data_key != dk:
                        ctx.oracle_failure(f'filter_by: data key {out.data_key!r} instead of {dk!r} '
                                           f':: {case}', case, key='filter-data-key')
                    if out.globals != br.globals:
                        ctx.oracle_failure(f'filter_by: globals changed :: {case}', case, key='filter-globals')
                    res = result(obs_browser(enc, out))
                    new_br = out
                    if want and len(want) < len(br.content):
                        nontrivial = True
                    ctx.count('filter_selects_%s' % ('none' if not want else 'all'
                                                     if len(want) == len(br.content) else 'some'))
            else:
                zop = f'(ZSelect {zargs})'
                name = type(out).__name__
                if len(want) == 0:
                    good = name == 'NoItemBrowserError'
                elif len(want) > 1:
                    good = name == 'TooManyItemsBrowserError'
                else:
                    good = isinstance(out, dict) and strip(out) == strip(want[0]) \
                        and (dk not in want[0] or out[dk] is want[0][dk])
                    nontrivial = nontrivial or good
                if not good:
                    ctx.oracle_failure(f'select_by with {len(want)} matching items gives {name} :: {case}',
                                       case, key='select-' + str(min(len(want), 2)))
                ctx.count('select_matches_%d' % min(len(want), 2))
                res = result(out if isinstance(out, Exception) else f'(OItem {enc.item(out)})')
        elif kind == 'merge':
            state2, other, inputs2 = construct(op[1], 'other Browser()')
            steps.append((case, 'ZMake', state2,
                          result(other if isinstance(other, Exception) else obs_browser(enc, other))))
            if isinstance(other, Exception):
                ctx.count('merge_other_raises')
                continue
            obefore = snap_browser(other)
            zop = f'(ZMerge {enc.items(other.content)} {cz(enc.key(other.data_key))} {enc.item(other.globals)})'
            try:
                out = br.merge(other)
            except Exception as exc:  # noqa
                out = exc
            if snap_browser(other) != obefore:
                ctx.oracle_failure(f'merge modifies its argument :: {case}', case, key='merge-modifies-arg')
            if other.data_key != dk:
                if not isinstance(out, ValueError):
                    ctx.oracle_failure(f'merge of browsers with different data keys gives '
                                       f'{type(out).__name__} :: {case}', case, key='merge-data-keys')
                ctx.count('merge_value_error')
            elif isinstance(out, Exception):
                ctx.oracle_failure(f'merge raises {type(out).__name__} :: {case}', case,
                                   key='merge-raises-' + type(out).__name__)
            else:
                same_items(ctx, 'merge', out.content, br.content + other.content, dk, case, 'merge')
                wantg = dict(br.globals)
                wantg.update(other.globals)
                if out.data_key != dk or out.globals != wantg:
                    ctx.oracle_failure(f'merge: data key or globals wrong :: {case}', case, key='merge-meta')
                new_br = out
                nontrivial = nontrivial or bool(other.content and br.content)
            res = result(out if isinstance(out, Exception) else obs_browser(enc, out))
        elif kind == 'keys':
            zop = 'ZKeys'
            out = list(br.keys())
            want = []
            for it in br.content:
                want += [k for k in it if k != dk]
            if not set_equal(out, want) or any(k not in br for k in want) or dk in br and dk not in want:
                ctx.oracle_failure(f'keys() = {out!r} are not the metadata keys of the items :: {case}',
                                   case, key='keys')
            res = result(f'(OKeys {enc.keylist(out)})')
        else:
            key = build(op[1])
            zop = f'(ZVals {cz(enc.key(key))})'
            out = list(br.available_values(key))
            want = [it[key] for it in br.content if key in it and key != dk]
            if not set_equal(out, want):
                ctx.oracle_failure(f'available_values({key!r}) = {out!r}, items carry {want!r} :: {case}',
                                   case, key='vals')
            res = result('(OVals ' + clist([enc.val(v) for v in out]) + ')')
        if snap_browser(br) != before:
            ctx.oracle_failure(f'{kind} modifies the browser it is called on :: {case}', case,
                               key='browser-modified')
        attrs1 = {name: id(val) for name, val in vars(br).items()}
        if attrs1 != attrs0:
            diff = sorted(set(attrs0) ^ set(attrs1)) + sorted(k for k in attrs0 if k in attrs1 and attrs0[k] != attrs1[k])
            # structural, not behavioural: a harmless cache on the browser object would do this too.
            # Recorded in the evidence only.
            ctx.count('note_browser_attributes_changed')
            note = f'NOTE (not a violation): {kind} leaves new or re-bound instance attributes {diff} on the browser'
            if note not in ctx.notes:
                ctx.notes.append(note)
        if snap_dicts(inputs) != in_snap:
            ctx.oracle_failure(f'{kind} modifies the input dictionaries :: {case}', case,
                               key='inputs-modified')
        steps.append((case, zop, state, res))
        if new_br is not None and not (len(op) > 4 and op[4]):
            br = new_br
        if len(op) > 4 and op[4]:
            ctx.count('query_on_same_browser')
    return nontrivial


# ---------------------------------------------------------------------------
# small-scope exhaustive stream (model side: C17.Model.check_exh)

EXH_KEYS = {'index': 0, 'a': 1, 'b': 2, 'results': 3, 'data': 4}
ONES = [1, 1.0, True, 1]          # the colliding representatives of the value class "1", by item position
EXH_QVALS = [None, True, 'x', 'zz']     # per key: not in the query / class 1 / 'x' / a value no item carries
EXH_SUBSETS = [(), ('a',), ('b',), ('a', 'b')]


def exh_queries():
    for ka in EXH_QVALS:
        for kb in EXH_QVALS:
            kwargs = {}
            if ka is not None:
                kwargs['a'] = ka
            if kb is not None:
                kwargs['b'] = kb
            for incl in EXH_SUBSETS:
                for excl in EXH_SUBSETS:
                    yield incl, excl, kwargs


def exh_lists(maxlen):
    '''all item lists of length <= maxlen; an item = (value of a, value of b), each absent / 1 / 'x' '''
    import itertools
    opts = [(va, vb) for va in (None, 1, 'x') for vb in (None, 1, 'x')]
    for n in range(maxlen + 1):
        yield from itertools.product(opts, repeat=n)


def run_exhaustive(ctx, maxlen, stride, shards):
    '''every list (every `stride`-th one of the longest length when stride > 1) x both data keys x ALL
    queries; returns the number of (list, data key, query) triples enumerated'''
    from valjean.eponine.browser import Browser
    queries = list(exh_queries())
    glob = {'g': 42}
    cases = []
    count = 0
    nlists = 0
    offset = ctx.seed % stride if stride > 1 else 0
    for num, spec in enumerate(exh_lists(maxlen)):
        if stride > 1 and len(spec) == maxlen and num % stride != offset:
            continue
        nlists += 1
        for dk in ('results', 'data'):
            items = []
            for pos, (va, vb) in enumerate(spec):
                dic = {}
                if va is not None:
                    dic['a'] = ONES[pos] if va == 1 else va
                if vb is not None:
                    dic['b'] = ONES[(pos + 1) % 4] if vb == 1 else vb
                dic[dk] = [pos]
                items.append(dic)
            datas = [it[dk] for it in items]
            br = Browser(items, data_key=dk, global_vars=glob)
            packed = 0
            for k, (incl, excl, kwargs) in enumerate(queries):
                count += 1
                want = [pos for pos, it in enumerate(items)
                        if all(key in it and it[key] == val for key, val in kwargs.items())
                        and all(key in it for key in incl) and not any(key in it for key in excl)]
                try:
                    sub = br.filter_by(include=incl, exclude=excl, **kwargs)
                    ids = [next((p for p, d in enumerate(datas) if d is it.get(dk)), -1) for it in sub.content]
                    good = (all(i >= 0 for i in ids) and ids == sorted(set(ids))
                            and all(it.get('index') == j and type(it.get('index')) is int
                                    for j, it in enumerate(sub.content))
                            and sub.data_key == dk and sub.globals == glob)
                    mask = sum(1 << i for i in ids) if good else 16
                    if not good or ids != want:
                        case = {'exhaustive': True, 'items': [list(map(repr, it.items())) for it in items],
                                'dk': dk, 'include': incl, 'exclude': excl, 'query': repr(kwargs)}
                        ctx.oracle_failure(f'filter_by selects positions {ids} (well-formed: {good}), a direct '
                                           f'scan selects {want} :: {case}', case, key='exhaustive-filter')
                except Exception as exc:  # noqa
                    mask = 17
                    case = {'exhaustive': True, 'items': [list(map(repr, it.items())) for it in items],
                            'dk': dk, 'include': incl, 'exclude': excl, 'query': repr(kwargs)}
                    ctx.oracle_failure(f'filter_by raises {type(exc).__name__} :: {case}', case,
                                       key='exhaustive-raises-' + type(exc).__name__)
                packed |= mask << (5 * k)
            zitems = clist([clist([f'({cz(EXH_KEYS[key])}, '
                                   + (f'(U {cz(val[0])})' if key == dk else
                                      '(H 1%Z)' if val == 1 else '(H 1000000%Z)') + ')'
                                   for key, val in it.items()]) for it in items])
            cases.append(({'exhaustive': True, 'items': [list(map(repr, it.items())) for it in items], 'dk': dk},
                          f'({zitems}, {cz(EXH_KEYS[dk])}, {packed}%Z)'))
    size = 60
    for k in range(0, len(cases), size):
        chunk = cases[k:k + size]
        shards.append(('exh', chunk,
                       'Definition cases : list (list zitem * Z * Z) :=\n '
                       + clist([c[1] for c in chunk]).replace('; ([', ';\n ([')
                       + '.\nEval vm_compute in bad_indices (map check_exh cases).'))
    ctx.count('exhaustive_lists', nlists)
    ctx.count('exhaustive_filter_calls', count)
    return count, nlists


# ---------------------------------------------------------------------------
# two overlapping selections on ONE browser object (worker threads)

class Probe:
    '''a hashable value equal to `value`; the first time it is hashed (inside the selection running in the
    worker thread) it tells the main thread and waits until the main thread has run another selection'''

    def __init__(self, value, entered, resume):
        self.value, self.entered, self.resume, self.armed = value, entered, resume, True

    def __hash__(self):
        if self.armed:
            self.armed = False
            self.entered.set()
            self.resume.wait(5)
        return hash(self.value)

    def __eq__(self, other):
        return self.value == (other.value if isinstance(other, Probe) else other)

    def __repr__(self):
        return repr(self.value)


def selection_signature(br, sel, qvals=None):
    kind, incl, excl, q = sel
    kwargs = dict(q if qvals is None else qvals)
    try:
        if kind == 'filter':
            out = br.filter_by(include=tuple(incl), exclude=tuple(excl), **kwargs)
            return ['browser', repr(out.data_key), [repr(sorted(strip(it).items(), key=repr)) for it in out.content]]
        out = br.select_by(include=tuple(incl), exclude=tuple(excl), **kwargs)
        return ['item', repr(sorted(strip(out).items(), key=repr))]
    except Exception as exc:  # noqa
        return ['raise', type(exc).__name__]


def run_concurrent(ctx, cases, nmax):
    import threading
    from valjean.eponine.browser import Browser
    rng = ctx.rng
    done = 0
    for case in cases:
        if done >= nmax:
            break
        reset_cache()
        items = [dict((build(k), build(v)) for k, v in it) for it in case['items']]
        dk = case['dk']
        meta = [(k, v) for it in items for k, v in it.items()
                if isinstance(k, str) and k not in (dk, 'index') and is_hashable(v)]
        if len(items) < 2 or not meta:
            continue
        try:
            br = Browser(items, data_key=dk)
        except Exception:  # noqa
            continue
        keys = sorted({k for k, _ in meta})
        allkeys = [['s', k] for k in keys] + [['s', dk], ['s', 'zz']]

        def subset():
            return [build(k) for k in rng.sample(allkeys, rng.choice([0, 1, 1, 2]))]

        ka, va = rng.choice([m for m in meta if m[1] == m[1]] or meta)    # (a probe cannot stand for a NaN: identity)
        if va != va:
            continue
        sel_a = [rng.choice(['filter', 'filter', 'select']), subset(), subset(), [(ka, va)]]
        kb, vb = rng.choice(meta)
        sel_b = [rng.choice(['filter', 'select']), subset(), subset(), [(kb, vb)] if rng.random() < 0.7 else []]
        if (sel_a[1], sel_a[2]) == (sel_b[1], sel_b[2]):
            sel_b[1] = [build(rng.choice(allkeys))] if not sel_b[1] else []
        done += 1
        rcase = {'concurrent': True, 'items': case['items'], 'dk': dk,
                 'A': [sel_a[0], list(map(repr, sel_a[1])), list(map(repr, sel_a[2])), repr(sel_a[3])],
                 'B': [sel_b[0], list(map(repr, sel_b[1])), list(map(repr, sel_b[2])), repr(sel_b[3])]}
        seq_a, seq_b = selection_signature(br, sel_a), selection_signature(br, sel_b)
        # the sequential answers are themselves checked against the direct scan
        for sel, seq in ((sel_a, seq_a), (sel_b, seq_b)):
            want = scan(br.content, dk, sel[1], sel[2], sel[3])
            if sel[0] == 'filter' and (seq[0] != 'browser' or len(seq[2]) != len(want)):
                ctx.oracle_failure(f'filter_by selects {seq}, a direct scan {len(want)} items :: {rcase}', rcase,
                                   key='concurrent-sequential-control')
        entered, resume = threading.Event(), threading.Event()
        box = {}
        qvals = [(ka, Probe(va, entered, resume))]
        thread = threading.Thread(target=lambda: box.update(out=selection_signature(br, sel_a, qvals)), daemon=True)
        attrs0 = {name: id(val) for name, val in vars(br).items()}
        thread.start()
        overlapped = entered.wait(2)
        out_b = selection_signature(br, sel_b)
        resume.set()
        thread.join(10)
        ctx.count('concurrent_pairs')
        if overlapped:
            ctx.count('concurrent_pairs_overlapped')
        if thread.is_alive():
            ctx.oracle_failure(f'a selection blocked by another one on the same browser :: {rcase}', rcase,
                               key='concurrent-deadlock')
            continue
        attrs1 = {name: id(val) for name, val in vars(br).items()}
        rebound = sorted(set(attrs0) ^ set(attrs1)) + sorted(k for k in attrs0 if k in attrs1 and attrs0[k] != attrs1[k])
        if rebound:
            ctx.count('note_browser_attributes_changed')
        if box.get('out') != seq_a or out_b != seq_b:
            ctx.oracle_failure(f'two overlapping selections on one browser: A gives {box.get("out")} (alone: {seq_a}), '
                               f'B gives {out_b} (alone: {seq_b})'
                               + (f'; instance attributes re-bound by the selections: {rebound}' if rebound else '')
                               + f' :: {rcase}', rcase, key='concurrent-selections')


def coq_case(step):
    _case, zop, (cnt, dk, glob), res = step
    return f'({cnt}, {dk}, {glob}, {zop}, {res})'


def run(ctx):
    common.import_repo()
    ctx.rule = ('random item lists (0-12 dicts, 1-5 metadata keys from a 5-letter alphabet, values from a '
                'pool with 1/1.0/True, 0/0.0/False, equal tuples, None, strings; data under the data key '
                '(default or not) present/absent, hashable or not; stray "index" keys) and chains of 1-5 '
                'operations (filter_by with include/exclude, select_by, merge, keys, available_values) with '
                'present/absent keys and values, the data key and "index" in queries; non-trivial = some '
                'filter keeps a proper non-empty part, a select returns an item, or a merge joins two '
                'non-empty browsers; distinct by case content')
    rng = ctx.rng
    cases = [json.loads(json.dumps(c)) for c in CORPUS]
    nrand = 1000 if ctx.tier == "quick" else 20000
    cases += [gen_case(rng) for _ in range(nrand)]
    steps = []
    for case in cases:
        nontrivial = run_impl(ctx, case, steps)
        ctx.case_seen(case, nontrivial, sample_every=997)
    run_concurrent(ctx, cases, 200 if ctx.tier == 'quick' else 5000)
    shard_size = 400
    shards = []
    for k in range(0, len(steps), shard_size):
        chunk = steps[k:k + shard_size]
        shards.append(('rand', chunk,
                       'Definition cases : list (list zitem * Z * zitem * zop * res obs) :=\n '
                       + clist([coq_case(s) for s in chunk]).replace('; (', ';\n (')
                       + '.\nEval vm_compute in bad_indices (map check_case cases).'))
    # exhaustive small scope: quick = every list of length <= 3, thorough = length <= 4
    # (quick: complete to length 2 plus every 8th list of length 3, rotating with the seed)
    quick = ctx.tier == 'quick'
    maxlen = 3 if quick else 4
    ncalls, nlists = run_exhaustive(ctx, maxlen, 8 if quick else 1, shards)
    ctx.extra['exhaustive'] = True
    ctx.extra['exhaustive_bound'] = (
        ('complete for length <= 2, plus a 1/8 slice (by seed) of length 3: ' if quick else '')
        + f'all item lists of length <= {2 if quick else maxlen} over keys a, b with values absent / 1 (as 1, 1.0, True by '
        f'position) / "x" ({nlists} lists) x data key in (results, data) x all 256 queries (per key: absent / '
        f'True / "x" / a value no item has; include and exclude any subset of the keys): {ncalls} filter_by '
        f'calls, each checked by the direct scan and by the model (check_exh)')
    ctx.rule += '; EXHAUSTIVE: ' + ctx.extra['exhaustive_bound']
    outs = common.coq_eval(ctx.pid, IMPORTS, [sh[2] for sh in shards])
    for (tag, chunk, _), out in zip(shards, outs):
        for i in common.parse_nat_list(out):
            if tag == 'rand':
                step = chunk[i]
                ctx.mismatch(f'step {step[1][:200]}: implementation observed {step[3][:300]}',
                             {'case': step[0], 'step': step[1], 'state': step[2], 'impl': step[3]})
            else:
                ctx.mismatch(f'exhaustive stream: some query on {chunk[i][0]} is answered differently by the model',
                             chunk[i][0])
    ctx.extra['exhaustive_model_cases'] = sum(len(sh[1]) for sh in shards if sh[0] == 'exh')
    ctx.extra['model_steps_compared'] = len(steps)
    ctx.assumptions = ['Python == on the generated values is the ground truth of the oracle (direct scan)',
                       'values are encoded for the model by ==-class (hashable) or identity (unhashable)',
                       'NaN-like values (x != x) and unhashable query values are not generated',
                       "data_key == 'index' (the reserved key) is not generated"]


def replay(ctx, path):
    common.import_repo()
    data = json.load(open(path))
    case = data['case']
    if isinstance(case, dict) and 'case' in case:
        case = case['case']
    steps = []
    run_impl(ctx, case, steps)
    print('case:', json.dumps(case))
    for step in steps:
        print('impl:', step[1], '->', step[3][:400])
    body = ('Definition cases : list (list zitem * Z * zitem * zop * res obs) :=\n '
            + clist([coq_case(s) for s in steps]) + '.\n'
            'Eval vm_compute in bad_indices (map check_case cases).\n'
            'Eval vm_compute in map (fun c => match c with (cnt, dk, g, o, _) => run_zop cnt dk g o end) cases.')
    print('model (indices of steps where it disagrees, then its results):')
    print(common.coq_eval(ctx.pid, IMPORTS, [body])[0])
    for v in ctx.violations:
        print('oracle:', v[1][:600])
    return 0

#!/usr/bin/env python3
'''Regenerate /verif/MANIFEST.json from the table below (keeps it valid).'''
import json
import os

VERIF = os.path.dirname(os.path.dirname(os.path.abspath(__file__)))

# id -> (technique, level text, level_note, design_ref)
CLAIMED = {
    'C09': ('Coq proof over a hand-written Gallina model of Dataset.__getitem__/squeeze '
            '(n-d slice index theorem, bins theorem, well-formedness) + per-run correspondence '
            'model vs implementation via generated cases.v/vm_compute + numpy oracle',
            'Theorems (closed under the global context) for every rank, shape, bins kind and every '
            'unit-step slice: result cells are the cells the slice selects, bins are those of the '
            'retained cells, results are well formed, squeeze removes exactly unit dimensions. The '
            'model is tied to /repo on every run: exhaustive 1-d sweep + random n-d chains, compared '
            'inside Coq; the property oracle (numpy/range as ground truth) runs on every case.',
            'Trusted: Coq kernel + vm_compute; hand-written model (tie = sampled/exhaustive-1-d '
            'correspondence); numpy slicing as oracle; "original unchanged" is checked by snapshots, '
            'not proved (the model is functional).',
            'DESIGN.md 5 C09'),
}

PENDING_REASON = 'check not built yet in this round (design in DESIGN.md section 5); will be claimed when its check exists'

ALL = [f'C{n:02d}' for n in range(1, 21)]


def main():
    mdir = os.path.join(VERIF, 'harness', 'manifest.d')
    if os.path.isdir(mdir):
        for name in sorted(os.listdir(mdir)):
            if name.endswith('.json'):
                ent = json.load(open(os.path.join(mdir, name)))
                CLAIMED[ent['property_id']] = (ent['technique'], ent['level_text'],
                                               ent['level_note'], ent.get('design_ref', 'DESIGN.md 5'))
    checks = []
    for pid in ALL:
        if pid not in CLAIMED:
            continue
        tech, text, note, ref = CLAIMED[pid]
        checks.append({
            'property_id': pid,
            'quick_cmd': f'./check {pid} --tier quick',
            'thorough_cmd': f'./check {pid} --tier thorough',
            'evidence_file': f'/verif/evidence/{pid}.json',
            'replay_cmd_template': './check ' + pid + ' --replay {path}',
            'engine': 'coq-model+correspondence',
            'level_claimed': {'category': 'proof', 'text': text, 'design_ref': ref},
            'level_note': note,
            'technique': tech,
        })
    manifest = {
        'version': 1,
        'setup_cmd': './check setup',
        'hooks': {
            'guard': 'VALJEAN_VERIF',
            'enable': 'no source hooks: checks import /repo working tree directly '
                      '(PYTHONPATH=/repo) and instrument by monkeypatching from the harness',
            'baseline_off_cmd': 'cd /repo && /venv/bin/python -m pytest -ra -q -p no:cacheprovider '
                                '--timeout=900 --continue-on-collection-errors',
            'source_commits': [],
            'add_only': True,
        },
        'engines': [{
            'name': 'coq-model+correspondence',
            'path': '/verif/check',
            'serves_properties': sorted(CLAIMED),
            'kind_free_text': 'Coq 8.16 theorems over hand-written Gallina models (coq/), tied to '
                              '/repo on every run by a correspondence check that evaluates the model '
                              'with vm_compute on generated cases and compares with the implementation; '
                              'property oracle evaluated on every implementation run',
        }],
        'checks': checks,
        'notes': 'All checks: ./check <id> [--tier quick|thorough] [--seed N]; honour VERIF_SEED/VERIF_TIER; '
                 'known findings in /verif/known_findings.json.',
        'not_applicable': [{'property_id': pid, 'reason': PENDING_REASON}
                           for pid in ALL if pid not in CLAIMED],
    }
    with open(os.path.join(VERIF, 'MANIFEST.json'), 'w') as fil:
        json.dump(manifest, fil, indent=1)
    print('MANIFEST.json:', len(checks), 'checks')


if __name__ == '__main__':
    main()

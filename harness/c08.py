'''C08: dataset arithmetic (+ - * / with datasets, arrays, numbers), copy, mask,
squeeze chains.  Implementation (valjean.eponine.dataset) vs Coq model
C08/Model.v, plus the property oracle (plain numpy operations and python float
arithmetic as ground truth, np.shares_memory and deep snapshots for aliasing).'''
import copy
import json
import math
import operator
import os
import time
from collections import OrderedDict

import numpy as np

from vp import common
from vp.common import cn, cb, clist, cstr, canon_bits, bits_f64

IMPORTS = '''From Coq Require Import List ZArith String Uint63.
From VV Require Import Lib.Base Lib.B64 C08.Model C08.Lits.
Import ListNotations.
'''

EXC = {'TypeError': 0, 'ValueError': 1}
PYOP = {'add': operator.add, 'sub': operator.sub, 'mul': operator.mul, 'div': operator.truediv}
COQOP = {'add': 'Add', 'sub': 'Sub', 'mul': 'Mul', 'div': 'Div'}
SYM = {'add': '+', 'sub': '-', 'mul': '*', 'div': '/'}
ARITH = tuple(PYOP)
# augmented assignments x op= y (python rebinds x unless the class has in-place operators)
AUGOP = {'iadd': operator.iadd, 'isub': operator.isub, 'imul': operator.imul,
         'idiv': operator.itruediv}
BASE = {'iadd': 'add', 'isub': 'sub', 'imul': 'mul', 'idiv': 'div'}
BASE.update({k: k for k in PYOP})
BINARY = ARITH + tuple(AUGOP)
INTMIN = {'int8': -2 ** 7, 'int16': -2 ** 15, 'int32': -2 ** 31, 'int64': -2 ** 63}


# --------------------------------------------------------------------------
# building real objects from a case

def relayout(arr, layout):
    """the same array (shape, cells) in another memory layout"""
    if layout in (None, 'C') or arr.ndim == 0:
        return arr
    if layout == 'F':                                   # Fortran order
        return np.asfortranarray(arr)
    if layout == 'T':                                   # transposed view of a C array
        return np.ascontiguousarray(arr.T).T
    if layout == 'S':                                   # every second cell of a wider buffer
        big = np.full(arr.shape[:-1] + (2 * arr.shape[-1],), 777.0, dtype=arr.dtype)
        view = big[..., ::2]
        view[...] = arr
        return view
    if layout == 'N':                                   # negative stride along the last axis
        return np.ascontiguousarray(arr[..., ::-1])[..., ::-1]
    raise ValueError(layout)


def farr(bits, shape=None, layout=None):
    arr = np.array([bits_f64(b) for b in bits], dtype=float)
    return relayout(arr if shape is None else arr.reshape(shape), layout)


def seeded(seed, shape, errors=False):
    """contents of a large array, from a seed (a replay file stays small)"""
    rs = np.random.RandomState(seed)
    mant = rs.uniform(0.0 if errors else -10.0, 10.0, size=shape)
    return mant * 10.0 ** rs.randint(-3, 3, size=shape)


def make_arr(spec):
    if 'seed' in spec:
        return relayout(seeded(spec['seed'], tuple(spec['shape'])), spec.get('layout'))
    if spec.get('idata') is not None:
        arr = np.array(spec['idata'], dtype=spec['dtype']).reshape(tuple(spec['shape']))
        return relayout(arr, spec.get('layout'))
    arr = farr(spec['data'], tuple(spec['shape']))
    if spec.get('dtype'):
        arr = arr.astype(spec['dtype'])
    return relayout(arr, spec.get('layout'))


def make_bins(desc, layout):
    if isinstance(desc, dict):          # regular grid of a large dimension
        return relayout(desc['start'] + desc['step'] * np.arange(desc['n'], dtype=float), layout)
    return farr(desc, None, layout)


def make_ds(Dataset, spec):
    shape = tuple(spec['shape'])
    lay = spec.get('layout') or [None, None, None]
    dts = spec.get('dtype') or ['float64', 'float64']
    if spec.get('scalar'):
        value = np.float64(bits_f64(spec['value'][0]))
        error = np.float64(bits_f64(spec['error'][0]))
    elif 'seed' in spec:
        value = relayout(seeded(spec['seed'], shape), lay[0])
        error = relayout(seeded(spec['seed'] + 1, shape, errors=True), lay[1])
    else:
        value = relayout(farr(spec['value'], shape).astype(dts[0]), lay[0])
        error = relayout(farr(spec['error'], shape).astype(dts[1]), lay[1])
    bins = OrderedDict((nm, make_bins(b, lay[2])) for nm, b in spec['bins'])
    dset = Dataset(value, error, bins=bins, name=spec['name'], what=spec['what'])
    if spec.get('mask') is not None:
        dset = dset.mask(np.array(spec['mask'], dtype=bool).reshape(shape))
    return dset


def freeze(obj):
    """detached deep clone of an operand, made without any valjean code: what
    the operand was before the operation (in-place operators may change it)"""
    from valjean.eponine.dataset import Dataset
    if isinstance(obj, Dataset):
        clone = Dataset.__new__(Dataset)
        clone.value = copy.deepcopy(obj.value)
        clone.error = copy.deepcopy(obj.error)
        clone.bins = OrderedDict((k, np.array(v, copy=True)) for k, v in obj.bins.items())
        clone.name, clone.what = obj.name, obj.what
        return clone
    if isinstance(obj, np.ndarray):
        return np.array(obj, copy=True)
    return obj


def arrays_of(obj):
    '''every numpy buffer an operand owns or refers to'''
    from valjean.eponine.dataset import Dataset
    out = []
    if isinstance(obj, Dataset):
        for comp in (obj.value, obj.error):
            out.append(comp)
            msk = np.ma.getmask(comp)
            if msk is not np.ma.nomask:
                out.append(msk)
        out.extend(obj.bins.values())
    elif isinstance(obj, np.ndarray):
        out.append(obj)
    return [a for a in out if isinstance(a, np.ndarray)]


def shares(comp, others, with_mask=True):
    if not isinstance(comp, np.ndarray):
        return False
    mine = [comp]
    msk = np.ma.getmask(comp)
    if with_mask and msk is not np.ma.nomask:
        mine.append(msk)
    return any(np.shares_memory(a, b) for a in mine for b in others)


def raw_bytes(arr):
    '''content of an array, bit for bit (extended precision has padding bytes
    of arbitrary content: split into two doubles instead)'''
    arr = np.asarray(arr)
    if arr.dtype == np.longdouble and np.dtype(np.longdouble).itemsize > 8:
        with np.errstate(all='ignore'):
            high = arr.astype(np.float64)
            low = (arr - high).astype(np.float64)
        return str(arr.dtype).encode() + high.tobytes() + low.tobytes()
    return str(arr.dtype).encode() + arr.tobytes()


def snap(obj):
    '''deep snapshot of an operand (bit patterns, so NaN == NaN)'''
    from valjean.eponine.dataset import Dataset
    if isinstance(obj, Dataset):
        return ('ds', np.shape(obj.value),
                raw_bytes(np.ma.getdata(obj.value)), np.ma.getmaskarray(obj.value).tobytes(),
                np.shape(obj.error),
                raw_bytes(np.ma.getdata(obj.error)), np.ma.getmaskarray(obj.error).tobytes(),
                isinstance(obj.value, np.ma.MaskedArray),
                [(k, np.shape(v), raw_bytes(v)) for k, v in obj.bins.items()],
                obj.name, obj.what)
    if isinstance(obj, np.ndarray):
        return ('arr', obj.shape, raw_bytes(obj))
    return ('num', type(obj).__name__, repr(obj))


def fbits(arr):
    return [canon_bits(x) for x in np.asarray(np.ma.getdata(arr), dtype=float).reshape(-1)]


def ds_json(dset):
    '''canonical observation of a dataset: the observables of the property'''
    masked = isinstance(dset.value, np.ma.MaskedArray) or isinstance(dset.error, np.ma.MaskedArray)
    mask = None
    if masked:
        mask = [bool(x) for x in (np.ma.getmaskarray(dset.value)
                                  | np.ma.getmaskarray(dset.error)).reshape(-1)]
    return {'shape': [int(n) for n in np.shape(dset.value)],
            'eshape': [int(n) for n in np.shape(dset.error)],
            'value': fbits(dset.value), 'error': fbits(dset.error), 'mask': mask,
            'bins': [[str(k), fbits(v)] for k, v in dset.bins.items()],
            'name': dset.name, 'what': dset.what}


# --------------------------------------------------------------------------
# Coq literals

def coq_fb(bits):
    '''64-bit pattern as sign + 63 bits in a primitive integer (C08/Lits.v): a
    [positive] literal costs 64 kernel nodes, this one 2'''
    bits = int(bits)
    return f'Nf {bits - 2 ** 63}' if bits >= 2 ** 63 else f'Pf {bits}'


def coq_fl(bits):
    return '(fq ' + clist([coq_fb(b) for b in bits]) + '%uint63)'


def coq_mask(mask):
    return 'None' if mask is None else '(Some ' + clist([cb(x) for x in mask]) + ')'


def coq_ds(j):
    return ('(mk_ds ' + clist([cn(n) for n in j['shape']]) + ' ' + coq_fl(j['value']) + ' '
            + coq_fl(j['error']) + ' ' + coq_mask(j['mask']) + ' '
            + clist(['(' + cstr(nm) + ', ' + coq_fl(b) + ')' for nm, b in j['bins']]) + ' '
            + cstr(j['name']) + ' ' + cstr(j['what']) + ')')


def coq_op(mop):
    kind = mop['op']
    if kind == 'copy':
        return 'OCopy'
    if kind == 'squeeze':
        return 'OSqueeze'
    if kind == 'mask':
        return '(OMask ' + clist([cb(x) for x in mop['m']]) + ')'
    rhs = mop['rhs']
    if rhs['k'] == 'num':
        lit = f'(RNum (f1 ({coq_fb(rhs["v"])})%uint63))'
    elif rhs['k'] == 'arr':
        lit = '(RArr ' + clist([cn(n) for n in rhs['shape']]) + ' ' + coq_fl(rhs['data']) + ')'
    else:
        lit = '(RDs ' + coq_ds(rhs['ds']) + ')'
    return f'({"OAug" if kind in AUGOP else "OBin"} {COQOP[BASE[kind]]} {lit})'


def coq_res(res):
    if 'raise' in res:
        return f'(Raise {cn(EXC.get(res["raise"], 9))})'
    return '(Ok ' + coq_ds(res['ok']) + ')'


def coq_step(st):
    shr = st['shares']
    return ('(' + coq_ds(st['ds']) + ', ' + coq_op(st['mop']) + ', ' + coq_res(st['res']) + ', ('
            + cb(shr[0]) + ', ' + cb(shr[1]) + ', ' + cb(shr[2]) + '))')


# --------------------------------------------------------------------------
# property oracle (independent of the model: python floats, plain numpy)

def moderate(x):
    return x == 0.0 or (math.isfinite(x) and 1e-100 <= abs(x) <= 1e100)


def feq_tol(got, want, rel):
    if math.isnan(got) or math.isnan(want):
        return math.isnan(got) and math.isnan(want)
    if got == want:
        return True
    if math.isinf(got) or math.isinf(want):
        return False
    return abs(got - want) <= rel * max(abs(got), abs(want)) or abs(got - want) < 1e-300


def expected_error(kind, is_ds, v1, e1, v2, e2):
    '''first-order uncorrelated propagation as the property states it, on
    python floats.  Returns (expected, tolerance) or None when the statement
    does not apply numerically (zero divisor, non-finite or extreme operands).'''
    nums = [v1, e1, v2] + ([e2] if is_ds else [])
    if not all(moderate(x) for x in nums):
        return None
    if not is_ds:                       # a constant (or array cell) factor / shift
        if kind in ('add', 'sub'):
            return e1, 0.0
        if kind == 'mul':
            return e1 * abs(v2), 1e-13
        if v2 == 0.0:
            return None
        return e1 / abs(v2), 1e-13
    if kind in ('add', 'sub'):          # quadratic sum of absolute errors
        return math.sqrt(e1 * e1 + e2 * e2), 1e-12
    if kind == 'div' and v2 == 0.0:
        return None
    res = v1 * v2 if kind == 'mul' else v1 / v2
    if v1 != 0.0 and v2 != 0.0:         # quadratic sum of relative errors
        return abs(res) * math.sqrt((e1 / v1) ** 2 + (e2 / v2) ** 2), 1e-10
    # a zero value: relative errors are undefined, first-order terms directly
    if kind == 'mul':
        return math.sqrt((e1 * v2) ** 2 + (e2 * v1) ** 2), 1e-12
    return math.sqrt((e1 / v2) ** 2 + (v1 * e2 / (v2 * v2)) ** 2), 1e-12


def not_negative(arr, hide):
    data = np.asarray(np.ma.getdata(arr)).astype(float).reshape(-1)
    return not bool(np.any((data < 0) & ~np.asarray(hide, dtype=bool)))


def raw_operand(rhs):
    '''what the plain array operation is applied to, and its error (or None)'''
    from valjean.eponine.dataset import Dataset
    if isinstance(rhs, Dataset):
        return np.ma.getdata(rhs.value), np.ma.getdata(rhs.error)
    return rhs, None


def well_formed(out):
    """None when `out` is a well-formed dataset, else what is wrong with it"""
    from valjean.eponine.dataset import Dataset
    if not isinstance(out, Dataset):
        return f'not a Dataset ({type(out).__name__})'
    vshape, eshape = np.shape(out.value), np.shape(out.error)
    if vshape != eshape:
        return f'value has shape {vshape}, error has shape {eshape}'
    if not isinstance(out.bins, OrderedDict):
        return 'bins is not an OrderedDict'
    if out.bins:
        if len(out.bins) != len(vshape):
            return f'{len(out.bins)} bins for {len(vshape)} dimensions (shape {vshape})'
        for (key, arr), dim in zip(out.bins.items(), vshape):
            if len(arr) not in (dim, dim + 1):
                return f'bins {key!r} has {len(arr)} entries for a dimension of {dim} cells'
    return None


def oracle_well_formed(ctx, kind, out, case, opi):
    """every result is a well-formed dataset (or an exception was raised)"""
    if isinstance(out, Exception):
        return True
    wrong = well_formed(out)
    if wrong:
        ctx.oracle_failure(f'{kind} (step {opi}) returns an ill-formed dataset: {wrong} :: {case}',
                           case, key='ill-formed-result')
        return False
    return True


def array_outcome(kind, shape, bins, ashape):
    """what `dataset (kind) ndarray` can be: (must_raise, shape of a result).  The value
    has the numpy broadcast shape; + and - keep the error as it is, * and /
    broadcast it; a result must be a well-formed dataset."""
    try:
        bshape = tuple(np.broadcast_shapes(tuple(shape), tuple(ashape)))
    except ValueError:
        return True, None
    if kind in ('add', 'sub') and bshape != tuple(shape):
        return True, None
    if bins and (len(bins) != len(bshape)
                 or any(len(b) not in (n, n + 1) for b, n in zip(bins, bshape))):
        return True, None
    return False, list(bshape)


SMALL = 4096        # datasets up to this size (float64) go to the Coq model cell by cell


def dtypes_of(obj):
    from valjean.eponine.dataset import Dataset
    if isinstance(obj, Dataset):
        return [np.asarray(np.ma.getdata(obj.value)).dtype, np.asarray(np.ma.getdata(obj.error)).dtype]
    if isinstance(obj, np.ndarray):
        return [obj.dtype]
    return []


def plain_float64(*objs):
    """small float64 data: what the binary64 model covers cell by cell"""
    from valjean.eponine.dataset import Dataset
    for obj in objs:
        if isinstance(obj, Exception):
            continue
        if any(dt != np.float64 for dt in dtypes_of(obj)):
            return False
        size = np.size(obj.value) if isinstance(obj, Dataset) else np.size(obj)
        if size > SMALL:
            return False
    return True


def coarsest_float(*objs):
    """finfo of the least precise floating dtype among the operands and the result"""
    info = np.finfo(np.float64)
    for obj in objs:
        for dt in dtypes_of(obj):
            if dt.kind == 'f' and np.finfo(dt).eps > info.eps:
                info = np.finfo(dt)
    return info


def vector_cells(kind, is_ds, v1, e1, v2, e2, got_v, got_e, want_v, hide, info, has_int=False):
    """value = the plain array operation; error = first-order uncorrelated
    propagation, computed here in float64 from detached copies.  Returns a
    description of the first bad cell or None."""
    show = ~np.asarray(hide, dtype=bool)
    with np.errstate(all='ignore'):
        same = (got_v == want_v) | (np.isnan(got_v) & np.isnan(want_v))
        k = np.flatnonzero(show & ~same)
        if k.size:
            return (f'value {got_v[k[0]]!r} is not that of the plain array operation '
                    f'{want_v[k[0]]!r} (cell {int(k[0])} of {got_v.size})')
        eps = float(info.eps)
        # the formulas square their terms: compared where neither the terms nor their squares
        # leave the normal range of the least precise dtype involved
        low, high = 4 * float(info.tiny) ** 0.5, float(info.max) ** 0.5 / 4
        if kind in ('add', 'sub'):
            terms = [e1, e2]
        elif kind == 'mul':
            terms = [e1 * v2, e2 * v1]
        else:
            terms = [e1 / v2, v1 * e2 / (v2 * v2), v2]
        if not is_ds:
            terms = [terms[0]]
            exp = e1 if kind in ('add', 'sub') else (e1 * np.abs(v2) if kind == 'mul'
                                                     else e1 / np.abs(v2))
            what = 'error of the left operand' if kind in ('add', 'sub') else \
                'error scaled by the magnitude of the factor'
        elif kind in ('add', 'sub'):
            exp = np.sqrt(e1 * e1 + e2 * e2)
            what = 'quadratic sum of the absolute errors'
        else:
            res = v1 * v2 if kind == 'mul' else v1 / v2
            rel = np.abs(res) * np.sqrt((e1 / v1) ** 2 + (e2 / v2) ** 2)
            direct = np.sqrt((e1 * v2) ** 2 + (e2 * v1) ** 2) if kind == 'mul' else \
                np.sqrt((e1 / v2) ** 2 + (v1 * e2 / (v2 * v2)) ** 2)
            exp = np.where((v1 != 0) & (v2 != 0), rel, direct)
            what = 'quadratic sum of the relative errors'
        ok_in = np.isfinite(v1) & np.isfinite(v2) & (e1 >= 0) & (e2 >= 0) & np.isfinite(e1) \
            & np.isfinite(e2) & np.isfinite(exp) & np.isfinite(want_v)
        for term in terms:
            ok_in &= (term == 0) | ((np.abs(term) >= low) & (np.abs(term) <= high))
        if has_int and is_ds:   # integer arithmetic wraps around: small numbers only
            for arr in (v1, v2, e1, e2):
                ok_in &= np.abs(arr) <= 10
        tol = max(1e-10, 64 * eps)
        close = np.abs(got_e - exp) <= tol * np.maximum(np.abs(got_e), np.abs(exp)) + 1e-300
        k = np.flatnonzero(show & ok_in & ~close)
        if k.size:
            i = int(k[0])
            return (f'error {got_e[i]!r} is not the {what} {exp[i]!r} (cell {i} of {got_e.size}: '
                    f'v1={v1[i]!r} e1={e1[i]!r} v2={v2[i]!r} e2={e2[i]!r})')
    return None


def oracle_binop(ctx, kind, left, rhs, out, case, expect_raise):
    from valjean.eponine.dataset import Dataset
    tag = f'{kind}-{"ds" if isinstance(rhs, Dataset) else type(rhs).__name__}'
    if isinstance(out, Exception):
        if not expect_raise:
            ctx.oracle_failure(f'{tag}: compatible operands raise {type(out).__name__} :: {case}',
                               case, key=f'{kind}-raises-{type(out).__name__}')
        return
    if expect_raise:
        return          # incompatible operands accepted: not a statement of the property
    lval, lerr = np.ma.getdata(left.value), np.ma.getdata(left.error)
    rval, rerr = raw_operand(rhs)
    is_ds = rerr is not None
    with np.errstate(all='ignore'):     # the plain array operation, in the dtypes of the operands
        want_value = np.asarray(PYOP[kind](lval, rval)).astype(float)
    got_value = np.asarray(np.ma.getdata(out.value)).astype(float)
    got_error = np.asarray(np.ma.getdata(out.error)).astype(float)
    if np.shape(out.value) != np.shape(out.error):
        ctx.oracle_failure(f'{tag}: value and error of the result differ in shape :: {case}',
                           case, key='shape-value-error')
        return
    if got_value.shape != want_value.shape:
        ctx.oracle_failure(f'{tag}: result shape {got_value.shape}, plain array operation gives '
                           f'{want_value.shape} :: {case}', case, key='shape-result')
        return
    hide = (np.ma.getmaskarray(out.value) | np.ma.getmaskarray(out.error)).reshape(-1)
    flat = lambda a: np.broadcast_to(np.asarray(a, dtype=float), want_value.shape).reshape(-1)  # noqa
    v1s, e1s, v2s = flat(lval), flat(lerr), flat(rval)
    e2s = flat(rerr) if is_ds else [0.0] * len(v1s)
    gvs, ges, wvs = got_value.reshape(-1), got_error.reshape(-1), want_value.reshape(-1)
    if not plain_float64(left, rhs, out):
        # large datasets and other dtypes: the same clauses, vectorised, tolerance of the coarsest dtype
        bad = vector_cells(kind, is_ds, v1s, e1s, v2s, np.asarray(e2s, dtype=float), gvs, ges, wvs,
                           hide, coarsest_float(left, rhs, out),
                           any(dt.kind in 'iu' for dt in dtypes_of(left) + dtypes_of(rhs)))
        if bad:
            ctx.oracle_failure(f'{tag}: {bad} :: {case}', case,
                               key=f'{kind}-{"value" if bad.startswith("value") else "error"}-vec')
            return
        v1s = []
    for k in range(len(v1s)):
        if hide[k]:
            continue
        if canon_bits(gvs[k]) != canon_bits(wvs[k]) and not (gvs[k] == wvs[k]):
            ctx.oracle_failure(f'{tag}: value {gvs[k]!r} is not that of the plain array operation '
                               f'{wvs[k]!r} (cell {k}) :: {case}', case, key=f'{kind}-value')
            return
        exp = expected_error(kind, is_ds, float(v1s[k]), float(e1s[k]), float(v2s[k]), float(e2s[k]))
        if exp is not None and e1s[k] >= 0 and e2s[k] >= 0 and not feq_tol(float(ges[k]), exp[0], exp[1]):
            what = ('quadratic sum of the ' + ('absolute' if kind in ('add', 'sub') else 'relative')
                    + ' errors') if is_ds else ('error of the left operand (a shift leaves it alone)'
                                                if kind in ('add', 'sub') else
                                                'error scaled by the magnitude of the factor')
            ctx.oracle_failure(f'{tag}: error {float(ges[k])!r} is not the {what} {exp[0]!r} '
                               f'(cell {k}: v1={float(v1s[k])!r} e1={float(e1s[k])!r} '
                               f'v2={float(v2s[k])!r} e2={float(e2s[k])!r}) :: {case}',
                               case, key=f'{kind}-error-{"ds" if is_ds else "const"}')
            return
    inputs_ok = not_negative(lerr, [False] * lerr.size) and \
        (not is_ds or not_negative(rerr, [False] * np.size(rerr)))
    if inputs_ok and not not_negative(out.error, hide):
        ctx.oracle_failure(f'{tag}: negative error from non-negative errors :: {case}', case,
                           key=f'{kind}-negative-error')
    oracle_keeps(ctx, tag, left, out, case, bins=True)
    if is_ds:
        if kind in ('add', 'sub'):
            want = left.what if rhs.what == left.what else left.what + SYM[kind] + rhs.what
        else:
            want = left.what + SYM[kind] + rhs.what
    else:
        want = left.what
    if out.what != want:
        ctx.oracle_failure(f'{tag}: what is {out.what!r}, documented {want!r} :: {case}', case,
                           key='what')


def oracle_keeps(ctx, tag, left, out, case, bins):
    if out.name != left.name:
        ctx.oracle_failure(f'{tag}: name not kept :: {case}', case, key='name')
    if bins:
        same = list(out.bins) == list(left.bins) and all(
            np.shape(a) == np.shape(b) and np.asarray(a).tobytes() == np.asarray(b).tobytes()
            for a, b in zip(out.bins.values(), left.bins.values()))
        if not same:
            ctx.oracle_failure(f'{tag}: bins of the left operand not kept '
                               f'(got {[(k, np.asarray(v).tolist()) for k, v in out.bins.items()]}) '
                               f':: {case}', case, key='bins-not-kept')
    shape = np.shape(out.value)
    if out.bins and (len(out.bins) != len(shape) or any(
            len(b) not in (n, n + 1) for b, n in zip(out.bins.values(), shape))):
        ctx.oracle_failure(f'{tag}: result not well formed (bins vs shape) :: {case}', case,
                           key='bins-shape')
    if np.shape(out.value) != np.shape(out.error):
        ctx.oracle_failure(f'{tag}: value and error of the result differ in shape :: {case}',
                           case, key='shape-value-error')


def same_cells(a, b):
    return np.shape(a) == np.shape(b) and \
        raw_bytes(np.ma.getdata(a)) == raw_bytes(np.ma.getdata(b)) and \
        np.ma.getmaskarray(a).tobytes() == np.ma.getmaskarray(b).tobytes()


def oracle_copy(ctx, left, out, case):
    if isinstance(out, Exception):
        ctx.oracle_failure(f'copy raises {type(out).__name__} :: {case}', case, key='copy-raises')
        return
    if not (same_cells(out.value, left.value) and same_cells(out.error, left.error)
            and out.what == left.what):
        ctx.oracle_failure(f'copy differs from its original :: {case}', case, key='copy-differs')
    oracle_keeps(ctx, 'copy', left, out, case, bins=True)
    theirs = arrays_of(left)
    for label, comp in [('value', out.value), ('error', out.error)] + \
            [(f'bins[{k}]', v) for k, v in out.bins.items()]:
        if shares(comp, theirs):
            ctx.oracle_failure(f'copy shares its {label} with the original :: {case}', case,
                               key='copy-shares-' + label.split('[')[0])
            return
    # behavioural form of the same claim: scribbling over a copy leaves the original alone
    before = snap(left)
    scratch = left.copy()
    for comp in arrays_of(scratch):
        if comp.size:
            comp[...] = True if comp.dtype == bool else 12345.
    scratch.bins['zzz'] = np.zeros(1)
    scratch.name, scratch.what = 'scratch', 'scratch'
    if snap(left) != before:
        ctx.oracle_failure(f'writing into a copy changes the original :: {case}', case,
                           key='copy-write-through')


def oracle_mask(ctx, left, mask, out, case):
    if isinstance(out, Exception):
        ctx.oracle_failure(f'mask raises {type(out).__name__} :: {case}', case, key='mask-raises')
        return
    for comp, orig in ((out.value, left.value), (out.error, left.error)):
        want_mask = np.ma.getmaskarray(orig) | mask     # an earlier mask is kept
        if np.shape(comp) != np.shape(orig) or \
                not np.array_equal(np.ma.getmaskarray(comp), want_mask) or \
                raw_bytes(np.ma.getdata(comp)[~want_mask]) != raw_bytes(np.ma.getdata(orig)[~want_mask]):
            ctx.oracle_failure(f'mask changes cells or does not mask value and error alike :: {case}',
                               case, key='mask-cells')
            return
    oracle_keeps(ctx, 'mask', left, out, case, bins=True)
    if out.what != left.what:
        ctx.oracle_failure(f'mask changes what :: {case}', case, key='what')


def oracle_squeeze(ctx, left, out, case):
    if isinstance(out, Exception):
        ctx.oracle_failure(f'squeeze raises {type(out).__name__} :: {case}', case,
                           key='squeeze-raises')
        return
    shape = np.shape(left.value)
    want_shape = tuple(n for n in shape if n != 1)
    if np.shape(out.value) != want_shape or np.shape(out.error) != want_shape or \
            raw_bytes(np.ma.getdata(out.value)) != raw_bytes(np.ma.getdata(left.value)) or \
            raw_bytes(np.ma.getdata(out.error)) != raw_bytes(np.ma.getdata(left.error)):
        ctx.oracle_failure(f'squeeze changes cells or keeps a unit dimension :: {case}', case,
                           key='squeeze-cells')
    if left.bins:
        want = [(k, v) for (k, v), n in zip(left.bins.items(), shape) if n != 1]
        got = list(out.bins.items())
        if [k for k, _ in want] != [k for k, _ in got] or \
                not all(np.array_equal(a[1], b[1]) for a, b in zip(want, got)):
            ctx.oracle_failure(f'squeeze does not keep exactly the bins of non-unit dimensions '
                               f':: {case}', case, key='squeeze-bins')
    oracle_keeps(ctx, 'squeeze', left, out, case, bins=False)


# --------------------------------------------------------------------------
# generator

NAMES = ['e', 't', 'x', 'mu', 'bacon', 'egg']
SPECIAL = [0.0, -0.0, float('inf'), float('-inf'), float('nan')]


def gen_float(rng, special):
    if special and rng.random() < special:
        return rng.choice(SPECIAL)
    r = rng.random()
    if r < 0.25:
        return float(rng.randint(-9, 9))
    if r < 0.35:
        return rng.choice([0.5, -0.5, 0.1, -0.3, 2.5, 100.0, -1e3, 1e-3])
    return rng.uniform(-10, 10) * 10.0 ** rng.randint(-4, 4)


def gen_err(rng, special):
    if special and rng.random() < special / 2:
        return rng.choice([0.0, float('inf'), float('nan')])
    r = rng.random()
    if r < 0.1:
        return 0.0
    if r < 0.3:
        return rng.choice([0.1, 0.3, 0.4, 0.5, 1.0, 2.0])
    return abs(rng.uniform(0, 1) * 10.0 ** rng.randint(-4, 3))


def gen_bins(rng, shape, names=None):
    names = names or rng.sample(NAMES, len(shape))
    out = []
    for nm, n in zip(names, shape):
        start = float(rng.randint(-5, 5))
        step = rng.choice([1.0, 0.5, 2.0, 0.25])
        if rng.random() < 0.5:
            out.append([nm, [canon_bits(start + step * k) for k in range(n + 1)]])
        else:
            out.append([nm, [canon_bits(start + step * (k + 0.5)) for k in range(n)]])
    return out


def gen_cells(rng, size, special):
    return ([canon_bits(gen_float(rng, special)) for _ in range(size)],
            [canon_bits(gen_err(rng, special)) for _ in range(size)])


FAMILIES = [['float32', 'float32'], ['float16', 'float16'], ['longdouble', 'longdouble'],
            ['int64', 'int64'], ['int32', 'float64'], ['int64', 'float64'], ['float64', 'float32'],
            ['int16', 'int16']]


def gen_cells_exact(rng, size, dts):
    '''cells every dtype of the family holds exactly (and whose squares, products
    and quotients stay inside half precision)'''
    if dts[0].startswith('int'):
        value = [float(rng.randint(-9, 9)) for _ in range(size)]
    else:
        value = [rng.choice([-1, 1]) * 0.5 * rng.randint(1, 16) for _ in range(size)]
    if dts[1].startswith('int'):
        error = [float(rng.randint(0, 3)) for _ in range(size)]
    else:
        error = [rng.choice([0.0, 0.125, 0.25, 0.5, 1.0]) for _ in range(size)]
    return [canon_bits(x) for x in value], [canon_bits(x) for x in error]


def gen_shape(rng):
    ndim = rng.choice([0, 1, 1, 1, 2, 2, 2, 3])
    while True:
        shape = [rng.choice([1, 1, 2, 2, 3, 3, 4, 5]) if rng.random() < 0.96 else 0
                 for _ in range(ndim)]
        if int(np.prod(shape)) <= 24:
            return shape


def gen_layout(rng):
    return rng.choice(['C', 'C', 'C', 'F', 'T', 'S', 'N'])


def gen_rhs(rng, cur, special, nhist):
    '''right operand for the current (shape, bins); returns (rhs spec, expect_raise)'''
    shape, bins = cur['shape'], cur['bins']
    size = int(np.prod(shape)) if shape else 1
    r = rng.random()
    if r < 0.30:                                    # number
        if rng.random() < 0.5:
            val = rng.choice([-2, -1, 2, 3, 10, -7, 1, 0]) if rng.random() < 0.8 \
                else rng.randint(-1000, 1000)
            return {'k': 'int', 'v': val}, False
        val = gen_float(rng, special)
        if rng.random() < 0.3:
            val = -abs(val)
        return {'k': 'float', 'v': canon_bits(val)}, False
    if r < 0.47:                                    # ndarray
        q = rng.random()
        ashape = list(shape)
        units = [i for i, n in enumerate(shape) if n == 1]
        if q < 0.08 and any(n != 1 for n in shape):
            k = rng.choice([i for i, n in enumerate(shape) if n != 1])
            ashape[k] = shape[k] + 2                # numpy cannot broadcast
        elif q < 0.16 and len(shape) > 1:
            ashape = list(shape[1:])                # fewer dimensions, broadcast down to the dataset
        elif q < 0.23 and shape:
            ashape[rng.randrange(len(shape))] = 1   # unit dimension of the array stretched
        elif q < 0.60:                              # the array broadcasts the dataset UP
            mode = rng.choice(['lead', 'stretch', 'both']) if units else 'lead'
            if mode in ('stretch', 'both'):
                for i in rng.sample(units, rng.randint(1, len(units))):
                    ashape[i] = rng.choice([2, 3])
            if mode in ('lead', 'both') or not shape:
                ashape = rng.choice([[2], [3], [4, 2], [1, 2]]) + ashape
                if not shape and rng.random() < 0.3:
                    ashape = []                     # 0-d dataset with a 0-d array
            while int(np.prod(ashape)) > 48:
                ashape[ashape.index(max(ashape))] -= 1
        size = int(np.prod(ashape))
        spec = {'k': 'arr', 'shape': ashape, 'layout': gen_layout(rng)}
        if rng.random() < 0.2:                      # integer array, the minimum of its dtype included
            dtype = rng.choice(sorted(INTMIN))
            spec['dtype'] = dtype
            spec['idata'] = [INTMIN[dtype] if rng.random() < 0.3 else rng.randint(-9, 9)
                             for _ in range(size)]
            spec['data'] = [canon_bits(float(x)) for x in spec['idata']]
        elif rng.random() < 0.15:                   # another floating dtype
            spec['dtype'] = rng.choice(['float32', 'float16', 'longdouble'])
            spec['data'] = gen_cells_exact(rng, size, [spec['dtype'], spec['dtype']])[0]
        else:
            spec['data'] = [canon_bits(gen_float(rng, special)) for _ in range(size)]
        return spec, None                           # None: decided by array_outcome
    if r < 0.52:
        return {'k': 'self'}, False
    if r < 0.60 and nhist > 1:
        return {'k': 'prev', 'j': rng.randrange(nhist - 1)}, None     # None: decided at run time
    # dataset
    dshape, bad = list(shape), False
    q = rng.random()
    if q < 0.06 and shape:
        k = rng.randrange(len(shape))
        dshape[k] = shape[k] + 1
        bad = True
    elif q < 0.09:
        dshape = list(shape) + [1]
        bad = True
    dsize = int(np.prod(dshape)) if dshape else 1
    family = None
    if dshape and (cur.get('family') and rng.random() < 0.6 or rng.random() < 0.04):
        family = cur.get('family') if cur.get('family') and rng.random() < 0.8 else rng.choice(FAMILIES)
    value, error = gen_cells_exact(rng, dsize, family) if family else gen_cells(rng, dsize, special)
    q = rng.random()
    if dshape != list(shape):
        dbins = [] if rng.random() < 0.5 else gen_bins(rng, dshape)
    elif not bins:
        dbins = [] if q < 0.5 else gen_bins(rng, dshape)
    elif q < 0.55:
        dbins = [[nm, list(b)] for nm, b in bins]
    elif q < 0.85:
        dbins = []
    else:
        dbins = [[nm, list(b)] for nm, b in bins]
        k = rng.randrange(len(dbins))
        kind = rng.choice(['name', 'value', 'kind'])
        if kind == 'name':
            dbins[k][0] = dbins[k][0] + '2'
            bad = True
        elif kind == 'value' and dbins[k][1]:
            i = rng.randrange(len(dbins[k][1]))
            dbins[k][1][i] = canon_bits(bits_f64(dbins[k][1][i]) + 0.125)
            bad = True
        elif kind == 'kind':
            dbins[k] = gen_bins(rng, [dshape[k]], [dbins[k][0]])[0]
            bad = None                                                # may or may not differ
    spec = {'shape': dshape, 'value': value, 'error': error, 'bins': dbins,
            'name': rng.choice(['', 'ds2', 'other']),
            'what': cur['what'] if rng.random() < 0.5 else rng.choice(['', 'spam', 'egg', 'flux']),
            'scalar': not dshape and rng.random() < 0.7,
            'layout': [gen_layout(rng), gen_layout(rng), rng.choice(['C', 'C', 'S', 'N'])]}
    if family:
        spec['dtype'] = family
    if dshape and dsize and rng.random() < 0.08:
        spec['mask'] = [rng.random() < 0.3 for _ in range(dsize)]
    return {'k': 'ds', 'ds': spec}, bad


def gen_case(rng, special=0.0, maxlen=6):
    shape = gen_shape(rng)
    size = int(np.prod(shape)) if shape else 1
    family = rng.choice(FAMILIES) if shape and rng.random() < 0.1 else None
    value, error = gen_cells_exact(rng, size, family) if family else gen_cells(rng, size, special)
    what = rng.choice(['', 'spam', 'flux', 'k'])
    left = {'shape': shape, 'value': value, 'error': error, 'dtype': family,
            'bins': [] if (not shape or rng.random() < 0.15) else gen_bins(rng, shape),
            'name': rng.choice(['', 'ds1', 'tally']), 'what': what,
            'scalar': not shape and rng.random() < 0.7,
            'layout': [gen_layout(rng), gen_layout(rng), rng.choice(['C', 'C', 'S', 'N'])]}
    # one state per dataset of the history: every operation acts on the latest one or
    # (12 %) on an earlier one, all of them stay alive
    states = [{'shape': list(shape), 'bins': left['bins'], 'what': what, 'masked': False,
               'family': family}]
    ops = []
    for _ in range(rng.randint(1, maxlen)):
        on = None
        if len(states) > 1 and rng.random() < 0.12:
            on = rng.randrange(len(states) - 1)
        cur = copy.deepcopy(states[-1 if on is None else on])
        extra = {} if on is None else {'on': on}
        r = rng.random()
        if r < 0.70:
            kind = rng.choice(ARITH) if rng.random() < 0.7 else rng.choice(sorted(AUGOP))
            rhs, bad = gen_rhs(rng, cur, special, len(states))
            if rhs['k'] == 'arr':
                bad, newshape = array_outcome(BASE[kind], cur['shape'], [b for _, b in cur['bins']],
                                              rhs['shape'])
                if not bad:
                    cur['shape'] = newshape
            ops.append(dict({'op': kind, 'rhs': rhs, 'raises': bad}, **extra))
            if rhs['k'] == 'ds' and rhs['ds'].get('mask') is not None:
                cur['masked'] = True
            if rhs['k'] == 'prev' and states[min(rhs['j'], len(states) - 1)]['masked']:
                cur['masked'] = True
            if bad or bad is None and rhs['k'] == 'prev' and on is not None:
                break               # (an earlier dataset with an earlier one: shapes may differ)
        elif r < 0.82:
            ops.append(dict({'op': 'copy'}, **extra))
        elif r < 0.90 and cur['shape'] and int(np.prod(cur['shape'])):
            ops.append(dict({'op': 'mask',
                             'm': [rng.random() < 0.3 for _ in range(int(np.prod(cur['shape'])))]},
                            **extra))
            cur['masked'] = True
        else:
            if cur['masked'] and all(n == 1 for n in cur['shape']):
                continue            # 0-d masked arrays: numpy.ma.masked singleton, not a dataset matter
            ops.append(dict({'op': 'squeeze'}, **extra))
            if cur['bins']:
                cur['bins'] = [b for b, n in zip(cur['bins'], cur['shape']) if n != 1]
            cur['shape'] = [n for n in cur['shape'] if n != 1]
        states.append(cur)
    if not ops:
        ops.append({'op': 'copy'})
    return {'left': left, 'ops': ops}


LARGE_SHAPES = [[32768], [32769], [65536], [131072], [256, 128], [512, 256], [32, 32, 32],
                [64, 32, 32], [1, 40000], [3, 11000]]


def gen_large_case(rng):
    '''a few datasets per run with 2^15 .. 2^17 cells (the sizes at which
    implementations switch to "fast paths"): contents from a seed, chains of
    dataset / number / array operands, the dataset itself, earlier results,
    augmented assignments, copy, squeeze; checked by the oracle only'''
    shape = rng.choice(LARGE_SHAPES)
    def grid(n):  # noqa
        return {'start': float(rng.randint(-5, 5)), 'step': rng.choice([1.0, 0.5]),
                'n': n + rng.choice([0, 1])}
    bins = [] if rng.random() < 0.3 else [[nm, grid(n)] for nm, n in zip(rng.sample(NAMES, len(shape)), shape)]
    fast = rng.random() < 0.7           # C-contiguous float64: what a fast path accepts
    def layout():  # noqa
        return ['C', 'C', 'C'] if fast else [gen_layout(rng), gen_layout(rng), 'C']
    left = {'shape': shape, 'seed': rng.randrange(10 ** 6), 'bins': bins, 'name': 'big',
            'what': rng.choice(['flux', 'k']), 'scalar': False, 'layout': layout()}
    ops, nds = [], 1
    for _ in range(rng.randint(2, 4)):
        r = rng.random()
        kind = rng.choice(ARITH) if rng.random() < 0.75 else rng.choice(sorted(AUGOP))
        if rng.random() < 0.5:
            kind = rng.choice(['add', 'sub'])
        extra = {'on': rng.randrange(nds - 1)} if nds > 2 and rng.random() < 0.15 else {}
        if r < 0.45:
            rhs = {'k': 'ds', 'ds': {'shape': shape, 'seed': rng.randrange(10 ** 6),
                                     'bins': copy.deepcopy(bins) if rng.random() < 0.6 else [],
                                     'name': 'other', 'what': rng.choice(['flux', 'egg']),
                                     'scalar': False, 'layout': layout()}}
        elif r < 0.55:
            rhs = {'k': 'self'}
        elif r < 0.65 and nds > 1:
            rhs = {'k': 'prev', 'j': rng.randrange(nds)}
        elif r < 0.80:
            rhs = {'k': 'float', 'v': canon_bits(rng.choice([-2.0, 0.5, 3.0, -0.25]))}
        elif r < 0.90:
            rhs = {'k': 'arr', 'shape': shape, 'seed': rng.randrange(10 ** 6), 'layout': layout()[0]}
        else:
            ops.append(dict({'op': rng.choice(['copy', 'squeeze'])}, **extra))
            nds += 1
            if ops[-1]['op'] == 'squeeze' and 1 in shape:
                break               # the shape changes: end of the chain
            continue
        ops.append(dict({'op': kind, 'rhs': rhs, 'raises': None if rhs['k'] in ('prev', 'arr') else False},
                        **extra))
        nds += 1
    return {'left': left, 'ops': ops}


def fb(x):
    return canon_bits(x)


def corpus():
    '''defects of the pinned tree and boundary cases; always run first'''
    base = {'shape': [2, 2], 'value': [fb(1.), fb(-2.), fb(3.), fb(0.5)],
            'error': [fb(.1), fb(.2), fb(.3), fb(.05)],
            'bins': [['e', [fb(0.), fb(1.), fb(2.)]], ['t', [fb(.5), fb(1.5)]]],
            'name': 'ds1', 'what': 'spam', 'scalar': False}
    other = dict(base, value=[fb(20.), fb(21.), fb(-22.), fb(23.)],
                 error=[fb(.4), fb(.4), fb(.4), fb(.4)], bins=[], name='ds2', what='egg')
    def num(v):  # noqa
        return {'k': 'int', 'v': v} if isinstance(v, int) else {'k': 'float', 'v': fb(v)}
    cases = [
        {'left': base, 'ops': [{'op': 'mul', 'rhs': num(-2), 'raises': False}]},
        {'left': base, 'ops': [{'op': 'div', 'rhs': num(-2), 'raises': False}]},
        {'left': base, 'ops': [{'op': 'mul', 'rhs': num(-0.5), 'raises': False},
                               {'op': 'div', 'rhs': num(-4.0), 'raises': False}]},
        {'left': base, 'ops': [{'op': 'mul', 'raises': False,
                                'rhs': {'k': 'arr', 'shape': [2, 2],
                                        'data': [fb(-1.), fb(2.), fb(-3.), fb(0.)]}}]},
        {'left': base, 'ops': [{'op': 'copy'}]},
        {'left': base, 'ops': [{'op': 'mask', 'm': [False, True, False, False]}, {'op': 'copy'},
                               {'op': 'mul', 'rhs': num(-2), 'raises': False}]},
        {'left': base, 'ops': [{'op': k, 'rhs': {'k': 'ds', 'ds': other}, 'raises': False}
                               for k in ARITH]},
        {'left': other, 'ops': [{'op': k, 'rhs': {'k': 'ds', 'ds': base}, 'raises': False}
                                for k in ARITH]},
        {'left': base, 'ops': [{'op': 'div', 'rhs': {'k': 'self'}, 'raises': False},
                               {'op': 'sub', 'rhs': {'k': 'self'}, 'raises': False}]},
        {'left': base, 'ops': [{'op': 'add', 'rhs': num(10), 'raises': False},
                               {'op': 'sub', 'rhs': {'k': 'prev', 'j': 0}, 'raises': None}]},
        {'left': dict(base, shape=[1, 4], bins=[['e', [fb(0.), fb(1.)]],
                                                  ['t', [fb(0.), fb(1.), fb(2.), fb(3.)]]]),
         'ops': [{'op': 'squeeze'}, {'op': 'mul', 'rhs': num(-3), 'raises': False}]},
        {'left': {'shape': [], 'value': [fb(5.)], 'error': [fb(.5)], 'bins': [], 'name': 's',
                  'what': 'k', 'scalar': True},
         'ops': [{'op': 'mul', 'rhs': {'k': 'self'}, 'raises': False},
                 {'op': 'div', 'rhs': num(-2.0), 'raises': False}, {'op': 'copy'}]},
        {'left': dict(base, value=[fb(0.), fb(-0.), fb(1.), fb(-1.)]),
         'ops': [{'op': 'div', 'rhs': {'k': 'self'}, 'raises': False}]},
        {'left': base, 'ops': [{'op': 'add', 'raises': True,
                                'rhs': {'k': 'ds', 'ds': dict(other, bins=[['E', [fb(0.), fb(1.), fb(2.)]],
                                                                            ['t', [fb(.5), fb(1.5)]]])}}]},
    ]
    # ndarray operands that broadcast the dataset UP (value would outgrow error and bins):
    # every operator, with and without bins, then carried on through a chain
    row = {'shape': [1, 3], 'value': [fb(1.), fb(-2.), fb(3.)], 'error': [fb(.1), fb(.2), fb(.3)],
           'bins': [['e', [fb(0.), fb(1.)]], ['t', [fb(0.), fb(1.), fb(2.), fb(3.)]]],
           'name': 'row', 'what': 'spam', 'scalar': False}
    def arr(shape):  # noqa
        size = int(np.prod(shape))
        return {'k': 'arr', 'shape': shape, 'data': [fb(float(k) - 2.5) for k in range(size)]}
    tail = [{'op': 'mul', 'rhs': num(-2), 'raises': False}, {'op': 'copy'}]
    for kind in ARITH:
        for left in (row, dict(row, bins=[]), dict(row, bins=[['e', [fb(.5)]], ['t', row['bins'][1][1]]])):
            for ashape in ([2, 3], [4, 2, 3], [3, 1]):
                cases.append({'left': left, 'ops': [{'op': kind, 'rhs': arr(ashape), 'raises': None}] + tail})
        cases.append({'left': row, 'ops': [{'op': 'squeeze'},
                                           {'op': kind, 'rhs': arr([2, 3]), 'raises': None}] + tail})
        for scalar in (True, False):
            cases.append({'left': {'shape': [], 'value': [fb(5.)], 'error': [fb(.5)], 'bins': [],
                                   'name': 's', 'what': 'k', 'scalar': scalar},
                          'ops': [{'op': kind, 'rhs': arr([2]), 'raises': None}] + tail})
    return cases


# --------------------------------------------------------------------------
# running the implementation

def build_rhs(Dataset, spec, left, hist):
    if spec['k'] == 'int':
        return int(spec['v'])
    if spec['k'] == 'float':
        return float(bits_f64(spec['v']))
    if spec['k'] == 'arr':
        return make_arr(spec)
    if spec['k'] == 'self':
        return left
    if spec['k'] == 'prev':
        return hist[min(spec['j'], len(hist) - 1)]
    return make_ds(Dataset, spec['ds'])


def model_rhs(Dataset, rhs, left):
    '''the right operand as the model sees it (canonical observation)'''
    if isinstance(rhs, Dataset):
        return {'k': 'ds', 'ds': ds_json(rhs)}
    if isinstance(rhs, np.ndarray):
        return {'k': 'arr', 'shape': list(rhs.shape), 'data': fbits(rhs)}
    return {'k': 'num', 'v': canon_bits(float(rhs))}


def changed(before, operands, skip):
    """indices of the operands whose deep snapshot differs from `before`"""
    return [k for k, (x, old) in enumerate(zip(operands, before))
            if not any(x is y for y in skip) and snap(x) != old]


def oracle_no_leak(ctx, hist, case):
    """Operands are never modified by valjean's own operations, in-place
    operators included if the class has them: x op= y may rebind x or change x,
    it must not change any OTHER dataset of the history (results share arrays
    with their operands: error after +/- a number, bins).  Every dataset of the
    history gets every augmented operator on a scratch basis at the end of the
    chain; numpy's own in-place arithmetic on the arrays is user code, not a
    valjean operation: where it would leak is only counted."""
    uniq = []
    for x in hist:
        if not any(x is y for y in uniq):
            uniq.append(x)
    for target in uniq:
        if isinstance(target.value, np.ma.MaskedArray) and np.ndim(target.value) == 0:
            continue
        others = [y for y in uniq if y is not target]
        if not others:
            continue
        todo = [(kind, 2.0) for kind in AUGOP]
        if isinstance(target.value, np.ndarray) and target.value.ndim:
            todo.append(('imul', np.full(np.shape(target.value), 2.0)))
            todo.append(('idiv', freeze(target)))
        before = [snap(y) for y in others]
        for kind, rhs in todo + [(None, None)]:
            inplace = False
            if kind is not None:
                with np.errstate(all='ignore'):
                    try:
                        inplace = AUGOP[kind](target, rhs) is target
                    except Exception:  # noqa
                        continue
            # a rebinding x op= y is the plain operator (checked at every step of
            # every chain); an in-place one is checked at once, all of them at the end
            if not inplace and kind is not None:
                continue
            bad = changed(before, others, ())
            if bad:
                ctx.oracle_failure(
                    f'{kind or "an augmented assignment"} on dataset #{hist.index(target)} of the '
                    f'chain changes dataset #{hist.index(others[bad[0]])} (a result shares arrays '
                    f'with its operands) :: {case}', case, key='modified-through-alias')
                return
    # informational: would numpy in-place arithmetic on the last dataset's arrays reach others?
    last = uniq[-1]
    others = uniq[:-1]
    for label, arr in [('value', last.value), ('error', last.error)] + \
            [('bins', b) for b in last.bins.values()]:
        data = np.ma.getdata(arr)
        if not isinstance(data, np.ndarray) or not data.size or not data.flags.writeable \
                or data.dtype != float:
            continue
        before = [snap(y) for y in others]
        saved = data.copy()
        data *= 2.0
        if changed(before, others, ()):
            ctx.count('numpy_write_into_result_' + label + '_reaches_an_operand')
        data[...] = saved


def run_impl(ctx, case, steps):
    '''run one chain on the implementation, evaluate the oracle on every step,
    append the observed steps.  Returns True when the chain is non-trivial.'''
    from valjean.eponine.dataset import Dataset
    hist = [make_ds(Dataset, case['left'])]
    nontrivial = False
    for opi, mop in enumerate(case['ops']):
        kind = mop['op']
        base = BASE.get(kind, kind)
        left = hist[min(mop.get('on', len(hist) - 1), len(hist) - 1)]
        rhs, mask = None, None
        if isinstance(left.value, np.ma.MaskedArray) and np.ndim(left.value) == 0:
            ctx.count('stopped_at_0d_masked')   # numpy.ma.masked singleton: not a dataset matter
            break
        if kind in BINARY:
            rhs = build_rhs(Dataset, mop['rhs'], left, hist)
        elif kind == 'mask':
            mask = np.array(mop['m'], dtype=bool).reshape(np.shape(left.value))
        # every dataset created so far stays alive and is snapshotted around the step
        operands = hist + ([rhs] if rhs is not None else []) + ([mask] if mask is not None else [])
        before = [snap(x) for x in operands]
        left0 = freeze(left)                    # the operands as they are before the step
        rhs0 = left0 if rhs is left else freeze(rhs)
        theirs = [a for x in operands if x is not left or kind not in AUGOP for a in arrays_of(x)]
        mrhs = model_rhs(Dataset, rhs0, left0) if kind in BINARY and plain_float64(left0, rhs0) else None
        with np.errstate(all='ignore'):
            try:
                if kind in ARITH:
                    out = PYOP[kind](left, rhs)
                elif kind in AUGOP:
                    out = AUGOP[kind](left, rhs)
                elif kind == 'copy':
                    out = left.copy()
                elif kind == 'mask':
                    out = left.mask(mask)
                else:
                    out = left.squeeze()
            except Exception as exc:  # noqa
                out = exc
        # the same operation on the same operands gives the same result (no hidden state,
        # no operand quietly used as scratch space)
        if kind in ARITH and not isinstance(out, Exception):
            with np.errstate(all='ignore'):
                try:
                    again = PYOP[kind](left, rhs)
                except Exception as exc:  # noqa
                    again = exc
            if isinstance(again, Exception) or (well_formed(again) is None and well_formed(out) is None
                                                and snap(again) != snap(out)):
                ctx.oracle_failure(f'{kind} (step {opi}) repeated on the same operands gives another '
                                   f'result :: {case}', case, key='not-repeatable')
        # x op= y may change x itself (in-place operators); nothing else may change
        bad = changed(before, operands, (out,) if kind in AUGOP else ())
        if bad:
            who = [f'dataset #{k} of the chain' if k < len(hist) else 'the right operand' for k in bad]
            ctx.oracle_failure(f'{kind} (step {opi}, on dataset #{hist.index(left)}) modifies '
                               f'{", ".join(who)} :: {case}', case, key='operand-modified')
        ctx.count(kind + ('' if rhs is None else '_' + ('ds' if isinstance(rhs, Dataset)
                                                        else type(rhs).__name__)))
        if mop.get('on') is not None:
            ctx.count('applied_to_an_earlier_dataset')
        if not oracle_well_formed(ctx, kind, out, case, opi):
            break               # an ill-formed object is not a dataset: nothing more to say about it
        if kind in BINARY:
            expect = mop.get('raises')
            if isinstance(rhs0, np.ndarray):     # numpy broadcasting + a well-formed result
                expect = array_outcome(base, np.shape(left0.value), list(left0.bins.values()),
                                       rhs0.shape)[0]
                if rhs0.dtype != float:
                    ctx.count('integer_array_' + str(rhs0.dtype))
            elif expect is None:      # decided by the documented compatibility rule
                expect = np.shape(rhs0.value) != np.shape(left0.value) or (
                    bool(rhs0.bins) and not all(
                        s == o and np.array_equal(left0.bins[s], rhs0.bins[o])
                        for s, o in zip(left0.bins, rhs0.bins)))
            oracle_binop(ctx, base, left0, rhs0, out, case, expect)
            if isinstance(rhs, (int, float)) and rhs < 0:
                ctx.count('negative_number')
        elif kind == 'copy':
            oracle_copy(ctx, left, out, case)
        elif kind == 'mask':
            oracle_mask(ctx, left0, mask, out, case)
        else:
            oracle_squeeze(ctx, left0, out, case)
        modelled = plain_float64(left0, rhs0, out)
        if not modelled:                # large or not float64: oracle only (the model is binary64)
            ctx.count('oracle_only_steps')
            if isinstance(out, Exception):
                ctx.count('raise_' + type(out).__name__)
                break
            for dt in set(map(str, dtypes_of(left0) + dtypes_of(rhs0))) - {'float64'}:
                ctx.count('dtype_' + dt)
            if np.size(out.value) > SMALL:
                ctx.count('large_steps')
            nontrivial = nontrivial or kind in BINARY
            hist.append(out)
            continue
        step = {'ds': ds_json(left0),
                'mop': {'op': kind, 'rhs': mrhs} if kind in BINARY else
                       ({'op': 'mask', 'm': [bool(x) for x in mask.reshape(-1)]} if kind == 'mask'
                        else {'op': kind})}
        if isinstance(out, Exception):
            step['res'] = {'raise': type(out).__name__}
            step['shares'] = [False, False, False]
            ctx.count('raise_' + type(out).__name__)
            steps.append((case, opi, step))
            break
        step['res'] = {'ok': ds_json(out)}
        # mask buffers count for copy() only: numpy.ma may hand an operand's mask on
        wmask = kind == 'copy'
        step['shares'] = [shares(out.value, theirs, wmask), shares(out.error, theirs, wmask),
                          any(shares(b, theirs) for b in out.bins.values())]
        for label, flag in zip(('value', 'error', 'bins'), step['shares']):
            if flag:
                ctx.count('result_shares_' + label + '_with_an_operand')
        if step['res']['ok']['shape'] != step['res']['ok']['eshape']:
            break               # reported by the oracle; nothing to compare cell by cell
        steps.append((case, opi, step))
        if kind in BINARY and np.size(out.value):
            nontrivial = True
        if isinstance(out.value, np.ma.MaskedArray):
            ctx.count('masked_result')
        hist.append(out)
    oracle_no_leak(ctx, hist, case)
    return nontrivial


def run(ctx):
    common.import_repo()
    ctx.rule = ('chains (1-6 operations) of + - * / with number (int/float, negative 45 %), ndarray '
                '(same shape, broadcast, incompatible), dataset (same / no / mismatching bins, other '
                'shape, masked), the dataset itself or an earlier result as right operand, mixed with '
                'copy, mask, squeeze, on 0..3-d datasets with edge or centre bins; non-trivial = some '
                'arithmetic step succeeds on a non-empty dataset; distinct by case content')
    quick = ctx.tier == 'quick'
    cases = corpus()
    cdir = os.path.join(common.VERIF, 'corpus', 'C08')     # stored boundary / regression chains
    if os.path.isdir(cdir):
        for fname in sorted(os.listdir(cdir)):
            if fname.endswith('.json'):
                cases.append(json.load(open(os.path.join(cdir, fname))))
    ctx.count('corpus', len(cases))
    nrand = 1200 if quick else 20000
    for k in range(nrand):
        special = 0.15 if k % 10 == 9 else 0.0
        cases.append(gen_case(ctx.rng, special=special))
        ctx.count('special_value_chains' if special else 'finite_chains')
    for _ in range(8 if quick else 60):
        cases.append(gen_large_case(ctx.rng))
        ctx.count('large_chains')
    steps = []
    t_impl = time.time()
    for case in cases:
        nontrivial = run_impl(ctx, case, steps)
        ctx.case_seen(case, nontrivial, sample_every=997)
    ctx.extra['implementation_and_oracle_s'] = round(time.time() - t_impl, 1)
    t_model = time.time()
    # model side
    nshards = max(1, min(64 if not quick else 16, len(steps) // 40))
    size = min(400, -(-len(steps) // nshards))
    shards = []
    for k in range(0, len(steps), size):
        items = [coq_step(st) for _, _, st in steps[k:k + size]]
        shards.append('Definition cases : list (ds * op * res ds * (bool * bool * bool)) :=\n '
                      + '[' + ';\n '.join(items) + '].\n'
                      + 'Eval vm_compute in bad_indices (map check_case cases).')
    outs = common.coq_eval(ctx.pid, IMPORTS, shards)
    for k, out in enumerate(outs):
        for i in common.parse_nat_list(out):
            case, opi, st = steps[k * size + i]
            ctx.mismatch(f'step {opi} ({st["mop"]["op"]}) on shape {st["ds"]["shape"]}: implementation '
                         f'returned {json.dumps(st["res"])[:300]}', {'case': case, 'step': st})
    ctx.extra['model_steps_compared'] = len(steps)
    ctx.extra['model_s'] = round(time.time() - t_model, 1)
    ctx.assumptions = [
        'the plain numpy operation on the raw arrays and python float arithmetic (math.sqrt) are the '
        'ground truth of the oracle; numpy broadcasting of an ndarray operand is trusted',
        'errors are compared to 2^-40 relative (model) / 1e-10..1e-13 (oracle) where finite, by sign '
        'only where the propagated error is not finite; cells hidden by a numpy.ma mask are not compared',
        'aliasing is observed with numpy.shares_memory and deep snapshots of every operand and every '
        'earlier dataset of the chain']


def replay(ctx, path):
    common.import_repo()
    data = json.load(open(path))
    case = data['case']
    if isinstance(case, dict) and 'case' in case:
        case = case['case']
    steps = []
    run_impl(ctx, case, steps)
    def show(j):
        if 'raise' in j:
            return 'raises ' + j['raise']
        j = j['ok']
        return (f"shape {j['shape']} value {[bits_f64(b) for b in j['value']]} "
                f"error {[bits_f64(b) for b in j['error']]} mask {j['mask']} "
                f"bins {[(n, [bits_f64(x) for x in b]) for n, b in j['bins']]} "
                f"name {j['name']!r} what {j['what']!r}")
    for _, opi, st in steps:
        print(f'step {opi}: {json.dumps(st["mop"])[:400]}')
        print('   on  :', show({'ok': st['ds']}))
        print('   impl:', show(st['res']), 'shares(value,error,bins)', st['shares'])
    if steps:
        lits = '[' + ';\n '.join(coq_step(st) for _, _, st in steps) + ']'
        body = ('Definition cases := ' + lits + '.\n'
                'Eval vm_compute in map (fun c => match c with (d, o, _, _) => res_show (run_op d o) end) '
                'cases.\nEval vm_compute in bad_indices (map check_case cases).')
        out = common.coq_eval(ctx.pid, IMPORTS, [body])[0]
        blocks = common.parse_eval_blocks(out)
        text = blocks[0] if blocks else out
        import re
        text = re.sub(r'\b(\d{16,20})\b', lambda m: m.group(1) + f'(={bits_f64(int(m.group(1)))!r})', text)
        print('model results per step (bit patterns with their float):\n', text)
        print('steps where model and implementation disagree:', blocks[1] if len(blocks) > 1 else '?')
    for v in ctx.violations:
        print('oracle:', v[1][:600])
    return 0

'''C20: written reports.  Real Rst.format_report + FormattedRst.write on random
report trees vs the Coq model C20/Model.v, plus the property oracle (the
written directory parsed back: listing, anchors, toctrees, image directives).

A case is a tree  [title, [result index, ...], [child, ...]]  over a fixed pool
of real TestResult objects with distinct fingerprints (TestEqual / TestStudent
on small datasets, some with bins so that their representation holds a plot).
'''
import json
import os
import posixpath
import re
import shutil
import sys
from collections import OrderedDict

from vp import common
from vp.common import cn, clist, cstr

IMPORTS = '''From Coq Require Import String List ZArith.
From VV Require Import Lib.Base C19.Model C20.Model.
Import ListNotations.
'''

NPOOL = 12
GOOD = ['A', 'B', 'C', 'sec', 'figures', 'conf.py', 'conf', '.static', '.templates', 'Index', 'index.rst',
        'A.rst', 'x y', 'été', 'a.b', '.hidden', 'plot', 'valjean.css', 'stdout', '...', '-', 'a\\b']
BAD = ['', '.', '..', 'a/b', '/abs', 'nu\0l', 'x/']
# titles that differ from another title (or from a reserved name) only by something a helper or a file
# system might normalise away: surrounding whitespace, trailing dots, unicode-equivalent forms
GOOD += ['A ', ' A', 'B ', ' index', 'index ', 'index.', 'A.', 'conf.py ', ' figures', 'e\u0301te\u0301', 'sec  ']


def variants(title):
    import unicodedata
    out = [title + ' ', ' ' + title, title + '.', title + '  ', '  ' + title + ' ', title.strip(),
           title.rstrip('. '), unicodedata.normalize('NFD', title), unicodedata.normalize('NFC', title)]
    return [v for v in out if v != title and usable(v)]


def usable(title):
    '''the property's notion of a title that can be used as a file name'''
    return title not in ('', '.', '..') and '/' not in title and '\0' not in title


def stub_save(self, name):
    '''stands for MplPlot.save: module-level, so that it also works in the worker processes of write()'''
    with open(name, 'wb') as fil:
        fil.write(b'stub')


# configurations of the writing: Rst(n_workers=...), how the target directory is given, author / version
DEFAULT_CFG = {'n_workers': None, 'path': 'str', 'author': 'nobody', 'version': '0', 'history': 'once'}
# what happens to the Rst / FormattedRst objects around the write that is observed; every directory written
# in a history must satisfy the whole oracle
HISTORIES = ['once', 'two-dirs', 'same-dir-twice', 'clean-rewrite', 'format-twice', 'rst-reused-before',
             'rst-reused-after', 'three-dirs', 'same-dir-three-times', 'plain-dicts', 'plain-dicts-twice']
# plain-dicts: a FormattedRst constructed directly (public constructor) from plain `dict`s that hold an entry,
# possibly empty, for every section
# several Rst objects formatting DIFFERENT reports (cfg['partners']) at overlapping times in one process:
#   overlap-threads  when report i is half formatted, report i+1 is formatted in another thread, then i goes on
#   overlap-nested   the same, in the same thread (a representer that formats another report)
#   overlap-barrier  one thread per report, all of them wait for each other when half formatted, then go on
# the overlap is made deterministic by a wrapper around the Representation that fires a hook at a chosen call
OVERLAPS = ['overlap-threads', 'overlap-nested', 'overlap-barrier']


def gen_cfg(rng):
    cfg = dict(DEFAULT_CFG)
    r = rng.random()
    cfg['n_workers'] = None if r < 0.68 else 1 if r < 0.74 else 2 if r < 0.86 else 3 if r < 0.91 else 8
    cfg['path'] = rng.choice(['str', 'str', 'Path', 'existing', 'trailing-slash', 'nested-missing'])
    cfg['author'] = rng.choice(['nobody', 'Jean Valjean', "l'auteur {x}", 'é"'])
    cfg['version'] = rng.choice(['0', '1.2.3', '{v}'])
    cfg['history'] = 'once' if rng.random() < 0.55 else rng.choice(HISTORIES[1:])
    return cfg


# --------------------------------------------------------------------------
# the pool of results

class Pool:
    def __init__(self):
        import numpy as np
        from valjean.eponine.dataset import Dataset
        from valjean.gavroche.test import TestEqual
        from valjean.gavroche.stat_tests.student import TestStudent
        from valjean.fingerprint import fingerprint
        from valjean.javert.rst import Rst
        import valjean.javert.representation as rpr
        from valjean.javert import mpl
        # only the drawing is stubbed (matplotlib is outside the property): which plots are saved, where and
        # through which branch (sequential / multiprocessing pool) is decided by the code's own write()
        mpl.MplPlot.save = stub_save
        self.results, self.fps, self.images, self.plot_fps = [], [], [], []
        self.rpr = rpr
        self.Rst = Rst
        for i in range(NPOOL):
            bins = OrderedDict([('e', np.array([0., 1., 2.]))]) if i % 3 != 2 else None
            ds1 = Dataset(np.array([float(i), 2.0]), np.array([0.1, 0.1]), bins=bins, name=f'd{i}')
            ds2 = Dataset(np.array([float(i), 2.5 if i % 2 else 2.0]), np.array([0.1, 0.1]), bins=bins,
                          name=f'e{i}')
            cls = TestStudent if i % 4 == 1 else TestEqual
            # results i, i+4, i+8 are distinct (data, description, fingerprint) but their tests share a name
            res = cls(ds1, ds2, name=f'test{i % 4}', description=f'description {i}').evaluate()
            self.results.append(res)
            self.fps.append(fingerprint(res.test))
        assert len(set(self.fps)) == NPOOL
        # which plots the representation of each result refers to
        self.plot_id = {}
        self.fresh_rst_dirty = []
        for i, res in enumerate(self.results):
            rst = self.new_rst()
            before = list(rst.plots)
            if before or getattr(rst, 'tree_dict', None) or getattr(rst, 'text_dict', None):
                # a new Rst object must start empty (it would otherwise carry another report's content)
                self.fresh_rst_dirty.append((i, len(before)))
            rst.format_result(res)
            # the plots the code itself registers for this result
            fps = [fp for fp in rst.plots if fp not in before]
            for fp in fps:
                self.plot_id.setdefault(fp, f'p{len(self.plot_id)}')
            self.images.append([self.plot_id[fp] for fp in fps])
            self.plot_fps.append(fps)
        self.anchor_id = {fp: i for i, fp in enumerate(self.fps)}

    def canon(self, text):
        '''plot fingerprints inside titles / paths -> the ids the model uses'''
        if 'plot_' in text:
            for fp, ident in self.plot_id.items():
                text = text.replace(fp, ident)
        return text

    def other_report(self, TestReport):
        '''an unrelated report (with results and plots of its own) for histories that reuse an Rst object'''
        return TestReport(title='Other', content=[
            self.results[3], TestReport(title='Z', content=[self.results[7], self.results[0]])])

    def new_rst(self, n_workers=None):
        return self.Rst(self.rpr.Representation(self.rpr.FullRepresenter()), n_workers=n_workers)


# --------------------------------------------------------------------------
# generation

def gen_tree(rng, max_depth, flaw, pool=None):
    '''flaw: None | 'bad' | 'dup' | 'index' | 'deep' '''
    nodes = []        # (depth, node) of all sections but the root

    def children(depth):
        if depth >= max_depth:
            return []
        n = rng.choice([0, 1, 2, 2, 3, 4]) if depth < 2 else rng.choice([0, 0, 1, 1, 2, 3])
        titles = rng.sample(GOOD, n)
        out = []
        for t in titles:
            node = [t, results(), None]
            nodes.append((depth + 1, node))
            node[2] = children(depth + 1)
            out.append(node)
        return out

    def results():
        return [rng.randrange(NPOOL) for _ in range(rng.choice([0, 0, 1, 1, 2, 3]))]

    root = [rng.choice(GOOD + BAD + ['index']), results(), None]
    root[2] = children(0)
    if flaw == 'bad' and nodes:
        rng.choice(nodes)[1][0] = rng.choice(BAD)
    elif flaw == 'dup':
        cands = [n for _, n in nodes if len(n[2]) >= 2] + ([root] if len(root[2]) >= 2 else [])
        if cands:
            par = rng.choice(cands)
            a, b = rng.sample(range(len(par[2])), 2)
            par[2][a][0] = par[2][b][0]
    elif flaw == 'index':
        if root[2]:
            rng.choice(root[2])[0] = 'index'
    elif flaw == 'nested-index':
        deep = [n for d, n in nodes if d >= 2]
        if deep:
            rng.choice(deep)[0] = 'index'
    elif flaw == 'variant-sibling':
        # a sibling whose title differs only by whitespace / trailing dot / unicode form: two sections, two pages
        cands = [n for _, n in nodes if n[2]] + ([root] if root[2] else [])
        if cands:
            par = rng.choice(cands)
            kid = rng.choice(par[2])
            vs = [v for v in variants(kid[0]) if v not in [k[0] for k in par[2]]]
            if vs:
                par[2].insert(rng.randrange(len(par[2]) + 1), [rng.choice(vs), results(), []])
    elif flaw == 'variant-index':
        have = [k[0] for k in root[2]]
        vs = [v for v in (' index', 'index ', 'index.', ' index ', 'Index', 'index  ') if v not in have]
        root[2].insert(rng.randrange(len(root[2]) + 1), [rng.choice(vs), results() or [rng.randrange(NPOOL)], []])
        if not root[1]:
            root[1] = [rng.randrange(NPOOL)]
    elif flaw == 'reserved-leaf':
        # leaves whose titles look like files / directories of the report: all of this is VALID (no sub-sections)
        have = {k[0] for k in root[2]}
        for title in rng.sample(['conf.py', 'index.rst', 'figures', '.static', '.templates', '_static', 'conf'], 3):
            if title not in have:
                root[2].insert(rng.randrange(len(root[2]) + 1), [title, results(), []])
                have.add(title)
        for par in [root] + [n for _, n in nodes if n[2]]:
            titles = [k[0] for k in par[2]]
            base = rng.choice(titles) if titles else None
            if base is not None and base + '.rst' not in titles and usable(base):
                par[2].insert(rng.randrange(len(par[2]) + 1), [base + '.rst', results(), []])
        for kid in root[2]:
            if kid[0] == '.static' and 'valjean.css' not in [k[0] for k in kid[2]]:
                kid[2].append(['valjean.css', results(), []])
            if kid[0] == 'figures' and pool is not None:
                i = rng.choice([j for j in range(NPOOL) if pool.plot_fps[j]])
                kid[1].append(i)
                kid[2].append([f'plot_{pool.plot_fps[i][0]}.png', [], []])
    elif flaw in ('shared-subreport', 'shared-twice'):
        # the same TestReport object below two parents (two title chains: two pages), or twice below one
        # parent (duplicate siblings: refused)
        def inside(node, acc):
            acc.append(id(node))
            for kid in node[2]:
                inside(kid, acc)
            return acc
        if nodes:
            _, shared = rng.choice(nodes)
            if len(shared) == 3:
                shared.append('s1')
            if flaw == 'shared-twice':
                parents = [n for n in [root] + [m for _, m in nodes] if any(k is shared for k in n[2])]
            else:
                banned = inside(shared, [])
                parents = [n for n in [root] + [m for _, m in nodes]
                           if id(n) not in banned and shared[0] not in [k[0] for k in n[2]]]
            if parents:
                par = rng.choice(parents)
                par[2].insert(rng.randrange(len(par[2]) + 1), shared)
    elif flaw == 'static-css':
        sub = [['valjean.css', results(), [[rng.choice(GOOD), results(), []]] if rng.random() < 0.8 else []]]
        root[2] = [k for k in root[2] if k[0] != '.static'] + [['.static', results(), sub]]
    elif flaw == 'figure-dir':
        i = rng.choice([j for j in range(NPOOL) if pool.plot_fps[j]])
        name = f'plot_{pool.plot_fps[i][0]}.png'
        sub = [[name, [], [[rng.choice(GOOD), [], []]] if rng.random() < 0.8 else []]]
        root[2] = [k for k in root[2] if k[0] != 'figures'] + [['figures', [i] if rng.random() < 0.8 else [], sub]]
    elif flaw == 'deep':
        # a chain down to depth 5 (six levels): one more than the headers support
        node = root
        for d in range(5):
            if not node[2]:
                node[2] = [[rng.choice(GOOD), results(), []]]
            node = rng.choice(node[2])
    return root


def gen_cases(ctx, pool):
    rng = ctx.rng
    quick = ctx.tier == 'quick'

    def leaf(t, rs=()):
        return [t, list(rs), []]
    cases = [
        # corpus: the defects of the pinned tree and boundary cases
        ['Main', [0], [leaf('index', [1])]],
        ['Main', [0], [leaf('A', [1]), ['B', [], [leaf('a/b', [2])]]]],
        ['Main', [0], [leaf('A', [1]), leaf('A', [2])]],
        ['Main', [0], [leaf('A'), leaf('A')]],
        ['Main', [0], [leaf('', [1])]],
        ['Main', [0], [['A', [], [leaf('', [1])]]]],
        ['Main', [], [leaf('.'), leaf('B')]],
        ['Main', [], [['A', [], [leaf('X', [1])]], ['B', [], [leaf('X', [1]), leaf('index', [2])]]]],
        ['Main', [0, 0], [leaf('figures', [3]), leaf('conf.py', [4]), leaf('.static'), leaf('conf')]],
        ['Main', [], [['figures', [0], [leaf('plot', [1]), leaf('x', [0])]]]],
        ['', [0], []],
        ['a/b', [], [leaf('A')]],
        ['index', [1], [leaf('Index'), leaf('index.rst')]],
        ['M', [], [['A', [], [['B', [], [['C', [], [['D', [1], []]]]]]]]]],
        ['M', [], [['A', [], [['B', [], [['C', [], [['D', [1], [leaf('E', [2])]]]]]]]]]],
        ['M', [], [['A', [], [['A', [], [['A', [], [['A', [1], []]]]]]]], leaf('B', [2])]],
        ['M', [0], [['conf.py', [], [leaf('x', [1])]]]],
        ['M', [0], [['index.rst', [], [leaf('x', [1])]]]],
        ['M', [0], [leaf('A', [1]), ['A.rst', [], [leaf('x', [2])]]]],
        ['M', [0], [['B', [], [['A.rst', [], [leaf('x', [2])]], leaf('A', [1])]]]],
        ['M', [0], [leaf('conf.py', [1]), leaf('index.rst'), ['B', [], [['conf.py', [], [leaf('x')]]]]]],
        ['M', [0], [['.static', [], [['valjean.css', [1], [leaf('x', [2])]]]]]],
        ['M', [0], [['.static', [], [leaf('valjean.css', [1])]], ['B', [], [['.static', [], [['valjean.css', [], [leaf('x')]]]]]]]],
        ['M', [0], [['figures', [], [[f'plot_{pool.plot_fps[0][0]}.png', [], [leaf('x', [1])]]]]]],
        ['M', [], [['figures', [], [[f'plot_{pool.plot_fps[0][0]}.png', [], [leaf('x', [1])]]]]]],
        ['M', [0], [['figures', [], [leaf(f'plot_{pool.plot_fps[0][0]}.png', [1])]]]],
        # titles equal up to whitespace / dots / unicode form are different sections with different pages
        ['M', [0], [leaf(' index', [1]), leaf('index ', [2]), leaf('index.', [3])]],
        ['M', [], [['a', [], [['b', [], [['c', [], [leaf('TRIPOLI-4', [1, 5]), leaf('TRIPOLI-4 ', [2, 9])]]]]]]]],
        ['M', [0], [leaf('A', [1]), leaf('A ', [2]), leaf(' A', [3]), leaf('A.', [4]), ['A  ', [], [leaf('x', [5])]]]],
        ['M', [0], [leaf('\u00e9t\u00e9', [1]), leaf('e\u0301te\u0301', [2])]],
        # distinct results whose tests have the same name: same page, cousin sections
        ['M', [0, 4, 8], [['TRIPOLI-4', [], [leaf('keff', [1, 5])]], ['MCNP', [], [leaf('keff', [9, 1])]]]],
        ['M', [], [leaf('A', [2, 6, 10]), leaf('B', [6, 2])]],
        # plots on pages at depth 0, 1, 2, 3, 4: every image target must resolve from its own page
        ['M', [0], [['A', [1], [['B', [3], [['C', [4], [leaf('D', [6])]]]]]], leaf('E', [7])]],
        ['M', [], [['figures', [0], [['figures', [1], [leaf('x', [3])]]]]]],
        # the same TestReport object below two parents / twice below one parent / at two depths
        ['M', [0], [['A', [], [['S', [1], [leaf('x', [2])], 's1']]], ['B', [3], [['S', [1], [leaf('x', [2])], 's1']]]]],
        ['M', [0], [['S', [1], [], 's1'], ['A', [], [['S', [1], [], 's1']]]]],
        ['M', [0], [['S', [1], [], 's1'], ['S', [1], [], 's1']]],
        ['M', [], [['A', [], [['S', [1], [leaf('x')], 's1'], ['S', [1], [leaf('x')], 's1']]]]],
    ]
    ctx.count('corpus', len(cases))
    nrand = 260 if quick else 6000
    for k in range(nrand):
        r = rng.random()
        flaw = None
        if r < 0.08:
            flaw = 'bad'
        elif r < 0.16:
            flaw = 'dup'
        elif r < 0.21:
            flaw = 'index'
        elif r < 0.26:
            flaw = 'nested-index'
        elif r < 0.33:
            flaw = 'deep'
        elif r < 0.36:
            flaw = 'static-css'
        elif r < 0.39:
            flaw = 'figure-dir'
        elif r < 0.51:
            flaw = 'variant-sibling'
        elif r < 0.56:
            flaw = 'variant-index'
        elif r < 0.64:
            flaw = 'shared-subreport'
        elif r < 0.67:
            flaw = 'shared-twice'
        elif r < 0.75:
            flaw = 'reserved-leaf'
        cases.append(gen_tree(rng, rng.choice([1, 2, 3, 4, 4, 4]), flaw, pool))
    ctx.count('random', nrand)
    ncorpus = len(cases) - nrand
    out = [{'tree': tree, 'cfg': dict(DEFAULT_CFG)} for tree in cases[:ncorpus]]
    # configurations x number of plots: 0 / 1 / fewer than, as many as, more than the workers
    def flat(results):
        return ['M', list(results), [['A', [], []]]]
    with_plot = [i for i in range(NPOOL) if pool.plot_fps[i]]
    without = [i for i in range(NPOOL) if not pool.plot_fps[i]]
    for nw in (None, 1, 2, 3, 8):
        for nplots in (0, 1, 2, 3, len(with_plot)):
            tree = flat(with_plot[:nplots] + without[:1])
            if nplots == 2:      # the plots may also sit in sub-sections
                tree = ['M', [], [['A', [with_plot[0]], [['B', [with_plot[1], without[0]], []]]]]]
            out.append({'tree': tree, 'cfg': dict(DEFAULT_CFG, n_workers=nw)})
    for kind in ('Path', 'existing', 'trailing-slash', 'nested-missing'):
        out.append({'tree': flat(with_plot[:2]), 'cfg': dict(DEFAULT_CFG, path=kind, n_workers=8)})
        out.append({'tree': ['M', [0], [['a/b', [], []]]], 'cfg': dict(DEFAULT_CFG, path=kind)})
    for hist in HISTORIES[1:]:
        for nw in (None, 2):
            out.append({'tree': ['M', [with_plot[0]], [['A', [with_plot[1], without[0]], []]]],
                        'cfg': dict(DEFAULT_CFG, history=hist, n_workers=nw)})
        out.append({'tree': ['M', [0], [['A', [1], []], ['A', [2], []]]], 'cfg': dict(DEFAULT_CFG, history=hist)})
    fp0 = pool.plot_fps[with_plot[0]][0]
    leafy = ['M', [with_plot[0]], [['conf.py', [1], []], ['index.rst', [], []], ['X', [2], [['y', [], []]]],
                                   ['X.rst', [3], []], ['figures', [], [[f'plot_{fp0}.png', [], []]]],
                                   ['.static', [], [['valjean.css', [4], []]]], ['_static', [], []],
                                   ['B', [], [['Z', [], []], ['Z.rst', [5], []]]]]]
    for hist in ('once', 'two-dirs', 'three-dirs', 'same-dir-twice', 'same-dir-three-times', 'clean-rewrite',
                 'format-twice', 'plain-dicts', 'plain-dicts-twice'):
        out.append({'tree': leafy, 'cfg': dict(DEFAULT_CFG, history=hist)})
    out.append({'tree': ['M', [0], [['conf.py', [], [['x', [], []]]]]],
                'cfg': dict(DEFAULT_CFG, history='plain-dicts-twice')})
    ctx.count('corpus_configurations', len(out) - ncorpus)
    rand = [{'tree': tree, 'cfg': gen_cfg(rng)} for tree in cases[ncorpus:]]
    # overlapping format_report() calls: 12% of the random cases get one or two partner reports
    for k, case in enumerate(rand):
        if rng.random() < 0.12 and len(rand) > 3:
            partners = [rng.choice(rand)['tree'] for _ in range(rng.choice([1, 1, 2]))]
            case['cfg'] = dict(case['cfg'], history=rng.choice(OVERLAPS), partners=partners)
            if nresults(case['tree']) == 0:
                case['tree'][1].append(rng.randrange(NPOOL))
    # corpus of overlaps: two / three reports with results and plots of their own, one of them refused
    rep_a = ['RA', [with_plot[0], without[0]], [['A', [with_plot[1]], [['x', [with_plot[2]], []]]], ['B', [5], []]]]
    rep_b = ['RB', [with_plot[3]], [['A', [with_plot[4], without[1]], []], ['C', [], [['y', [with_plot[0]], []]]]]]
    rep_c = ['RC', [without[2]], [['Z', [with_plot[5]], []]]]
    rep_bad = ['RD', [with_plot[1]], [['A', [2], []], ['A', [3], []]]]
    for mode in OVERLAPS:
        for nw in (None, 2):
            out.append({'tree': rep_a, 'cfg': dict(DEFAULT_CFG, history=mode, partners=[rep_b], n_workers=nw)})
        out.append({'tree': rep_a, 'cfg': dict(DEFAULT_CFG, history=mode, partners=[rep_b, rep_c])})
        out.append({'tree': rep_b, 'cfg': dict(DEFAULT_CFG, history=mode, partners=[rep_bad, rep_a])})
        out.append({'tree': rep_bad, 'cfg': dict(DEFAULT_CFG, history=mode, partners=[rep_c])})
    ctx.count('corpus_overlaps', 5 * len(OVERLAPS))
    out += rand
    return out


# --------------------------------------------------------------------------
# running the implementation and parsing the directory back

def build_report(TestReport, pool, node, memo=None):
    '''a node with a 4th element (a label) is ONE TestReport object wherever the label occurs: the input is
    then a DAG (the same section object below several parents / twice below one parent)'''
    memo = {} if memo is None else memo
    title, res, kids = node[:3]
    label = node[3] if len(node) > 3 else None
    if label is not None and label in memo:
        return memo[label]
    content = [pool.results[i] for i in res]      # result objects are shared between sections anyway
    # sub-sections and results alternate
    subs = [build_report(TestReport, pool, kid, memo) for kid in kids]
    mixed = []
    while content or subs:
        if content:
            mixed.append(content.pop(0))
        if subs:
            mixed.append(subs.pop(0))
    report = TestReport(title=title, text=f'text of {title!r}', content=mixed)
    if label is not None:
        memo[label] = report
    return report


def parse_page(text, pool):
    anchors = [pool.anchor_id.get(fp, 999999)
               for fp in re.findall(r'^\.\. _anchor_([0-9a-f]+):$', text, re.M)]
    # every image / figure directive, whatever its target looks like; the plot is recognised by the file name,
    # the target itself is kept for the oracle (it must resolve to a written file)
    targets = re.findall(r'^\.\. (?:image|figure):: *(.*?) *$', text, re.M)
    images = []
    for tgt in targets:
        m = re.fullmatch(r'plot_(\w+)\.png', posixpath.basename(tgt))
        images.append(pool.plot_id.get(m.group(1), 'unknown-' + m.group(1)[:8]) if m else 'not-a-plot:' + tgt[:40])
    descr = [int(n) for n in re.findall(r'^description (\d+)$', text, re.M)]
    toc = []
    lines = text.split('\n')
    k = 0
    while k < len(lines):
        if lines[k].startswith('.. toctree::'):
            k += 1
            while k < len(lines) and lines[k].startswith('    :'):
                k += 1
            while k < len(lines) and lines[k] == '':
                k += 1
            while k < len(lines) and lines[k].startswith('    '):
                toc.append(lines[k][4:])
                k += 1
        else:
            k += 1
    return anchors, toc, images, lines[0], descr, targets


def observe(base, rep_dir, pool, raised):
    '''everything found below `base` (the private parent of one target directory), relative to the target'''
    files, pages, figs, others = [], {}, [], []
    for dirpath, dirnames, filenames in os.walk(base):
        dirnames.sort()
        for fname in sorted(filenames):
            full = os.path.join(dirpath, fname)
            rel = os.path.relpath(full, rep_dir)
            files.append(rel)
            if rel.endswith('.rst'):
                with open(full, encoding='utf-8') as fil:
                    pages[rel[:-4]] = parse_page(fil.read(), pool)
            elif rel.startswith('figures/') and re.fullmatch(r'figures/plot_\w+\.png', rel):
                fp = rel[len('figures/plot_'):-4]
                figs.append(pool.plot_id.get(fp, 'unknown-' + fp[:8]))
            else:
                others.append(rel)
    return {'raised': raised, 'files': files, 'pages': pages, 'figs': figs, 'others': others}


class Gate:
    '''a Representation that calls `hook` once, when it is asked for its `at`-th result'''
    def __init__(self, inner, at, hook):
        self.inner, self.at, self.hook, self.count = inner, at, hook, 0

    @property
    def verbosity(self):
        return self.inner.verbosity

    def __call__(self, result):
        k, self.count = self.count, self.count + 1
        if k == self.at and self.hook is not None:
            hook, self.hook = self.hook, None
            hook()
        return self.inner(result)


def nresults(tree):
    return len(tree[1]) + sum(nresults(kid) for kid in tree[2])


def run_overlap(trees, mode, cfg, pool, TestReport, target, write):
    '''format the reports of `trees` with one Rst object each, at overlapping times; then write every one of them
    to a directory of its own; returns one observation per report (tagged with its tree)'''
    import threading
    n = len(trees)
    rsts, fmts, errs, started, passed = [None] * n, [None] * n, [None] * n, [False] * n, [False] * n
    parties = sum(1 for t in trees if nresults(t) > 0)
    barrier = threading.Barrier(parties) if mode == 'overlap-barrier' and parties > 1 else None

    def run(i):
        def hook():
            if barrier is not None:
                passed[i] = True
                try:
                    barrier.wait(timeout=2.0)
                except threading.BrokenBarrierError:
                    pass
            elif mode != 'overlap-barrier' and i + 1 < n and not started[i + 1]:
                launch(i + 1)
        started[i] = True
        inner = pool.rpr.Representation(pool.rpr.FullRepresenter())
        rsts[i] = pool.Rst(Gate(inner, nresults(trees[i]) // 2, hook), n_workers=cfg['n_workers'])
        try:
            report = build_report(TestReport, pool, trees[i])
            fmts[i] = rsts[i].format_report(report=report, author=cfg['author'], version=cfg['version'])
        except Exception as exc:     # noqa
            errs[i] = type(exc).__name__
        if barrier is not None and not passed[i] and nresults(trees[i]) > 0:
            barrier.abort()          # refused before the gate: nobody has to wait for this report

    def launch(i):
        if mode == 'overlap-nested':
            run(i)
        else:
            thread = threading.Thread(target=run, args=(i,))
            thread.start()
            thread.join()

    if mode == 'overlap-barrier':
        threads = [threading.Thread(target=run, args=(i,)) for i in range(n)]
        for thread in threads:
            thread.start()
        for thread in threads:
            thread.join()
    else:
        launch(0)
        for i in range(n):
            if not started[i]:
                launch(i)
    # no two Rst / FormattedRst objects may share a mutable container
    structural = []
    for i in range(n):
        for j in range(i + 1, n):
            for attr in ('tree_dict', 'text_dict', 'plots'):
                for kind, objs in (('Rst', rsts), ('FormattedRst', fmts)):
                    a, b = objs[i], objs[j]
                    if a is not None and b is not None and getattr(a, attr) is getattr(b, attr):
                        structural.append(f'two {kind} objects share their {attr}')
            if fmts[i] is not None and fmts[j] is not None:
                ids = {id(v) for v in fmts[i].text_dict.values()} | {id(v) for v in fmts[i].tree_dict.values()}
                if any(id(v) in ids for v in list(fmts[j].text_dict.values()) + list(fmts[j].tree_dict.values())):
                    structural.append('two FormattedRst objects share the list of a section')
    out = []
    for i in range(n):
        if fmts[i] is None:
            base, rep_dir, _ = target(i)
            obs = observe(base, rep_dir, pool, errs[i] or 'NotFormatted')
        else:
            base, rep_dir, raised = write(fmts[i], i)
            obs = observe(base, rep_dir, pool, raised)
        obs['tree'] = trees[i]
        if i == 0:
            obs['structural'] = sorted(set(structural))
        out.append(obs)
    return out


def run_case(tree, wdir, pool, TestReport, cfg=None):
    '''run one (tree, configuration); returns one observation per directory the history writes'''
    from pathlib import Path
    cfg = dict(DEFAULT_CFG, **(cfg or {}))
    shutil.rmtree(wdir, ignore_errors=True)
    os.makedirs(wdir)

    def target(k):
        base = os.path.join(wdir, f'w{k}')
        os.makedirs(base, exist_ok=True)
        rep_dir = os.path.join(base, 'rep')
        tgt = rep_dir
        if cfg['path'] == 'Path':
            tgt = Path(rep_dir)
        elif cfg['path'] == 'existing':
            os.makedirs(rep_dir, exist_ok=True)
        elif cfg['path'] == 'trailing-slash':
            tgt = rep_dir + '/'
        elif cfg['path'] == 'nested-missing':
            rep_dir = os.path.join(base, 'not', 'yet', 'rep')
            tgt = rep_dir
        return base, rep_dir, tgt

    def write(fmt, k):
        base, rep_dir, tgt = target(k)
        raised = None
        try:
            fmt.write(tgt)
        except Exception as exc:     # noqa
            raised = type(exc).__name__
        return base, rep_dir, raised

    hist = cfg['history']
    if hist in OVERLAPS:
        return run_overlap([tree] + list(cfg.get('partners') or []), hist, cfg, pool, TestReport, target, write)
    rst = pool.new_rst(cfg['n_workers'])

    def fmt_of(rep):
        return rst.format_report(report=rep, author=cfg['author'], version=cfg['version'])
    try:
        report = build_report(TestReport, pool, tree)
        if hist == 'rst-reused-before':
            fmt_of(pool.other_report(TestReport))
        fmt = fmt_of(report)
        first = fmt
        if hist == 'format-twice':
            fmt = fmt_of(report)
        if hist == 'rst-reused-after':
            fmt_of(pool.other_report(TestReport))
    except Exception as exc:     # noqa  (format_report refuses: nothing can have been written)
        base, rep_dir, _ = target(0)
        return [observe(base, rep_dir, pool, type(exc).__name__)]
    if hist in ('plain-dicts', 'plain-dicts-twice'):
        try:
            keys = list(fmt.text_dict)
            fmt = type(fmt)(author=cfg['author'], title=tree[0], version=cfg['version'],
                            tree_dict={key: list(fmt.tree_dict.get(key, [])) for key in keys},
                            text_dict={key: list(fmt.text_dict[key]) for key in keys},
                            plots=dict(fmt.plots), n_workers=cfg['n_workers'])
        except Exception as exc:     # noqa
            base, rep_dir, _ = target(0)
            return [observe(base, rep_dir, pool, type(exc).__name__)]
    out = []
    if hist in ('once', 'rst-reused-before', 'rst-reused-after', 'plain-dicts'):
        plan = [0]
    elif hist == 'plain-dicts-twice':
        plan = [0, 1, 0]
    elif hist == 'two-dirs':
        plan = [0, 1]
    elif hist == 'three-dirs':
        plan = [0, 1, 2]
    elif hist == 'format-twice':
        plan = [0]
    else:
        plan = []
    for k in plan:
        base, rep_dir, raised = write(fmt, k)
        out.append(observe(base, rep_dir, pool, raised))
    if hist == 'format-twice':        # the object of the first format_report is still good
        base, rep_dir, raised = write(first, 1)
        out.append(observe(base, rep_dir, pool, raised))
    if hist == 'same-dir-twice':
        write(fmt, 0)
        base, rep_dir, raised = write(fmt, 0)
        out.append(observe(base, rep_dir, pool, raised))
    if hist == 'same-dir-three-times':
        write(fmt, 0)
        write(fmt, 0)
        base, rep_dir, raised = write(fmt, 0)
        out.append(observe(base, rep_dir, pool, raised))
    if hist == 'clean-rewrite':
        base, rep_dir, raised = write(fmt, 0)
        shutil.rmtree(base)
        base, rep_dir, raised = write(fmt, 0)
        out.append(observe(base, rep_dir, pool, raised))
    return out


# --------------------------------------------------------------------------
# the property oracle

def sections(tree, chain=()):
    yield chain, tree
    for kid in tree[2]:
        yield from sections(kid, chain + (kid[0],))


def unwritable_reason(tree, pool):
    '''why no directory can satisfy the property for this tree (None if one can)'''
    for chain, node in sections(tree):
        if len(chain) >= 5:
            return 'deeper than the five supported levels'
        if chain and not usable(chain[-1]):
            return f'title {chain[-1]!r} cannot be used as a file name'
    files = [('index.rst',) if not chain else chain[:-1] + (chain[-1] + '.rst',) for chain, _ in sections(tree)]
    if len(set(files)) != len(files):
        return 'two sections have the same page path'
    files += [('conf.py',), ('.static', 'valjean.css')]
    files += [('figures', f'plot_{fp}.png') for _, node in sections(tree) for i in node[1] for fp in pool.plot_fps[i]]
    dirs = {f[:k] for f in files for k in range(1, len(f))}
    both = dirs & set(files)
    if both:
        return f'{sorted(both)[0]} would have to be both a file and a directory'
    return None


def oracle(ctx, tree, obs, pool, cfg=None, main=None):
    cfg = cfg or DEFAULT_CFG
    main = tree if main is None else main

    def fail(what, key):
        shown = {k: v for k, v in cfg.items() if k != 'partners'}
        ctx.oracle_failure(f'{what} :: {json.dumps(shown)} {json.dumps(tree)[:400]}', {'tree': main, 'cfg': cfg},
                           key=key)


    reason = unwritable_reason(tree, pool)
    if obs['raised']:
        if obs['files']:
            fail(f'report rejected ({obs["raised"]}) after {obs["files"][:6]} were written', 'rejected-after-writing')
        if reason is None:
            fail(f'a report that can be written was rejected ({obs["raised"]})', 'unexpected-rejection')
        return
    if reason is not None:
        fail(f'written although {reason}', 'written-although-unwritable')
    pages = obs['pages']
    want = {}
    for chain, node in sections(tree):
        doc = 'index' if not chain else '/'.join(chain)
        want.setdefault(doc, []).append((chain, node))
    if sorted(pages) != sorted(want):
        fail(f'pages written {sorted(pages)} but the sections are {sorted(want)}', 'pages-vs-sections')
    nres = 0
    for doc, lst in want.items():
        chain, node = lst[0]
        nres += sum(len(n[1]) for _, n in lst)
        if doc not in pages:
            continue
        anchors, toc, images, title_line, descr = pages[doc][:5]
        # Sphinx: a target with a leading '/' is relative to the root of the report, any other to the directory
        # of the page; either way it must be one of the written files
        for tgt in (pages[doc][5] if len(pages[doc]) > 5 else []):
            where = posixpath.normpath(tgt[1:] if tgt.startswith('/')
                                       else posixpath.join(posixpath.dirname(doc), tgt))
            if where not in obs['files']:
                fail(f'page {doc}: image target {tgt!r} resolves to {where!r}, which was not written',
                     'image-target-dangling')
        if len(lst) > 1:
            fail(f'page {doc} is shared by {len(lst)} sections', 'page-shared')
            continue
        if '\n' not in node[0] and title_line != node[0]:
            fail(f'page {doc!r} starts with the title {title_line!r}, its section is titled {node[0]!r}',
                 'title-on-page')
        if anchors != node[1]:
            fail(f'page {doc}: anchors of results {anchors}, the section holds {node[1]}', 'anchors-on-page')
        # every result is identified by its own description text: once, here, in order
        if descr != node[1]:
            fail(f'page {doc}: descriptions of results {descr}, the section holds {node[1]}', 'results-on-page')
        # table of contents: every entry resolves to a written page, namely the sub-sections' pages in order
        resolved = [posixpath.normpath(posixpath.join(posixpath.dirname(doc), entry)) for entry in toc]
        for entry, target in zip(toc, resolved):
            if target not in pages:
                fail(f'page {doc}: toctree entry {entry!r} -> {target!r} is not a written page', 'toc-dangling')
        kids = ['/'.join(chain + (kid[0],)) for kid in node[2]]
        if resolved != kids:
            fail(f'page {doc}: toctree resolves to {resolved}, the sub-sections are {kids}', 'toc-vs-subsections')
        for img in images:
            if img not in obs['figs']:
                fail(f'page {doc}: image {img} has no file in figures/', 'figure-missing')
        if images != [p for i in node[1] for p in pool.images[i]]:
            fail(f'page {doc}: images {images} are not those of its results', 'images-on-page')
    total = sum(len(p[0]) for p in pages.values())
    if total != nres:
        fail(f'{total} anchors written for {nres} results', 'anchor-count')
    # every plot of every result of the tree has its file
    for _, node in sections(tree):
        for i in node[1]:
            for img in pool.images[i]:
                if img not in obs['figs']:
                    fail(f'the plot {img} of result {i} has no file in figures/', 'figure-of-result-missing')


# --------------------------------------------------------------------------
# model side

def coq_tree(node, pool):
    title, res, kids = node[:3]
    results = ['(mk_result ' + cn(i) + ' ' + clist([cstr(p) for p in pool.images[i]]) + ')' for i in res]
    return ('(Node ' + cstr(pool.canon(title)) + ' ' + clist(results) + ' '
            + clist([coq_tree(kid, pool) for kid in kids]) + ')')


CANON = [lambda text: text]


def coq_path(rel):
    return clist([cstr(CANON[0](c)) for c in rel.split('/')])


def coq_obs(obs):
    if obs['raised']:
        return '(ORaised ' + clist([coq_path(f) for f in obs['files']]) + ')'
    pages = []
    for doc, page in obs['pages'].items():
        anchors, toc, images = page[:3]
        pages.append('(mk_page ' + coq_path(doc) + ' ' + clist([cn(a) for a in anchors]) + ' '
                     + clist([coq_path(e) for e in toc]) + ' ' + clist([cstr(i) for i in images]) + ')')
    return ('(OWritten ' + clist(pages) + ' ' + clist([cstr(f) for f in obs['figs']]) + ' '
            + clist([coq_path(f) for f in obs['others']]) + ')')


# --------------------------------------------------------------------------
# other interpreter configurations: the same cases written by a child interpreter started with other flags
# (assertions disabled, docstrings stripped, another hash seed), each into a fresh directory

INTERPRETERS = [{'flags': ['-O'], 'hashseed': '0'}, {'flags': ['-OO'], 'hashseed': 'random'},
                {'flags': ['-O', '-X', 'dev'], 'hashseed': '12345'}]


def child_main(inp, outp):
    '''runs in the child interpreter: write every case of `inp`, store the observations in `outp`'''
    pool, TestReport = load()
    cases = json.load(open(inp))
    wdir = os.path.join(os.path.dirname(os.path.abspath(outp)), 'child-c20')
    out = []
    for case in cases:
        out.append(run_case(case['tree'], wdir, pool, TestReport, case['cfg']))
    shutil.rmtree(wdir, ignore_errors=True)
    with open(outp, 'w') as fil:
        json.dump({'optimize': sys.flags.optimize, 'results': out}, fil)


def run_in_child(cases, interp, wdir):
    '''-> list (one per case) of lists of observations, made by a child interpreter'''
    import subprocess
    os.makedirs(wdir, exist_ok=True)
    inp, outp = os.path.join(wdir, 'child-in.json'), os.path.join(wdir, 'child-out.json')
    with open(inp, 'w') as fil:
        json.dump(cases, fil)
    env = dict(os.environ, PYTHONHASHSEED=interp['hashseed'], VERIF_REPO=common.REPO,
               PYTHONPATH=common.REPO + os.pathsep + os.path.join(common.VERIF, 'harness'))
    cmd = [sys.executable, '-W', 'ignore'] + interp['flags'] + \
        ['-c', 'import sys, c20; c20.child_main(sys.argv[1], sys.argv[2])', inp, outp]
    proc = subprocess.run(cmd, env=env, stdout=subprocess.PIPE, stderr=subprocess.STDOUT, text=True, timeout=600)
    if proc.returncode != 0 or not os.path.exists(outp):
        raise RuntimeError(f'child interpreter {interp} failed: {proc.stdout[-2000:]}')
    data = json.load(open(outp))
    if '-O' in interp['flags'] or '-OO' in interp['flags']:
        assert data['optimize'] >= 1, 'the child interpreter did not run with assertions disabled'
    for per_case in data['results']:
        for obs in per_case:
            obs['pages'] = {doc: tuple(page) for doc, page in obs['pages'].items()}
    return data['results']


def gen_child_cases(ctx, pool):
    '''a sample for the child interpreters: nested sections (depth >= 2), plots, refused trees, some configurations'''
    rng = ctx.rng

    def leaf(t, rs=()):
        return [t, list(rs), []]
    trees = [
        ['M', [0], [['A', [1], [leaf('B', [2])]]]],
        ['M', [0], [['A', [], [['B', [1], [['C', [], [leaf('D', [2])]]]]]], ['E', [3], [leaf('F', [4])]]]],
        ['M', [], [['figures', [0], [leaf('x', [1])]], ['.static', [], [leaf('y', [2])]]]],
        ['M', [0], [leaf('A', [1]), ['B', [], [leaf('a/b', [2])]]]],
        ['M', [0], [['A', [], [leaf('X', [1]), leaf('X', [2])]]]],
        ['M', [0], [['A', [], [['S', [1], [leaf('x', [2])], 's1']]], ['B', [3], [['S', [1], [leaf('x', [2])], 's1']]]]],
    ]
    cases = [{'tree': tree, 'cfg': dict(DEFAULT_CFG)} for tree in trees]
    cases.append({'tree': trees[1], 'cfg': dict(DEFAULT_CFG, n_workers=2, path='nested-missing')})
    cases.append({'tree': trees[0], 'cfg': dict(DEFAULT_CFG, history='two-dirs', path='Path')})
    nrand = 12 if ctx.tier == "quick" else 300
    while len(cases) < len(trees) + 2 + nrand:
        tree = gen_tree(rng, rng.choice([2, 3, 4]), rng.choice([None, None, None, 'bad', 'dup', 'variant-sibling',
                                                                'shared-subreport']), pool)
        if depth_of(tree) >= 3:
            cfg = gen_cfg(rng)
            cases.append({'tree': tree, 'cfg': cfg})
    return cases


def report_structural(ctx, case, all_obs, behaviour_failed):
    '''Two Rst / FormattedRst objects sharing a container is not a failure of the property by itself (a
    FormattedRst that references instead of copying, interned empty lists, ... are harmless): it is noted in the
    evidence, and becomes part of the diagnosis only when a behavioural clause of the same case fails too.'''
    structural = sorted({what for obs in all_obs for what in obs.get('structural') or []})
    if not structural:
        return
    ctx.count('note_shared_containers')
    if behaviour_failed:
        shown = {k: v for k, v in case['cfg'].items() if k != 'partners'}
        ctx.oracle_failure(f'(diagnosis of the failures of this case) {"; ".join(structural)} :: {json.dumps(shown)} '
                           f'{json.dumps(case["tree"])[:300]}', case, key='shared-containers')
    else:
        note = ('NOTE (not a violation): in some overlap histories ' + '; '.join(structural)
                + ' - every report was nevertheless written correctly')
        if note not in ctx.notes:
            ctx.notes.append(note)


def load():
    common.import_repo()
    from valjean.javert.test_report import TestReport
    pool = Pool()
    CANON[0] = pool.canon
    return pool, TestReport


def depth_of(tree):
    return 1 + max([depth_of(k) for k in tree[2]], default=0)


def run(ctx):
    pool, TestReport = load()
    if pool.fresh_rst_dirty:
        ctx.oracle_failure(f'a newly created Rst object is not empty: it already holds the plots / sections '
                           f'registered through OTHER Rst objects (result index, number of plots): '
                           f'{pool.fresh_rst_dirty[:5]}', {'kind': 'fresh-rst', 'dirty': pool.fresh_rst_dirty[:20]},
                           key='fresh-rst-not-empty')
    ctx.rule = ('corpus (index / invalid / duplicate / empty titles, reserved names, depth limit) + random trees '
                '(depth <= 5 levels, 0-4 children, titles from an alphabet with index, figures, conf.py, .static, '
                'x.rst ...; flaws injected at controlled rates: invalid title 8%, duplicate siblings 8%, top-level '
                'index 5%, nested index 5%, six levels 7%, sub-sections below .static/valjean.css 3% and below '
                'figures/plot_<fingerprint>.png 3%, a sibling / a top-level title that differs from another title / '
                'from index only by whitespace, trailing dots or unicode form 12% / 5% (valid: two pages)), results '
                'i, i+4, i+8 of the pool share their test name, results from a pool of 12 real TestEqual/TestStudent '
                'results with distinct fingerprints, 8 of them with a plot; non-trivial = written with >= 3 pages '
                'or rejected; every tree is written under a configuration: Rst(n_workers) None 68% / 1 / 2 / 3 / 8 (the '
                'multiprocessing branch of write(), with 0, 1, fewer, as many, more plots than workers), target given as '
                'str / Path / existing directory / with trailing slash / below missing parents, author and version '
                'strings, and a history on the Rst / FormattedRst objects (45%: write to two / three directories, twice to '
                'the same, clean and rewrite, format_report twice, Rst reused for another report before / after): every '
                'directory written is checked; 11% of the trees are DAGs (one TestReport object below two parents, or '
                'twice below one parent); 12% of the cases format two or three different reports with one Rst each at '
                'overlapping times (threads / nested / barrier, overlap made deterministic by a gate in the '
                'representation) and every report is written and checked; a sample with nested sections is also written '
                'by child interpreters (python -O, -OO, other hash seed); distinct by (tree, configuration)')
    import time
    t_start = time.time()
    cases = gen_cases(ctx, pool)
    wdir = os.path.join(ctx.wd(), 'c20')
    done = []
    for case in cases:
        tree, cfg = case['tree'], case['cfg']
        all_obs = run_case(tree, wdir, pool, TestReport, cfg)
        before = len(ctx.violations)
        for obs in all_obs:
            oracle(ctx, obs.get('tree', tree), obs, pool, cfg, main=tree)
            done.append((obs.get('tree', tree), obs, cfg))
        report_structural(ctx, case, all_obs, len(ctx.violations) > before)
        ctx.count('directories_observed', len(all_obs))
        obs = all_obs[0] if cfg.get('history') in OVERLAPS else all_obs[-1]
        ctx.case_seen(case, bool(obs['raised']) or len(obs['pages']) >= 3, sample_every=131)
        ctx.count(f'n_workers_{cfg["n_workers"]}')
        ctx.count(f'path_{cfg["path"]}')
        ctx.count(f'history_{cfg.get("history", "once")}')
        if not obs['raised'] and cfg['n_workers']:
            nfig = len(obs['figs'])
            ctx.count('pool_' + ('no_plot' if nfig == 0 else 'fewer_plots_than_workers' if nfig < cfg['n_workers']
                                 else 'as_many_plots_as_workers' if nfig == cfg['n_workers']
                                 else 'more_plots_than_workers'))
        ctx.count('rejected_' + obs['raised'] if obs['raised'] else 'written')
        ctx.count(f'levels_{depth_of(tree)}')
        if not obs['raised']:
            ctx.count('pages_written', len(obs['pages']))
            ctx.count('figures_written', len(obs['figs']))
    shutil.rmtree(wdir, ignore_errors=True)
    t_main = time.time()
    # the same kind of cases through child interpreters with other flags (python -O, -OO, ...)
    child_cases = gen_child_cases(ctx, pool)
    interps = INTERPRETERS[:2] if ctx.tier == 'quick' else INTERPRETERS
    for k, interp in enumerate(interps):
        part = child_cases if ctx.tier != 'quick' else child_cases[:8] + child_cases[8 + k::len(interps)]
        results = run_in_child(part, interp, os.path.join(ctx.wd(), f'child{k}'))
        for case, all_obs in zip(part, results):
            cfg = dict(case['cfg'], interpreter=interp)
            for obs in all_obs:
                oracle(ctx, obs.get('tree', case['tree']), obs, pool, cfg, main=case['tree'])
                done.append((obs.get('tree', case['tree']), obs, cfg))
            ctx.case_seen({'tree': case['tree'], 'cfg': cfg}, True)
            ctx.count('interpreter_' + ' '.join(interp['flags']))
            ctx.count('directories_observed', len(all_obs))
    t_child = time.time()
    shard_size = 80
    shards = []
    for k in range(0, len(done), shard_size):
        items = ['(' + coq_tree(tree, pool) + ',\n  ' + coq_obs(obs) + ')' for tree, obs, _cfg in done[k:k + shard_size]]
        shards.append('Definition cases : list (report * obs) :=\n [' + ';\n '.join(items)
                      + '].\nEval vm_compute in bad_indices (map check_case cases).')
    outs = common.coq_eval(ctx.pid, IMPORTS, shards)
    for k, out in enumerate(outs):
        for i in common.parse_nat_list(out):
            tree, obs, cfg = done[k * shard_size + i]
            ctx.mismatch('implementation: ' + json.dumps({'cfg': cfg, 'raised': obs['raised'], 'files': obs['files'],
                                                          'pages': obs['pages']})[:600],
                         {'tree': tree, 'cfg': cfg, 'observed': {'raised': obs['raised'], 'files': obs['files'],
                                                     'pages': obs['pages'], 'figs': obs['figs']}})
    ctx.extra['model_cases_compared'] = len(done)
    ctx.extra['phase_seconds'] = {'implementation_and_oracle': round(t_main - t_start, 1),
                                  'child_interpreters': round(t_child - t_main, 1),
                                  'model_in_coq': round(time.time() - t_child, 1)}
    ctx.assumptions = ['only the drawing is stubbed (MplPlot.save -> a small file, also in the worker processes); which '
                       'plots are saved and through which branch is the code\'s own write()',
                       'toctree entries are read literally (Sphinx: relative to the directory of the page); '
                       "Sphinx' own treatment of entries (whitespace stripping, 'title <target>', 'self', "
                       'suffix stripping) is outside the model',
                       'results are identified by the fingerprint of their test (distinct in the pool)']


def replay(ctx, path):
    pool, TestReport = load()
    data = json.load(open(path))
    case = data['case']
    cfg = dict(DEFAULT_CFG)
    if isinstance(case, dict):
        cfg.update(case.get('cfg') or {})
        tree = case.get('tree', case.get('case'))
    else:
        tree = case
    wdir = os.path.join(ctx.wd(), 'c20')
    if cfg.get('interpreter'):
        plain = {k: v for k, v in cfg.items() if k != 'interpreter'}
        all_obs = run_in_child([{'tree': tree, 'cfg': plain}], cfg['interpreter'], os.path.join(ctx.wd(), 'child'))[0]
    else:
        all_obs = run_case(tree, wdir, pool, TestReport, cfg)
    print('cfg:', json.dumps(cfg))
    print('tree:', json.dumps(tree))
    for obs in all_obs:
        print('impl:', json.dumps({k: obs.get(k) for k in ('tree', 'structural', 'raised', 'files', 'pages', 'figs',
                                                           'others')}))
        oracle(ctx, obs.get('tree', tree), obs, pool, cfg, main=tree)
    report_structural(ctx, {'tree': tree, 'cfg': cfg}, all_obs, bool(ctx.violations))
    for note in ctx.notes:
        print('note:', note)
    obs = all_obs[0]
    tree = obs.get('tree', tree)
    for v in ctx.violations:
        print('oracle:', v[1][:600])
    body = ('Definition c := (' + coq_tree(tree, pool) + ', ' + coq_obs(obs) + ').\n'
            'Eval vm_compute in (check_case c, write (fst c)).')
    print('model:', common.coq_eval(ctx.pid, IMPORTS, [body])[0][:3000])
    shutil.rmtree(ctx.wd(), ignore_errors=True)
    return 0

'''C03: see harness/vp/schedcheck.py (shared driver of the scheduler checks)'''
from vp import common, schedcheck


def run(ctx):
    common.import_repo()
    schedcheck.run(ctx, 'C03')


def replay(ctx, path):
    common.import_repo()
    return schedcheck.replay(ctx, path, 'C03')

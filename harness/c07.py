'''C07: chi-square test.  Implementation (valjean.gavroche.stat_tests.chi2)
vs Coq model C07/Model.v, plus the property oracle (numpy elementwise floats,
math.fsum and scipy.special.chdtrc as ground truth) incl. a re-run with
permuted bins.'''
import json
import math
import time

import numpy as np

import c0567_layouts as layouts
from vp import common
from vp.common import cz, cn, cb, clist

IMPORTS = '''From Coq Require Import List ZArith.
From VV Require Import Lib.Base Lib.B64 C07.Model.
Import ListNotations.
'''

NAN = float('nan')
INF = float('inf')
ALPHAS = [0.001, 0.01, 0.05, 0.1, 0.5]


def bits(x):
    return common.canon_bits(x)


def unbits(n):
    return common.bits_f64(n)


# --------------------------------------------------------------------------
# running the implementation

def option_value(case):
    '''the ignore_empty option as the boolean-like object the case asks for: bool, np.bool_
    (what np.any(...) returns), 0/1, np.int64 0/1 -- all must behave as bool(value)'''
    val = bool(case['ignore_empty'])
    typ = case.get('ie_type', 'bool')
    if typ == 'np_bool':
        return np.True_ if val else np.False_
    if typ == 'np_any':
        return np.any(np.array([val, False]))
    if typ == 'int':
        return int(val)
    if typ == 'np_int':
        return np.int64(val)
    return val


IE_TYPES = ['np_bool', 'np_any', 'int', 'np_int']


def run_impl(case, sets=None, alpha=None):
    from valjean.eponine.dataset import Dataset
    from valjean.gavroche.stat_tests.chi2 import TestChi2
    shape = tuple(case['shape'])

    lay = case.get('layouts') or []          # presentation only: memory layouts [values, errors] per dataset,
    dty = case.get('dtypes') or []           # integer dtypes, masks given to Dataset.mask()
    msk = case.get('masks') or [] if sets is None else []
    try:
        with np.errstate(all='ignore'):
            import warnings
            with warnings.catch_warnings():
                warnings.simplefilter('ignore')
                dsets = [layouts.make_dataset(Dataset, shape, [unbits(b) for b in v], [unbits(b) for b in e],
                                              lay[k] if k < len(lay) else ('C', 'C'),
                                              dty[k] if k < len(dty) else None, msk[k] if k < len(msk) else None)
                         for k, (v, e) in enumerate(sets if sets is not None else case['datasets'])]
                test = TestChi2(*dsets, name='chi2',
                                alpha=layouts.scalar(case['alpha'] if alpha is None else alpha, case.get('alpha_type')),
                                ignore_empty=option_value(case))
                res = test.evaluate()
                ndat = len(dsets) - 1
                if len(res.chi2) != ndat or len(res.test.ndf) != ndat or len(res.pvalue) != ndat:
                    return {'malformed': f'{len(res.chi2)} statistics, {len(res.test.ndf)} ndf, '
                                         f'{len(res.pvalue)} p-values for {ndat} compared datasets'}
                def canon(r):
                    return {'verdict': bool(r),
                            'chi2': [bits(np.ma.filled(x, NAN)) for x in r.chi2],
                            'ndf': [int(x) for x in r.test.ndf],
                            'p': [bits(np.ma.filled(x, NAN)) for x in r.pvalue]}
                obs = canon(res)
                import copy
                import pickle
                obs['reeval_same'] = (canon(test.evaluate()) == obs and canon(res) == obs
                                      and canon(pickle.loads(pickle.dumps(res))) == obs
                                      and canon(copy.deepcopy(test).evaluate()) == obs
                                      and canon(pickle.loads(pickle.dumps(test)).evaluate()) == obs)
                return obs
    except Exception as exc:  # noqa
        return {'raise': type(exc).__name__}


# --------------------------------------------------------------------------
# ground truth

def expected(case, d):
    '''(chi2, ndf) of compared dataset d from the property text: sum over the used bins of
    (v1-v2)^2 / (e1^2+e2^2); used = all bins, or those where not both errors are zero'''
    v1, e1 = [np.array([unbits(b) for b in x]) for x in case['datasets'][0]]
    v2, e2 = [np.array([unbits(b) for b in x]) for x in case['datasets'][d + 1]]
    with np.errstate(all='ignore'):
        if case['ignore_empty']:
            used = ~((e1 == 0) & (e2 == 0))
        else:
            used = np.ones(len(v1), dtype=bool)
        msk = case.get('masks') or []
        masked_mode = any(m is not None for m in msk)
        if masked_mode:                      # bins masked on either side are not summed
            get = lambda k: np.array(msk[k], dtype=bool) if k < len(msk) and msk[k] is not None \
                else np.zeros(len(v1), dtype=bool)
            summed = used & ~(get(0) | get(d + 1))
        else:
            summed = used
        dlt = v1 - v2
        sums = []
        for quad in (np.sqrt(e1 * e1 + e2 * e2),
                     np.where(np.isnan(e1) | np.isnan(e2), NAN, np.hypot(e1, e2))):   # no spurious under/overflow
            pull = dlt / quad
            if masked_mode:                  # numpy's masked arithmetic also drops non-finite results
                summed = summed & np.isfinite(pull) & np.isfinite(pull * pull)
            terms = (pull * pull)[summed]
            if len(terms) and not np.isfinite(terms).all():
                sums.append(float(np.sum(terms)))
            else:
                sums.append(math.fsum(terms))
        alt = (dlt * dlt / (e1 * e1 + e2 * e2))[summed]
        mags = np.abs(np.concatenate([e1, e2, dlt]))
        mags = mags[(mags > 0) & np.isfinite(mags)]
        plain = bool(len(mags) == 0 or (mags.min() > 1e-150 and mags.max() < 1e150))   # no square under/overflows
    if masked_mode and not summed.any():
        sums = [None, None]                  # nothing is summed: the statistic is undefined
    ndfs = {int(used.sum())} | ({int((used & ~(get(0) | get(d + 1))).sum())} if masked_mode else set())
    return (sums[0], sums[1], ndfs,
            (math.fsum(alt) if plain and len(alt) and np.isfinite(alt).all() else None))


def model_comparable(case, nd):
    '''sqrt(e1^2+e2^2) and an overflow-free quadratic sum give the same statistic'''
    for d in range(nd):
        a, b, _, _ = expected(case, d)
        if a is None or not rel_close(a, b, 1e-13):
            return False
    return not case.get('masks')


def expected_p(chi2, ndf):
    from scipy import special
    if chi2 != chi2 or ndf == 0:
        return NAN
    return float(special.chdtrc(ndf, chi2))


def rel_close(a, b, rtol):
    if a != a or b != b:
        return a != a and b != b
    if a == b:
        return True
    if math.isinf(a) or math.isinf(b):
        return False
    return abs(a - b) <= rtol * max(abs(a), abs(b))


def oracle(ctx, case, obs):
    tag = f' :: {json.dumps(case)[:700]}'
    if 'raise' in obs:
        ctx.oracle_failure('chi-square test raises ' + obs['raise'] + tag, case, key='raises')
        return False
    if 'malformed' in obs:
        ctx.oracle_failure('result not reported per compared dataset: ' + obs['malformed'] + tag, case,
                           key='malformed')
        return False
    if not obs.get('reeval_same', True):
        ctx.oracle_failure('evaluating the same chi-square test twice, or a pickled / deep-copied test or result, gives different results' + tag, case,
                           key='reevaluation')
        return False
    alpha = case['alpha']
    near = False
    all_exp = True
    for d in range(len(obs['chi2'])):
        chi2 = unbits(obs['chi2'][d])
        p = unbits(obs['p'][d])
        chi2_exp, chi2_hyp, ndf_exp, alt = expected(case, d)
        if obs['ndf'][d] not in ndf_exp:
            ctx.oracle_failure(f'dataset {d}: ndf = {obs["ndf"][d]}, number of used bins = {sorted(ndf_exp)}'
                               + tag, case, key='ndf')
            return False
        ndf_exp = obs['ndf'][d]
        if chi2_exp is None:
            near = True
            continue                      # masked datasets with no bin left to sum: nothing to decide
        if not rel_close(chi2, chi2_exp, 1e-11) and rel_close(chi2, chi2_hyp, 1e-11):
            chi2_exp = chi2_hyp           # a quadratic sum without spurious under/overflow is as good
        if not rel_close(chi2, chi2_exp, 1e-11):
            ctx.oracle_failure(f'dataset {d}: chi2 = {chi2!r}, sum of the squared pulls over the used bins = '
                               f'{chi2_exp!r}' + tag, case, key='chi2')
            return False
        if alt is not None and math.isfinite(chi2) and not rel_close(chi2, alt, 1e-9):
            ctx.oracle_failure(f'dataset {d}: chi2 = {chi2!r}, sum of (v1-v2)^2/(e1^2+e2^2) = {alt!r}' + tag,
                               case, key='chi2-formula')
            return False
        p_exp = expected_p(chi2_exp, ndf_exp)
        if not (rel_close(p, p_exp, 1e-7) or (p == p and p_exp == p_exp and abs(p - p_exp) < 1e-300)):
            ctx.oracle_failure(f'dataset {d}: p-value {p!r}, upper tail of the chi-square law ({ndf_exp} dof) at '
                               f'{chi2_exp!r} is {p_exp!r}' + tag, case, key='pvalue')
            return False
        if chi2 != chi2 and not case['ignore_empty'] and obs['verdict']:
            ctx.oracle_failure(f'dataset {d}: no bin left out, statistic undefined, verdict True' + tag, case,
                               key='nan-passes')
            return False
        near = near or (p_exp == p_exp and abs(p_exp - alpha) <= 1e-6 * alpha)
        all_exp = all_exp and (p_exp > alpha)
    exact = all(unbits(b) > alpha for b in obs['p'])          # the code's own probabilities
    if obs['verdict'] != exact:
        ctx.oracle_failure(f'verdict {obs["verdict"]} but "every probability exceeds alpha" is {exact} '
                           f'(p = {[unbits(b) for b in obs["p"]]}, alpha = {alpha!r})' + tag, case, key='verdict')
        return False
    if not near and obs['verdict'] != all_exp:
        ctx.oracle_failure(f'verdict {obs["verdict"]} but the chi-square law gives {all_exp}' + tag, case,
                           key='verdict-law')
        return False
    return True


def obs_close(a, b, alpha):
    '''two observations of the same numbers (the sum may be taken in another memory order)'''
    if 'chi2' not in a or 'chi2' not in b or a['ndf'] != b['ndf']:
        return False
    if not all(rel_close(unbits(x), unbits(y), 1e-12) for x, y in zip(a['chi2'], b['chi2'])):
        return False
    if not all(rel_close(unbits(x), unbits(y), 1e-9) or abs(unbits(x) - unbits(y)) < 1e-300
               for x, y in zip(a['p'], b['p'])):
        return False
    near = any(abs(unbits(x) - alpha) <= 1e-9 * alpha for x in a['p'] if unbits(x) == unbits(x))
    return near or a['verdict'] == b['verdict']


def inplace_history(ctx, case, obs):
    '''evaluate; edit an input array IN PLACE (error scaled, one error set, zero errors filled in,
    values shifted, a write through the parent array of which the error is a slice); evaluate the
    same test again and a brand-new test on the same dataset objects: both must give what fresh
    datasets built from copies of the current numbers give'''
    from valjean.eponine.dataset import Dataset
    from valjean.gavroche.stat_tests.chi2 import TestChi2
    if not case['shape'] or case.get('masks') or case.get('dtypes'):
        return
    tag = f' :: {json.dumps(case)[:600]}'
    steps = []
    try:
        import warnings
        with np.errstate(all='ignore'), warnings.catch_warnings():
            warnings.simplefilter('ignore')
            dsets, parent, owner = layouts.writable_datasets(Dataset, case, unbits, ctx.rng)

            def canon(r):
                return {'verdict': bool(r), 'chi2': [bits(np.ma.filled(x, NAN)) for x in r.chi2],
                        'ndf': [int(x) for x in r.test.ndf], 'p': [bits(np.ma.filled(x, NAN)) for x in r.pvalue]}

            def new_test():
                return TestChi2(*dsets, name='chi2', alpha=case['alpha'], ignore_empty=option_value(case))
            test = new_test()
            if not obs_close(canon(test.evaluate()), obs, case['alpha']):
                ctx.oracle_failure('the same numbers on writable arrays give another result' + tag, case,
                                   key='inplace-first')
                return
            def used_pattern():
                return [np.logical_or(np.asarray(dsets[0].error) > 0, np.asarray(d.error) > 0).tolist()
                        for d in dsets[1:]]
            built_with = used_pattern()
            for _ in range(ctx.rng.choice([1, 2])):
                steps.append(layouts.edit_in_place(dsets, parent, owner, ctx.rng))
                ncase = dict(case, datasets=layouts.current_numbers(dsets, bits))
                fresh = run_impl(ncase)
                routes = [('a new test on the same datasets', canon(new_test().evaluate()))]
                if not case['ignore_empty'] or used_pattern() == built_with:
                    # (a TestChi2 computes its mask of used bins and ndf when it is constructed: a test
                    # built before an edit that changes WHICH bins are empty keeps the old mask)
                    routes.append(('the same test evaluated again', canon(test.evaluate())))
                for what, got in routes:
                    if not obs_close(got, fresh, case['alpha']):
                        ctx.oracle_failure(
                            f'after the in-place edits {steps}, {what} gives chi2 '
                            f'{[unbits(b) for b in got["chi2"]]}, ndf {got["ndf"]}; fresh datasets with the '
                            f'current numbers give {[unbits(b) for b in fresh.get("chi2", [])]}, '
                            f'{fresh.get("ndf")}' + tag, dict(ncase, before=case['datasets'], edits=steps),
                            key='inplace-edit')
                        return
    except Exception as exc:  # noqa
        ctx.oracle_failure(f'in-place history {steps} raises {type(exc).__name__}' + tag, case,
                           key='inplace-raises')


def permuted(ctx, case, obs):
    '''the statistic does not depend on the order of the bins'''
    size = len(case['datasets'][0][0])
    if size < 2:
        return
    perm = list(range(size))
    ctx.rng.shuffle(perm)
    sets = [[[v[i] for i in perm], [e[i] for i in perm]] for v, e in case['datasets']]
    new = run_impl(case, sets)
    tag = f' :: {json.dumps(case)[:700]}'
    if 'chi2' not in new:
        ctx.oracle_failure('permuted comparison raises / is malformed' + tag, case, key='permutation')
        return
    same = new['ndf'] == obs['ndf'] and all(rel_close(unbits(a), unbits(b), 1e-11)
                                            for a, b in zip(new['chi2'], obs['chi2']))
    near = any(abs(unbits(b) - case['alpha']) <= 1e-6 * case['alpha'] for b in obs['p'] if unbits(b) == unbits(b))
    if not same or (not near and new['verdict'] != obs['verdict']):
        ctx.oracle_failure(f'statistic / ndf / verdict change when the bins are permuted ({perm}): '
                           f'{[unbits(b) for b in obs["chi2"]]} {obs["ndf"]} -> '
                           f'{[unbits(b) for b in new["chi2"]]} {new["ndf"]}' + tag, case, key='permutation')


# --------------------------------------------------------------------------
# generation

def gen_case(rng, quick):
    nd = rng.choice([0, 1, 1, 1, 2, 2, 3])
    if nd == 0:
        shape = []
    else:
        shape = [rng.choice([1, 2, 3, 4]) for _ in range(nd)]
        if rng.random() < 0.25:
            shape[rng.randrange(nd)] = rng.randint(5, 12 if quick else 60)
    size = int(np.prod(shape)) if shape else 1
    ndat = rng.choice([1, 1, 1, 2, 3])
    ie = rng.random() < 0.55
    special = (not ie) and rng.random() < 0.3      # NaN / inf only when the option is off
    scale = 10.0 ** rng.randint(-40, 40) if rng.random() < 0.2 else 1.0
    escale = None                       # errors on another scale than the values
    r = rng.random()
    if r < 0.07:
        scale = 10.0 ** rng.randint(-200, -160)       # squares underflow
    elif r < 0.10:
        scale = 10.0 ** rng.randint(-321, -308)       # subnormal
    elif r < 0.17:
        scale = 10.0 ** rng.randint(150, 304)         # squares overflow
    elif r < 0.22:
        escale = 10.0 ** rng.choice([rng.randint(-320, -160), rng.randint(150, 300)])
    sig = rng.choice([0.5, 1.0, 1.0, 1.5, 2.5])
    zero_rate = rng.choice([0.0, 0.1, 0.3, 0.6, 1.0]) if rng.random() < 0.7 else 0.0

    def err(ref_zero=None):
        q = rng.random()
        if ref_zero is True and q < 0.7 * (zero_rate > 0):
            return 0.0                         # both errors zero: an empty bin
        if q < zero_rate * 0.6:
            return 0.0
        if special and q > 0.95:
            return rng.choice([NAN, INF])
        return round(rng.uniform(0.05, 1.0), 3) * (escale or scale)

    def val(mu):
        if special and rng.random() < 0.06:
            return rng.choice([NAN, INF, -INF])
        return mu
    mus = [round(rng.uniform(-1, 1), 3) * 10 * scale for _ in range(size)]
    ref_e = [err() for _ in range(size)]
    ref_v = [val(mu) for mu in mus]
    sets = [[ref_v, ref_e]]
    for _ in range(ndat):
        es = [err(ref_e[i] == 0) for i in range(size)]
        vs = []
        for i in range(size):
            if rng.random() < 0.1:
                vs.append(ref_v[i])
            else:
                a = ref_e[i] if math.isfinite(ref_e[i]) else scale
                b = es[i] if math.isfinite(es[i]) else scale
                vs.append(val(mus[i] + rng.gauss(0, sig) * (math.hypot(a, b) or scale)))
        sets.append([vs, es])
    const_err = rng.random() < 0.08
    if const_err:
        for vs, es in sets:
            es[:] = [es[0]] * size
    alpha = rng.choice(ALPHAS) if rng.random() < 0.8 else round(rng.uniform(0.0005, 0.999), 4)
    lay = [[layouts.pick(rng, shape), 'B' if const_err and rng.random() < 0.7 else layouts.pick(rng, shape)]
           for _ in sets]
    if rng.random() < 0.3:              # every array of the case in the same layout
        kind = layouts.pick(rng, shape, plain=0.0)
        lay = [[kind, kind] for _ in sets]
    return {'shape': shape, 'alpha': alpha, 'ignore_empty': ie, 'layouts': lay,
            'datasets': [[[bits(x) for x in v], [bits(x) for x in e]] for v, e in sets]}


def gen_int_case(rng, quick):
    '''integer-valued data (counts) with integer dtypes: all values int, or mixed with float datasets;
    errors int (incl. unsigned) or float; 0-d cases as numpy or Python ints'''
    nd = rng.choice([0, 1, 1, 2, 3])
    shape = [rng.choice([1, 2, 3, 4, 6]) for _ in range(nd)]
    size = int(np.prod(shape)) if shape else 1
    ndat = rng.choice([1, 1, 2, 3])
    mult = rng.choice([1, 1, 10, 1000])
    ie = rng.random() < 0.5
    ref_v = [float(rng.randint(0, 100) * mult) for _ in range(size)]
    all_int = rng.random() < 0.65
    sets, dts = [], []
    for k in range(ndat + 1):
        int_err = rng.random() < 0.5
        es = [float(0 if rng.random() < (0.25 if ie else 0.0) else rng.randint(1, 9) * mult) if int_err
              else round(rng.uniform(0.5, 9.0), 2) * mult for _ in range(size)]
        vs = ref_v if k == 0 else [v if rng.random() < 0.15 else v + float(rng.randint(-20, 20) * mult)
                                   for v in ref_v]
        int_val = all_int or rng.random() < 0.5
        if not int_val:
            vs = [v + round(rng.uniform(-0.5, 0.5), 2) for v in vs]
        scal = (not shape) and rng.random() < 0.5
        dts.append(['pyint' if scal else rng.choice(layouts.INT_VALUE_DTYPES) if int_val else 'float64',
                    ('pyint' if scal else rng.choice(layouts.INT_ERROR_DTYPES)) if int_err else 'float64'])
        sets.append([vs, es])
    return {'shape': shape, 'alpha': rng.choice(ALPHAS), 'ignore_empty': ie, 'dtypes': dts,
            'layouts': [[layouts.pick(rng, shape), layouts.pick(rng, shape)] for _ in sets],
            'datasets': [[[bits(x) for x in v], [bits(x) for x in e]] for v, e in sets]}


def add_masks(rng, case):
    '''reference and / or compared datasets through Dataset.mask(): no, some or all bins'''
    size = len(case['datasets'][0][0])

    def pattern():
        q = rng.random()
        return [0] * size if q < 0.2 else [1] * size if q < 0.3 else [int(rng.random() < 0.3) for _ in range(size)]
    who = rng.choice(['ref', 'cmp', 'both'])
    return dict(case, masks=[pattern() if (who == 'both' or (k == 0) == (who == 'ref')) else None
                             for k in range(len(case['datasets']))])


def plain_numbers(case):
    flat = [unbits(b) for v, e in case['datasets'] for b in v + e]
    return bool(case['shape']) and all(math.isfinite(x) and (x == 0 or 1e-100 < abs(x) < 1e100) for x in flat)


def special_pair_cases():
    '''option off: three ordinary bins + one bin with every combination of (inf, nan, 0, finite)
    errors and representative value pairs across the two sides'''
    out = []
    for e1 in (INF, NAN, 0.0, 0.5):
        for e2 in (INF, NAN, 0.0, 0.5):
            for v1, v2 in ((1.5, 1.5), (1.5, 0.0), (INF, 1.5), (NAN, 1.5), (INF, INF), (1.5, NAN)):
                out.append(mk([2, 2], 0.05, False, ([5.2, 5.3, v1, 5.4], [0.2, 0.25, e1, 0.2]),
                              ([5.1, 5.6, v2, 5.3], [0.1, 0.3, e2, 0.4])))
    return out


def magnitude_cases():
    '''tiny / subnormal / huge errors and differences with both option values: a bin is used
    as soon as one of its errors is non-zero, whatever its square does'''
    out = []
    for ie in (True, False):
        for tiny in (1e-170, 1e-200, 3e-310, 5e-324, 1e160, 1e300):
            out.append(mk([4], 0.05, ie, ([1., 2., 3., 4.], [tiny, 0., 0.1, 0.]),
                          ([1., 2., 3.1, 4.], [0., tiny, 0.1, 0.])))
            out.append(mk([3], 0.05, ie, ([tiny, 2 * tiny, 0.], [tiny, tiny / 2, 0.]),
                          ([2 * tiny, tiny, 0.], [tiny, 0., 0.])))
    return out


def mk(shape, alpha, ie, *sets):
    return {'shape': shape, 'alpha': alpha, 'ignore_empty': ie,
            'datasets': [[[bits(x) for x in v], [bits(x) for x in e]] for v, e in sets]}


def corpus():
    return [
        mk([5], 0.01, False, ([5.2, 5.3, 5.25, 5.4, 5.5], [0.2, 0.25, 0.1, 0.2, 0.3]),
           ([5.1, 5.6, 5.2, 5.3, 5.2], [0.1, 0.3, 0.05, 0.4, 0.3])),
        mk([5], 0.01, True, ([0., 5.3, 0., 5.4, 5.5], [0., 0.25, 0., 0.2, 0.3]),
           ([0., 5.6, 0.1, 5.3, 5.2], [0., 0.3, 0., 0.4, 0.3])),
        mk([5], 0.01, False, ([0., 5.3, 0., 5.4, 5.5], [0., 0.25, 0., 0.2, 0.3]),
           ([0., 5.6, 0.1, 5.3, 5.2], [0., 0.3, 0., 0.4, 0.3])),
        mk([3], 0.05, True, ([1., 2., 3.], [0., 0., 0.]), ([1., 2., 3.], [0., 0., 0.])),   # every bin left out
        mk([3], 0.05, True, ([1., 2., 3.], [0., 0.1, 0.]), ([1., 2., 3.], [0.2, 0., 0.])),  # one error zero
        mk([3], 0.05, False, ([1., NAN, 3.], [.1, .1, .1]), ([1., 2., 3.], [.1, .1, .1])),
        mk([2], 0.05, False, ([1., INF], [.1, .1]), ([1., INF], [.1, .1])),
        mk([], 0.05, False, ([5.3], [0.2]), ([5.25], [0.08])),
        mk([], 0.05, True, ([5.3], [0.0]), ([5.3], [0.0])),
        mk([2, 2], 0.5, True, ([1., 2., 3., 4.], [.1, 0., .1, 0.]), ([1.1, 2., 2.9, 4.5], [.1, 0., 0., 0.]),
           ([1., 2., 3., 4.], [.1, .1, .1, .1])),
    ]


def boundary_cases(rng, cases):
    '''alpha := the p-value of one of the compared datasets exactly (verdict must be False)'''
    out = []
    for case in cases:
        obs = run_impl(case)
        ps = [unbits(b) for b in obs.get('p', [])]
        ps = [q for q in ps if 0 < q < 1]
        if ps:
            q = rng.choice(ps)
            out.append(dict(case, alpha=q))
            out.append(dict(case, alpha=math.nextafter(q, rng.choice([0.0, 1.0]))))
    return out


# --------------------------------------------------------------------------
# model side

def coq_bins(v, e):
    return clist(['(' + cz(a) + ', ' + cz(b) + ')' for a, b in zip(v, e)])


def coq_case(case, obs):
    ref = case['datasets'][0]
    dsets = ['(' + coq_bins(v, e) + ', mk_obs ' + cz(obs['chi2'][d]) + ' ' + cn(obs['ndf'][d]) + ' '
             + cz(obs['p'][d]) + ')' for d, (v, e) in enumerate(case['datasets'][1:])]
    return ('(' + cb(case['ignore_empty']) + ', ' + cz(bits(case['alpha'])) + ', ' + coq_bins(*ref) + ', '
            + clist(dsets) + ', ' + cb(obs['verdict']) + ')')


def classify(ctx, case, obs):
    ctx.count('ndim_%d' % len(case['shape']))
    ctx.count('ignore_empty_%s' % case['ignore_empty'])
    for kinds in case.get('layouts') or []:
        for k in kinds:
            ctx.count('layout_' + k)
    mags = [abs(unbits(b)) for v, e in case['datasets'] for b in v + e]
    mags = [x for x in mags if x > 0 and math.isfinite(x)]
    if mags and min(mags) < 1e-150:
        ctx.count('cases_with_tiny_magnitudes')
    if mags and max(mags) > 1e150:
        ctx.count('cases_with_huge_magnitudes')
    ctx.count('compared_datasets', len(case['datasets']) - 1)
    size = len(case['datasets'][0][0])
    ctx.count('bins', size * (len(case['datasets']) - 1))
    flat = [unbits(b) for v, e in case['datasets'] for b in v + e]
    if any(x != x or math.isinf(x) for x in flat):
        ctx.count('cases_with_nan_or_inf')
    if 'ndf' not in obs:
        return False
    left_out = sum(size - n for n in obs['ndf'])
    ctx.count('bins_left_out', left_out)
    if left_out:
        ctx.count('cases_with_bins_left_out')
    ctx.count('verdict_%s' % obs['verdict'])
    return size > 1 and all(0 < n for n in obs['ndf']) and (left_out > 0 or not case['ignore_empty'])


def run(ctx):
    common.import_repo()
    quick = ctx.tier == 'quick'
    ctx.rule = ('corpus (docstring-like examples, all bins empty, one-sided zero errors, NaN/inf, scalars) + random '
                'comparisons: scalar to 3-d, 1..3 compared datasets, both option values, zero-error patterns at rates '
                '0..100% (correlated between the two datasets so that empty bins occur), NaN/inf only with the option '
                'off, magnitudes 1e-321..1e304 (tiny, subnormal and huge errors/differences whose squares under/overflow, 22% of the cases), every combination of inf/NaN/0/finite errors across the two sides, arrays handed over in 7 memory layouts, 14% integer-valued data with int64/int32/uint/Python-int dtypes (all-int or mixed with float datasets), 12% datasets masked through Dataset.mask(), the ignore_empty option handed over as np.bool_ / np.any(...) result / 0-1 int / np.int64 in 40% of the cases and for every corpus case (must behave as bool(value)); every test evaluated twice; on 40% of the cases an input array is edited IN PLACE between two evaluations (error scaled / one item set / zeros filled / values shifted / write through the parent of a sliced error array) and the same test and a new test must give what fresh datasets with the current numbers give + boundary cases alpha == p-value exactly (and its float neighbours); each '
                'case re-run with permuted bins; non-trivial = more than one bin, ndf > 0, and bins left out when the '
                'option is on')
    cases = corpus()
    ctx.count('corpus', len(cases))
    extra = special_pair_cases()
    ctx.count('special_pair_cases', len(extra))
    cases += extra
    extra = [dict(c, ie_type=IE_TYPES[k % len(IE_TYPES)])
             for k, c in enumerate(c for c in corpus() + magnitude_cases())]     # same cases, option not a bool
    ctx.count('boolean_like_option_corpus_cases', len(extra))
    cases += extra
    extra = magnitude_cases()
    ctx.count('magnitude_corpus_cases', len(extra))
    cases += extra
    nrand = 650 if quick else 16000
    rand = []
    for _ in range(nrand):
        q = ctx.rng.random()
        case = gen_int_case(ctx.rng, quick) if q < 0.14 else gen_case(ctx.rng, quick)
        if 0.14 <= q < 0.28 and plain_numbers(case):
            case = add_masks(ctx.rng, case)
        if ctx.rng.random() < 0.4:                  # the option as a boolean-like object that is not a bool
            case = dict(case, ie_type=ctx.rng.choice(IE_TYPES))
        if ctx.rng.random() < 0.3:                  # alpha as a NumPy number
            atyp = ctx.rng.choice(layouts.ALPHA_TYPES[1:])
            case = dict(case, alpha_type=atyp,
                        alpha=float(np.float32(case['alpha'])) if atyp == 'float32' else case['alpha'])
        rand.append(case)
    counts = mk([2, 3], 0.05, False, ([52, 53, 52, 54, 55, 90], [2, 3, 1, 2, 3, 1]),
                ([51, 59, 58, 53, 45, 10], [1, 1, 2, 4, 1, 1]))
    cases += [dict(counts, dtypes=[['int64', 'int64'], ['int64', 'int64']]),
              dict(counts, dtypes=[['int32', 'uint32'], ['int64', 'float64']]),
              dict(counts, dtypes=[['int64', 'int64'], ['float64', 'float64']]),
              dict(mk([], 0.05, False, ([7], [2]), ([12], [1])), dtypes=[['pyint', 'pyint'], ['pyint', 'pyint']]),
              dict(counts, masks=[[0, 1, 0, 0, 0, 1], None]), dict(counts, masks=[None, [1] * 6]),
              dict(counts, masks=[[0] * 6, [0, 0, 1, 0, 0, 0]], ignore_empty=True)]
    bnd = boundary_cases(ctx.rng, cases + rand[:60 if quick else 1500])
    ctx.count('boundary_alpha_eq_p', len(bnd))
    cases = cases + bnd + rand
    done = []
    t_start = time.time()
    for case in cases:
        obs = run_impl(case)
        if oracle(ctx, case, obs) and not case.get('masks'):
            permuted(ctx, case, obs)
            if ctx.rng.random() < 0.4:
                inplace_history(ctx, case, obs)
                ctx.count('inplace_edit_histories')
        if case.get('masks'):
            ctx.count('masked_cases')
        if case.get('dtypes'):
            ctx.count('integer_dtype_cases')
        if case.get('alpha_type'):
            ctx.count('alpha_type_' + case['alpha_type'])
        if case.get('ie_type'):
            ctx.count(f"option_{case['ie_type']}_{bool(case['ignore_empty'])}")
        nontrivial = classify(ctx, case, obs)
        ctx.case_seen(case, nontrivial, sample_every=499)
        if 'raise' in obs:
            ctx.count('raise_' + obs['raise'])
        elif 'malformed' in obs:
            ctx.count('malformed')
        elif not model_comparable(case, len(obs['chi2'])):
            ctx.count('extreme_scale_not_sent_to_model')   # sqrt(e1^2+e2^2) vs overflow-free sum differ
        else:
            done.append((case, obs))
    ctx.extra['impl_and_oracle_s'] = round(time.time() - t_start, 1)
    nshard = max(16, len(done) // 200)
    shards = [[] for _ in range(nshard)]
    load = [0] * nshard
    for item in sorted(done, key=lambda co: -len(co[0]['datasets'][0][0]) * (len(co[0]['datasets']) - 1)):
        k = load.index(min(load))
        shards[k].append(item)
        load[k] += len(item[0]['datasets'][0][0]) * (len(item[0]['datasets']) - 1) + 1
    shards = [s for s in shards if s]
    bodies = ['Definition cases : list (bool * Z * list zbin * list (list zbin * obs) * bool) :=\n '
              + clist([coq_case(c, o) for c, o in chunk]).replace('); (', ');\n (')
              + '.\nEval vm_compute in bad_indices (map check_case cases).' for chunk in shards]
    t_start = time.time()
    outs = common.coq_eval(ctx.pid, IMPORTS, bodies)
    ctx.extra['model_eval_s'] = round(time.time() - t_start, 1)
    for chunk, out in zip(shards, outs):
        for i in common.parse_nat_list(out):
            case, obs = chunk[i]
            ctx.mismatch('statistic (within 2^-40), ndf or verdict of the model differ from the implementation: '
                         + json.dumps(obs)[:400], {'case': case, 'obs': obs})
    ctx.extra['model_cases_compared'] = len(done)
    ctx.assumptions = ['numpy elementwise arithmetic + math.fsum are the ground truth for the statistic',
                       'scipy.special.chdtrc is the ground truth for the upper-tail probability',
                       'the model is fed the implementation\'s own p-values (scipy is external)']


def replay(ctx, path):
    common.import_repo()
    data = json.load(open(path))
    case = data['case'].get('case', data['case'])
    obs = run_impl(case)
    print('case:', json.dumps(case))
    for k, (v, e) in enumerate(case['datasets']):
        print(f'  dataset {k}: values', [unbits(b) for b in v], 'errors', [unbits(b) for b in e])
    print('impl:', json.dumps(obs))
    if 'chi2' in obs:
        print('  chi2', [unbits(b) for b in obs['chi2']], 'ndf', obs['ndf'], 'p', [unbits(b) for b in obs['p']])
        ref = case['datasets'][0]
        body = ('Eval vm_compute in (check_case ' + coq_case(case, obs) + ', '
                + clist(['(to_bits (chi2_stat ' + cb(case['ignore_empty']) + ' (zip_bins ' + coq_bins(*ref) + ' '
                         + coq_bins(v, e) + ')), ndf ' + cb(case['ignore_empty']) + ' (zip_bins ' + coq_bins(*ref)
                         + ' ' + coq_bins(v, e) + '))' for v, e in case['datasets'][1:]]) + ').')
        print('model (agrees, [(chi2 bits, ndf)]):', common.coq_eval(ctx.pid, IMPORTS, [body])[0])
    if oracle(ctx, case, obs):
        permuted(ctx, case, obs)
    for v in ctx.violations:
        print('oracle:', v[1][:400])
    return 0

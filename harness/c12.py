'''C12: failure marks in rendered reports.

Implementation (valjean.javert table_repr / representation / rst / templates)
vs the Coq models C12/Model.v (abstract templates, TableTemplate slicing and
joining) and C12/Rst.v (format_columns / tabularize / reader), plus the
property oracle: docutils parses the text produced by Rst.format_result /
RstTable.__str__, a mark is present iff bool(result) is False, the highlighted
rows are exactly the failing bins with their values, errors and bin labels, the
cells read back as the formatted inputs, also after slicing / joining.'''
import io
import itertools
import json
import multiprocessing
import os
from collections import OrderedDict, defaultdict

import numpy as np

from vp import common
from vp.common import cn, cb, cz, clist, copt

IMPORTS = '''From Coq Require Import List ZArith NArith Bool.
From VV Require Import Lib.Base C12.Model C12.Rst C12.Check.
Import ListNotations.
'''

VERBS = ['SILENT', 'SUMMARY', 'DEFAULT', 'INTERMEDIATE', 'FULL_DETAILS', 'DEVELOPMENT']
COQ_VERB = ['Silent', 'Summary', 'Default', 'Intermediate', 'FullDetails', 'Development']
REPS = ['Table', 'FullTable', 'Full']
COQ_REP = {'Table': 'RepTable', 'FullTable': 'RepFullTable', 'Full': 'RepFull'}
DATA_KINDS = ('equal', 'approx', 'student')
CORR_KINDS = ('bonf', 'holm')
LITERALS = {'Metadata:': 0, 'OK': 1, 'Failed metadata:': 2, 'total': 3}
NBSP = ' '
KNOWN_CORR = 'passing-correction-shows-first-test-marks'


# --------------------------------------------------------------------------
# independent transcriptions used by the oracle and to build the abstract
# results (never call table_repr / rst for these)

def fmt(x):
    '''the formatted input of a table cell, as RstTable documents it: numeric data of an inexact
    type (Python float / complex, every numpy floating or complex type: float16, float32, float64,
    longdouble, complex64, ...) goes through the number format '{:11.6g}'; anything else (integers
    of every width, booleans, strings) is stringified with str'''
    if isinstance(x, (float, complex, np.inexact)):
        return '{:11.6g}'.format(x)
    return str(x)


def flat(a):
    return list(np.asarray(a).reshape(-1))


def percent(num, den):
    if den != 0:
        return f'{num:d}/{den:d}{NBSP}({100.0 * num / den:.1f}%)'
    return f'{num:d}/{den:d}{NBSP}(???%)'


def label_columns(ds):
    '''one column of bin labels per dimension with at least two bins'''
    shape = ds.value.shape
    out = []
    if not ds.bins:
        return out
    for k, (_dim, bins) in enumerate(ds.bins.items()):
        if shape[k] < 2:
            continue
        if len(bins) == shape[k] + 1:
            labs = [f'{a:.4g} - {b:.4g}' for a, b in zip(bins[:-1], bins[1:])]
        else:
            labs = [f'{a:.4g}' for a in bins]
        col = []
        for i in range(int(np.prod(shape))):
            col.append(labs[np.unravel_index(i, shape)[k]])
        out.append(col)
    return out


# --------------------------------------------------------------------------
# building real result objects from a JSON case

LAYOUTS = 'CFTSNB'


def relayout(arr, mode):
    '''the same logical array in another memory layout: C, Fortran order, Transposed view of a
    C array, Strided view into a larger buffer, Negative strides, read-only Broadcast (zero strides;
    when the elements are not all equal: a read-only copy)'''
    arr = np.asarray(arr)
    if arr.ndim == 0 or mode == 'C':
        return arr
    if mode == 'F':
        return np.asfortranarray(arr)
    if mode == 'T':
        return np.ascontiguousarray(arr.T).T
    if mode == 'S':
        big = np.zeros(tuple(2 * n + 1 for n in arr.shape), dtype=arr.dtype)
        view = big[tuple(slice(1, None, 2) for _ in arr.shape)]
        view[...] = arr
        return view
    if mode == 'N':
        rev = tuple(slice(None, None, -1) for _ in arr.shape)
        return np.ascontiguousarray(arr[rev])[rev]
    first = arr.reshape(-1)[0]
    if arr.size and bool(np.all(arr == first)):
        return np.broadcast_to(np.array(first, dtype=arr.dtype), arr.shape)
    out = np.array(arr, order='F')
    out.setflags(write=False)
    return out


class Lay:
    '''hands out the layout codes of a case, cyclically'''
    def __init__(self, codes):
        self.codes = codes or 'C'
        self.pos = 0

    def __call__(self, arr):
        mode = self.codes[self.pos % len(self.codes)]
        self.pos += 1
        return relayout(arr, mode)


# integer dtypes that hold 7 digits or more: (fewest, most) digits of the values generated
BIG_DIGITS = {'i4': (7, 9), 'u4': (7, 9), 'i8': (7, 18)}
VALUE_DTYPES = ['f4', 'f2', 'g', 'f8', 'i1', 'i2', 'i4', 'i8', 'u1', 'u4', 'b1']
ERROR_DTYPES = ['f8', 'f4', 'f2', 'g']


def _dataset(shape, value, error, kinds, name, lay=None, dtypes=(None, None)):
    from valjean.eponine.dataset import Dataset
    lay = lay or Lay('C')
    vdt, edt = dtypes
    if shape == ():
        if vdt == 'py':        # Python scalars (the constructor converts them)
            return Dataset(float(value[0]), float(error[0]), name=name)
        return Dataset(np.dtype(vdt or 'f8').type(value[0]), np.dtype(edt or 'f8').type(error[0]), name=name)
    if vdt == 'py':
        vdt = None
    bins = OrderedDict()
    for k, (n, kind) in enumerate(zip(shape, kinds)):
        if kind == 'e':
            bins[f'x{k}'] = np.arange(n + 1, dtype=float) * (k + 1)
        else:
            bins[f'x{k}'] = np.arange(n, dtype=float) * (k + 1) + 0.5
    return Dataset(lay(np.array(value).astype(vdt or 'f8').reshape(shape)),   # Python ints stay exact
                   lay(np.array(error, dtype=float).astype(edt or 'f8').reshape(shape)), bins=bins, name=name)


def relayout_result(kind, result, codes):
    '''the arrays a result object carries (oracles, t, p-values, rejections), in other layouts'''
    if not codes:
        return result
    lay = Lay(codes)
    def redo(seq):   # noqa: E306
        return [lay(a) if isinstance(a, np.ndarray) else a for a in seq]
    if kind == 'equal':
        result.equal = redo(result.equal)
    elif kind == 'approx':
        result.approx_equal = redo(result.approx_equal)
    elif kind == 'student':
        result.tstud = redo(result.tstud)
        result.pvalue = redo(result.pvalue)
    else:
        first = result.first_test_res
        first.tstud = redo(first.tstud)
        first.pvalue = redo(first.pvalue)
        result.rejected_null_hyp = redo(result.rejected_null_hyp)
        if kind == 'holm':
            result.alphas_i = redo(result.alphas_i)
    return result


def build_data_test(case, rot=0):
    '''the TestEqual / TestApproxEqual / TestStudent of a dataset case; the
    values are chosen so that bin i of dataset k fails iff case['fail'][k][i]'''
    from valjean.gavroche.test import TestEqual, TestApproxEqual
    from valjean.gavroche.stat_tests.student import TestStudent
    shape = tuple(case['shape'])
    nbin = int(np.prod(shape)) if shape else 1
    kinds = case.get('bins') or ['e'] * len(shape)
    kind = case['kind'] if case['kind'] in DATA_KINDS else 'student'
    vdt, edt = case.get('dtype'), case.get('edtype')
    integral = vdt is not None and vdt[0] in 'iub'
    if vdt == 'b1' and kind == 'student':
        vdt, integral = 'i1', True           # numpy has no boolean subtraction
    # values with a fractional part for the inexact types (so that the number format matters)
    base = int(case.get('base', 10))          # integer dtypes: values of up to 18 digits, exact
    if integral and kind == 'student':
        base = min(base, 10 ** 8)             # the statistic is computed in floating point
    refv = [(i % 2 if vdt == 'b1' else base + i) if integral else 10.0 + i + (1.0 / 30 if vdt else 0.0)
            for i in range(nbin)]
    refe = [0.5 + 0.25 * (i % 3) for i in range(nbin)]
    lay = Lay(case.get('lay'))
    if case.get('const_err'):
        refe = [0.5] * nbin
    ref = _dataset(shape, refv, refe, kinds, 'ref', lay, (vdt, edt))
    dsets = []
    for k, fails in enumerate(case['fail']):
        fails = fails[rot:] + fails[:rot]
        vals, errs = [], []
        for i in range(nbin):
            err = 0.75 + 0.125 * k if case.get('const_err') else 0.5 + 0.125 * ((i + k) % 4)
            if kind in ('equal', 'approx'):
                if vdt == 'b1':
                    vals.append(refv[i] != bool(fails[i]))
                elif integral:
                    vals.append(refv[i] + (1 + k if fails[i] else 0))      # differs in the low digits only
                else:
                    vals.append(refv[i] + (1.0 + k if fails[i] else 0.0))
            else:
                sig = (refe[i] ** 2 + err ** 2) ** 0.5
                lev = fails[i]
                # 0 passes, 1 fails clearly, 2 fails Student only (marginal), 3 NaN
                tval = {0: 0.25 * ((i + k) % 5), 1: 5.0 + k + (i % 3), 2: 3.0 + 0.02 * (i % 4)}.get(lev, 0.0)
                sign = -1.0 if (i + k) % 2 else 1.0
                if lev == 3 and integral:
                    lev, tval = 1, 6.0       # no NaN in an integer column
                val = float('nan') if lev == 3 else refv[i] + sign * tval * sig
                vals.append(int(round(val)) if integral else val)
            errs.append(err)
        dsets.append(_dataset(shape, vals, errs, kinds, f'ds{k}', lay, (vdt, edt)))
    name = case.get('name', 'the test')
    if kind == 'equal':
        return TestEqual(ref, *dsets, name=name)
    if kind == 'approx':
        return TestApproxEqual(ref, *dsets, name=name)
    return TestStudent(ref, *dsets, name=name, ndf=case.get('ndf'), alpha=0.01)


def build_result(case, rot=0):
    kind = case['kind']
    if kind in DATA_KINDS:
        return relayout_result(kind, build_data_test(case, rot).evaluate(), case.get('rlay'))
    if kind in CORR_KINDS:
        from valjean.gavroche.stat_tests.bonferroni import TestBonferroni, TestHolmBonferroni
        cls = TestBonferroni if kind == 'bonf' else TestHolmBonferroni
        return relayout_result(kind, cls(name='correction', test=build_data_test(case, rot),
                                         alpha=0.01).evaluate(), case.get('rlay'))
    if kind == 'meta':
        from valjean.gavroche.diagnostics.metadata import TestMetadata
        dmd = OrderedDict()
        for s, row in enumerate(case['values']):
            name = case['names'][s] if case.get('names') else f'sample{s}'
            dmd[name] = {f'key{k}': v for k, v in enumerate(row) if v is not None}
        return TestMetadata(dmd, name='md').evaluate()
    if kind in ('tasks', 'tests'):
        from valjean.cosette.task import TaskStatus
        from valjean.gavroche.diagnostics import stats
        enum = TaskStatus if kind == 'tasks' else stats.TestOutcome
        classify = defaultdict(list)
        for name, num in case['counts']:
            classify[enum[name]] = [stats.NameFingerprint(f'{name.lower()}{i}',
                                                          'f' * 8 + str(i) if kind == 'tests' else None)
                                    for i in range(num)]
        if kind == 'tasks':
            return stats.TestResultStatsTasks(
                test=stats.TestStatsTasks(name='st', task_results=[]), classify=classify)
        return stats.TestResultStatsTests(
            test=stats.TestStatsTests(name='st', task_results=[]), classify=classify)
    if kind == 'bylabels':
        from valjean.gavroche.diagnostics import stats
        by_labels = tuple(f'lab{i}' for i in range(case['nlab']))
        classify = [{'labels': tuple(row[0]), 'OK': row[1], 'KO': row[2], 'total': row[3]}
                    for row in case['rows']]
        total = sum(row[3] for row in case['rows'])
        return stats.TestResultStatsTestsByLabels(
            test=stats.TestStatsTestsByLabels(name='sl', task_results=[], by_labels=by_labels),
            classify=classify, n_labels=total + case['missing'])
    if kind == 'failed':
        from valjean.gavroche.test import TestResultFailed, TestEqual
        test = build_data_test({'kind': 'equal', 'shape': [2], 'fail': [[False, True]]})
        assert isinstance(test, TestEqual)
        return TestResultFailed(test, case['msg'])
    raise ValueError(kind)


def representer(rep):
    from valjean.javert import representation as rp
    return {'Table': rp.TableRepresenter, 'FullTable': rp.FullTableRepresenter,
            'Full': rp.FullRepresenter}[rep]()


# --------------------------------------------------------------------------
# abstract results for the Coq model

class Intern:
    '''formatted inputs -> CI ids'''
    def __init__(self):
        self.ids = {}

    def __call__(self, text):
        return self.ids.setdefault(text, len(self.ids) + 10)

    def cell(self, text):
        if text in ('True', 'False'):      # str(bool): the same cell whatever column it is in
            return f'CB {cb(text == "True")}'
        return f'CI {self(text)}'


def coq_cells(cells):
    return clist(cells)


def coq_bools(bools):
    return clist([cb(b) for b in bools])


def data_oracles(kind, result):
    if kind == 'equal':
        return result.equal
    if kind == 'approx':
        return result.approx_equal
    return result.oracles()


def abstract_dres(kind, result, intern):
    test = result.test
    ref = test.dsref
    labels = [[intern.cell(x) for x in col] for col in label_columns(ref)]
    refcols = [[intern.cell(fmt(x)) for x in flat(ref.value)]]
    if kind == 'student':
        refcols.append([intern.cell(fmt(x)) for x in flat(ref.error)])
    sets = []
    for k, (dset, orc) in enumerate(zip(test.datasets, data_oracles(kind, result))):
        cols = [[intern.cell(fmt(x)) for x in flat(dset.value)]]
        if kind == 'student':
            cols.append([intern.cell(fmt(x)) for x in flat(dset.error)])
            cols.append([intern.cell(fmt(x)) for x in flat(result.tstud[k])])
        sets.append('(mk_dset ' + clist([coq_cells(c) for c in cols]) + ' '
                    + coq_bools([bool(b) for b in flat(orc)]) + ')')
    return ('(mk_dres ' + cb(ref.shape == ()) + ' ' + cn(ref.size) + ' '
            + clist([coq_cells(c) for c in labels]) + ' ' + clist([coq_cells(c) for c in refcols])
            + ' ' + clist(sets) + ' ' + cb(bool(result)) + ')')


def corr_info(kind, result):
    '''the plain columns of the Bonferroni / Holm-Bonferroni tables, as texts'''
    first = result.first_test_res
    nds = len(first.test.datasets)
    info = [[f'{first.test.dsref.name} vs {d.name}' for d in first.test.datasets],
            [fmt(result.test.ntests)] * nds,
            [fmt(result.test.alpha)] * nds]
    minp = [fmt(np.min(np.asarray(p))) for p in first.pvalue]
    if kind == 'bonf':
        info += [[fmt(result.test.bonf_signi_level)] * nds, minp]
    else:
        info += [minp, [fmt(np.min(np.asarray(a))) for a in result.alphas_i],
                 [fmt(np.count_nonzero(r)) for r in result.rejected_null_hyp]]
    oracles = [not bool(np.any(r)) for r in result.rejected_null_hyp]
    return info, oracles


def abstract_result(case, result, intern):
    kind = case['kind']
    if kind in DATA_KINDS:
        con = {'equal': 'REqual', 'approx': 'RApprox', 'student': 'RStudent'}[kind]
        return f'({con} {abstract_dres(kind, result, intern)})'
    if kind in CORR_KINDS:
        info, oracles = corr_info(kind, result)
        return ('(' + ('RBonf' if kind == 'bonf' else 'RHolm') + ' (mk_bres '
                + clist([coq_cells([intern.cell(x) for x in col]) for col in info]) + ' '
                + coq_bools(oracles) + ' ' + cb(bool(result)) + ' '
                + abstract_dres('student', result.first_test_res, intern) + '))')
    if kind == 'meta':
        test = result.test
        keys = list(test.all_md.keys())
        samples = []
        for name in test.dmd:
            samples.append(clist(['(' + intern.cell(str(test.all_md[key][name])) + ', '
                                  + cb(bool(result.dict_res[key][name])) + ')' for key in keys]))
        return ('(RMeta (mk_mres ' + clist([cn(intern(key)) for key in keys]) + ' '
                + clist(samples) + ' ' + cb(bool(result)) + '))')
    if kind in ('tasks', 'tests'):
        from valjean.cosette.task import TaskStatus
        from valjean.gavroche.diagnostics.stats import TestOutcome
        enum, ok = (TaskStatus, TaskStatus.DONE) if kind == 'tasks' else (TestOutcome, TestOutcome.SUCCESS)
        count = lambda st: len(result.classify.get(st, ()))   # noqa: E731
        others = [f'({cn(intern(st.name))}, {cn(count(st))})' for st in enum if st != ok]
        return ('(' + ('RStatsTasks' if kind == 'tasks' else 'RStatsTests') + ' (mk_sres '
                + f'({cn(intern(ok.name))}, {cn(count(ok))}) ' + clist(others) + ' '
                + cb(bool(result)) + '))')
    if kind == 'bylabels':
        rows = ['(mk_lrow ' + clist([cn(intern(lab)) for lab in row['labels']]) + ' '
                + cn(row['OK']) + ' ' + cn(row['KO']) + ' ' + cn(row['total']) + ')'
                for row in result.classify]
        return ('(RByLabels (mk_lres ' + cn(len(result.test.by_labels)) + ' ' + clist(rows) + ' '
                + cb(result.nb_missing_labels() != 0) + ' ' + cb(bool(result)) + '))')
    return 'RFailed'


def decode_cell(text, intern, joins):
    '''observed cell text -> Coq cell'''
    if text in ('True', 'False'):
        return f'CB {cb(text == "True")}'
    if text in LITERALS:
        return f'CK {LITERALS[text]}'
    if text in joins:
        return joins[text]
    if NBSP in text and '/' in text:
        try:
            num, den = text.split(NBSP)[0].split('/')
            if percent(int(num), int(den)) == text:
                return f'CPct {int(num)} {int(den)}'
        except ValueError:
            pass
    if text in intern.ids:
        return f'CI {intern.ids[text]}'
    return 'CI 0'        # not a formatted input of this result: never matches


def table_obs(tmpl):
    '''columns (formatted, C order) and highlights of a TableTemplate'''
    cols = [[fmt(x) for x in flat(col)] for col in tmpl.columns]
    mask = [[bool(x) for x in flat(high)] for high in tmpl.highlights]
    return cols, mask


def coq_templates(templates, intern, joins):
    from valjean.javert.templates import TableTemplate, TextTemplate
    out = []
    for tmpl in templates:
        if isinstance(tmpl, TextTemplate):
            out.append(f'Text {cb(":hl:`" in tmpl.text)}')
        elif isinstance(tmpl, TableTemplate):
            cols, mask = table_obs(tmpl)
            out.append('Table (mk_table '
                       + clist([clist([decode_cell(x, intern, joins) for x in col]) for col in cols])
                       + ' ' + clist([coq_bools(m) for m in mask]) + ')')
    return clist(out)


def cstr_n(text):
    return '[' + ';'.join(str(ord(c)) for c in text) + ']%N'


# --------------------------------------------------------------------------
# docutils side of the oracle

_DOCUTILS_READY = False


def parse_rst(text):
    '''(doctree, list of warnings/errors)'''
    global _DOCUTILS_READY
    import docutils.core
    import docutils.nodes as dn
    from docutils.parsers.rst import roles
    if not _DOCUTILS_READY:
        roles.register_generic_role('ref', dn.emphasis)      # Sphinx role used by the stats texts
        _DOCUTILS_READY = True
    doc = docutils.core.publish_doctree(
        text, settings_overrides={'warning_stream': io.StringIO(), 'report_level': 2,
                                  'halt_level': 5, 'file_insertion_enabled': False})
    msgs = [m.astext() for m in doc.traverse(dn.system_message) if m.get('level', 0) >= 2]
    return doc, msgs


def _entry(entry):
    import docutils.nodes as dn
    text = entry.astext()
    marks = [n for n in entry.traverse(dn.inline) if 'hl' in n.get('classes', [])]
    if marks:
        whole = len(marks) == 1 and marks[0].astext() == text
        return (text, True) if whole else (text, 'partial')
    return (text, False)


def doc_tables(doc):
    import docutils.nodes as dn
    out = []
    for tab in doc.traverse(dn.table):
        head = [[_entry(e)[0] for e in row.traverse(dn.entry)]
                for th in tab.traverse(dn.thead) for row in th.traverse(dn.row)]
        body = [[_entry(e) for e in row.traverse(dn.entry)]
                for tb in tab.traverse(dn.tbody) for row in tb.traverse(dn.row)]
        out.append((head, body))
    return out


def doc_marks(doc):
    import docutils.nodes as dn
    return [n.astext() for n in doc.traverse(dn.inline) if 'hl' in n.get('classes', [])]


def expected_rows(cols, mask):
    '''rows (stripped text, flag) a table with these formatted columns must read back as'''
    nrow = len(cols[0]) if cols else 0
    return [[(col[i].strip(), bool(msk[i])) for col, msk in zip(cols, mask)] for i in range(nrow)]


def bin_rows(kind, result):
    '''for every bin the row a detailed table must show: labels, reference,
    then value [, error, t] and oracle of every dataset (independent of table_repr)'''
    test = result.test
    ref = test.dsref
    labels = label_columns(ref)
    rows = []
    oracles = [[bool(b) for b in flat(o)] for o in data_oracles(kind, result)]
    for i in range(ref.size):
        row = [(col[i].strip(), False) for col in labels]
        row.append((fmt(flat(ref.value)[i]).strip(), False))
        if kind == 'student':
            row.append((fmt(flat(ref.error)[i]).strip(), False))
        for k, dset in enumerate(test.datasets):
            row.append((fmt(flat(dset.value)[i]).strip(), False))
            if kind == 'student':
                row.append((fmt(flat(dset.error)[i]).strip(), False))
                row.append((fmt(flat(result.tstud[k])[i]).strip(), False))
            row.append((str(oracles[k][i]), not oracles[k][i]))
        rows.append(row)
    failing = [i for i in range(ref.size) if not all(o[i] for o in oracles)]
    return rows, failing


def item_rows(kind, res, vname, verdict, samples=None):
    '''tables with one row per compared dataset / status / label tuple / metadata key: the rows
    (stripped text, highlighted?) the first table of a non-silent rendering must read back as, every
    flag computed from that row's own verdict, independently of table_repr.  None: no such table.'''
    if kind in CORR_KINDS:
        if vname == 'SUMMARY':
            return None
        info, oracles = corr_info(kind, res)
        return [[(col[k].strip(), False) for col in info] + [(str(orc), not orc)]
                for k, orc in enumerate(oracles)]
    if kind in ('tasks', 'tests'):
        from valjean.cosette.task import TaskStatus
        from valjean.gavroche.diagnostics.stats import TestOutcome
        enum, okst = (TaskStatus, TaskStatus.DONE) if kind == 'tasks' else (TestOutcome, TestOutcome.SUCCESS)
        counts = [(st, len(res.classify.get(st, ()))) for st in [okst] + [s for s in enum if s != okst]]
        total = sum(num for _, num in counts)
        rows = [[(st.name, st != okst), (percent(num, total), st != okst)] for st, num in counts if num]
        lone = not verdict and not any(row[0][1] for row in rows)
        return rows + [[('total', lone), (percent(total, total), lone)]]
    if kind == 'bylabels':
        rows = []
        for row in res.classify:
            bad = row['OK'] != row['total']
            if vname == 'SUMMARY' and not bad:
                continue
            rows.append([(lab, bad) for lab in row['labels']]
                        + [(percent(row['OK'], row['total']), bad), (percent(row['KO'], row['total']), bad)])
        return rows or None
    if kind == 'meta':
        test = res.test
        keys = list(test.all_md)
        bad = [key for key in keys if not all(res.dict_res[key].values())]
        if vname == 'SUMMARY':
            return None
        if vname == 'DEFAULT':
            return [[('Metadata:', False), ('OK', False)]] if not bad \
                else [[('Failed metadata:', False), (', '.join(bad), True)]]
        if vname == 'INTERMEDIATE' and not bad:
            return None
        shown = bad if vname == 'INTERMEDIATE' else keys
        # one column per sample: the cell under the header of sample S in the row of key K holds S's
        # value for K, highlighted iff S's comparison for K failed.  `samples` = the sample headers
        # read back from the written table (default: the order the samples were given in)
        order = list(test.dmd) if samples is None else samples
        return [[(key, False)] + [(str(test.all_md[key][nam]).strip(), not res.dict_res[key][nam])
                                  for nam in order] for key in shown]
    return None


# --------------------------------------------------------------------------
# one case: implementation, oracle, Coq text

class Rec:
    '''what a worker returns for one case (plain data)'''
    def __init__(self, case):
        self.case = case
        self.failures = []      # (what, key)
        self.counts = {}
        self.renders = None     # Coq text of a check_result case
        self.extra_renders = []  # more of them (histories: one per probed result)
        self.tops = []          # Coq texts of check_top cases
        self.strs = []          # Coq texts of check_str cases
        self.nontrivial = False
        self.notes = []

    def fail(self, what, key):
        self.failures.append((f'{what} :: {json.dumps(self.case)[:400]}', key))

    def count(self, key, num=1):
        self.counts[key] = self.counts.get(key, 0) + num


def py_cell_ok(headers, cols, mask):
    '''the hypotheses of C12_table_roundtrip'''
    if not headers or any(h == '' or '\n' in h for h in headers):
        return False
    if len(cols) != len(headers) or len(mask) != len(headers):
        return False
    for j, (col, msk) in enumerate(zip(cols, mask)):
        for text, flag in zip(col, msk):
            if '\n' in text:
                return False
            if flag and '`' in text.strip():
                return False
            if not flag and text.strip().startswith(':hl:`'):
                return False
            if j == 0 and (text.strip() == '' or text[0] == '='):
                return False
    return True


def docutils_safe(text):
    text = text.strip()
    return text != '' and all(c.isalnum() or c in ' .-+/()%?' + NBSP for c in text) \
        and '  ' not in text and not text[0] in '-+' and text[-1].isalnum() or text in ('0 - 1',)


def str_case(rec, headers, cols, mask, impl):
    rec.strs.append('(' + clist([cstr_n(h) for h in headers]) + ', '
                    + clist([clist([cstr_n(x) for x in col]) for col in cols]) + ', '
                    + clist([coq_bools(m) for m in mask]) + ', '
                    + copt(impl, cstr_n) + ', ' + cb(py_cell_ok(headers, cols, mask)) + ')')


def check_table_text(rec, text, tables, where, key):
    '''docutils reads [text]; its tables must read back as [tables] = list of
    (headers, cols, mask) of formatted inputs.  Returns the doctree.'''
    doc, msgs = parse_rst(text)
    if msgs:
        rec.fail(f'{where}: not valid reStructuredText ({msgs[0][:120]})', key + '-invalid-rst')
        return doc
    got = doc_tables(doc)
    if len(got) != len(tables):
        rec.fail(f'{where}: {len(tables)} tables written, {len(got)} read back', key + '-table-count')
        return doc
    for (head, body), (headers, cols, mask) in zip(got, tables):
        if head != [[h.strip() for h in headers]]:
            rec.fail(f'{where}: headers read back as {head}', key + '-headers')
        if len({len(c) for c in cols} | {len(m) for m in mask}) > 1:
            rec.fail(f'{where}: columns and highlights of a table do not have the same number of elements '
                     f'({[len(c) for c in cols]} / {[len(m) for m in mask]}): rows are dropped or misread',
                     key + '-ragged')
            continue
        want = expected_rows(cols, mask)
        if body != want:
            rec.fail(f'{where}: cells read back differ from the formatted inputs: '
                     f'got {body[:3]}.., want {want[:3]}..', key + '-cells')
    return doc


def run_case(case):
    from valjean.javert.representation import Representation
    from valjean.javert.rst import Rst, RstTable
    from valjean.javert.templates import TableTemplate, TextTemplate, join
    from valjean.javert.verbosity import Verbosity
    rec = Rec(case)
    kind = case['kind']
    if kind in ('strtable', 'coltable'):
        return run_strtable(rec, case)
    if kind == 'history':
        return run_history(rec, case)
    if kind == 'policy':
        return run_policy(rec, case)
    intern = Intern()
    result = build_result(case)
    verdict = bool(result)
    abstract = abstract_result(case, result, intern)
    joins = {}
    if kind == 'meta':
        bad = [key for key, val in result.dict_res.items() if not all(val.values())]
        if len(bad) != 1:       # the join of a single key is the key itself
            joins[', '.join(bad)] = 'CJoin ' + clist([cn(intern(k)) for k in bad])
    rec.count('kind_' + kind)
    if case.get('dtype'):
        rec.count('value_dtype_' + case['dtype'])
        rec.count('error_dtype_' + (case.get('edtype') or 'f8'))
    if case.get('lay') or case.get('rlay'):
        rec.count('cases_with_non_C_layouts')
        for code in set((case.get('lay') or '') + (case.get('rlay') or '')):
            rec.count('layout_' + code)
    rec.count('verdict_' + str(verdict))
    first_false = kind in CORR_KINDS and not bool(result.first_test_res)
    renders = []
    seen_tables = {}
    detail = None
    for rep in case.get('reps', REPS):
        for iv, vname in enumerate(VERBS):
            verb = Verbosity[vname]
            # statistics results: a fresh object for every call (whether observing a result
            # changes it is C13's question, not this one's)
            fresh = (lambda: build_result(case)) if kind in ('tasks', 'tests') else (lambda: result)
            res = fresh()
            try:
                templates = Representation(representer(rep), verbosity=verb)(fresh())
                lines = Rst(representation=Representation(representer(rep), verbosity=verb)).format_result(fresh())
            except Exception as exc:  # noqa
                if rep == 'Full':
                    # plot_repr (not anchored by C12) rejects some shapes
                    try:
                        Representation(representer('FullTable'), verbosity=verb)(res)
                        rec.count('full_representer_plot_error')
                        continue
                    except Exception:  # noqa
                        pass
                rec.fail(f'rendering raises {type(exc).__name__} ({rep}, {vname})',
                         'render-raises-' + type(exc).__name__)
                renders.append(f'({COQ_REP[rep]}, {COQ_VERB[iv]}, [Text false; Text false; Text false; Text false])')
                continue
            tts = [t for t in templates if isinstance(t, (TableTemplate, TextTemplate))]
            renders.append(f'({COQ_REP[rep]}, {COQ_VERB[iv]}, {coq_templates(tts, intern, joins)})')
            rec.count('renderings')
            tabs = [t for t in tts if isinstance(t, TableTemplate)]
            if tabs:
                rec.nontrivial = rec.nontrivial or not verdict
            # string level cases: every distinct table once
            obs = []
            for tab in tabs:
                cols, mask = table_obs(tab)
                obs.append((list(tab.headers), cols, mask))
                sig = json.dumps([tab.headers, cols, mask])
                if sig not in seen_tables:
                    seen_tables[sig] = True
                    try:
                        impl = str(RstTable(tab))
                    except ValueError:
                        impl = None
                    str_case(rec, list(tab.headers), cols, mask, impl)
            if kind in DATA_KINDS and rep == 'Table' and tabs and detail is None \
                    and vname in ('FULL_DETAILS', 'DEVELOPMENT'):
                detail = tabs[0]
            if vname == 'SILENT':
                continue
            # ---- the property on this rendering
            text = '\n'.join(lines)
            where = f'{kind} {rep} {vname}'
            doc = check_table_text(rec, text, obs, where, 'render')
            marks = doc_marks(doc)
            if bool(marks) != (not verdict):
                if marks and verdict and first_false and rep != 'Table':
                    rec.fail(f'{where}: passing correction rendered with the KO marks of its failing '
                             'first test', KNOWN_CORR)
                elif marks:
                    rec.fail(f'{where}: mark {marks[:2]} although the result is true', 'mark-on-true')
                else:
                    rec.fail(f'{where}: no mark although the result is false', 'no-mark-on-false')
            # ---- detailed tables: rows are the (failing) bins with their own cells
            if kind in DATA_KINDS and tabs:
                rows, failing = bin_rows(kind, res)
                got = doc_tables(doc)
                if len(got) == 1:
                    body = got[0][1]
                    interm = kind == 'student' and vname in ('DEFAULT', 'INTERMEDIATE') \
                        and res.test.dsref.shape != ()
                    want = [rows[i] for i in failing] if interm else rows
                    if body != want:
                        rec.fail(f'{where}: rows shown {body[:2]}.. are not the '
                                 f'{"failing " if interm else ""}bins {want[:2]}..', 'rows-not-failing-bins')
                    # equality tests: in a failing row the two compared values are shown as different
                    # texts; integer values read back exactly (every digit)
                    nlab = len(label_columns(res.test.dsref))
                    step = 4 if kind == 'student' else 2
                    first = nlab + (2 if kind == 'student' else 1)
                    for irow, row in enumerate(body):
                        ibin = failing[irow] if interm and irow < len(failing) else irow
                        for k, dset in enumerate(res.test.datasets):
                            pos = first + step * k
                            if pos + step - 1 >= len(row) or ibin >= res.test.dsref.size:
                                continue
                            flagged = row[pos + step - 1][1] is True
                            if kind == 'equal' and flagged and row[pos][0] == row[nlab][0]:
                                rec.fail(f'{where}: row {irow} is highlighted as unequal but shows the same text '
                                         f'{row[pos][0]!r} for the reference and for {dset.name}',
                                         'failing-row-shows-equal-values')
                            for arr, cell in ((res.test.dsref.value, row[nlab]), (dset.value, row[pos])):
                                stored = flat(arr)[ibin]
                                if isinstance(stored, np.integer) and cell[0] != str(int(stored)):
                                    rec.fail(f'{where}: integer value {int(stored)} is written as {cell[0]!r}',
                                             'integer-cell-not-exact')
                    hl_rows = [i for i, row in enumerate(body) if any(c[1] for c in row)]
                    want_hl = list(range(len(failing))) if interm else failing
                    if hl_rows != want_hl:
                        rec.fail(f'{where}: highlighted rows {hl_rows}, failing bins {want_hl}',
                                 'highlighted-rows')
            # ---- tables with one row per dataset / status / label tuple / key: a row (a cell) is
            #      highlighted exactly when that row's (cell's) own verdict is false
            want = item_rows(kind, fresh(), vname, verdict)
            if want is not None and kind == 'meta' and vname not in ('SUMMARY', 'DEFAULT'):
                # the column <-> sample association is the one the written table announces in its headers
                heads = (doc_tables(doc) or [([[]], [])])[0][0]
                heads = heads[0] if heads else []
                names = list(fresh().test.dmd)
                if heads[:1] != ['key'] or sorted(heads[1:]) != sorted(names):
                    rec.fail(f'{where}: headers {heads} are not "key" and the samples {names}', 'meta-headers')
                    want = None
                else:
                    if heads[1:] != names:
                        rec.count('meta_columns_not_in_given_order')
                    want = item_rows(kind, fresh(), vname, verdict, samples=heads[1:])
            if want is not None:
                got = doc_tables(doc)
                if not got:
                    rec.fail(f'{where}: no table although one row per item is expected', 'item-rows-missing')
                else:
                    body = got[0][1]
                    hl_rows = [i for i, row in enumerate(body) if any(c[1] for c in row)]
                    want_hl = [i for i, row in enumerate(want) if any(c[1] for c in row)]
                    if hl_rows != want_hl:
                        rec.fail(f'{where}: highlighted rows {hl_rows} but the rows whose own verdict is '
                                 f'false are {want_hl} (rows read back: {body})', 'item-rows-highlight')
                    elif body != want:
                        under = f' under the headers {doc_tables(doc)[0][0][0]}' if kind == 'meta' else ''
                        rec.fail(f'{where}: rows read back {body}{under} are not the items with their own '
                                 f'values and flags {want}', 'item-rows-cells')
    rec.renders = f'({abstract}, {clist(renders)})'
    if detail is not None and case.get('ops'):
        run_ops(rec, case, detail, intern)
    return rec


# --------------------------------------------------------------------------
# histories in one process: render, modify the returned templates in place, render again

def _set_flags(high, value):
    '''change a highlight container in place (what a caller holding the template can do)'''
    if isinstance(high, np.ndarray):
        if high.flags.writeable:
            high[...] = value
    elif isinstance(high, list):
        for i, item in enumerate(high):
            if isinstance(item, (list, np.ndarray)):
                _set_flags(item, value)
            else:
                high[i] = value


def _mutable_parts(tmpl):
    '''the template object and its mutable members that carry marks or structure (the columns are
    the arrays of the result's own datasets and are left alone)'''
    from valjean.javert.templates import TableTemplate
    parts = [tmpl]
    if isinstance(tmpl, TableTemplate):
        parts.append(tmpl.highlights)
        parts.append(tmpl.headers)
        stack = list(tmpl.highlights)
        while stack:
            item = stack.pop()
            if isinstance(item, np.ndarray):
                parts.append(item)
            elif isinstance(item, list):
                parts.append(item)
                stack.extend(x for x in item if isinstance(x, (list, np.ndarray)))
    return parts


def run_history(rec, case):
    '''(1) render the sub-cases at every verbosity with every representer, (2) use the in-place API
    of the templates handed out (TextTemplate.join / text +=, TableTemplate highlights and join),
    (3) render the same sub-cases again from fresh result objects: everything the ordinary check
    requires must still hold (run_case: marks iff false, rows, cells, model), and no two rendering
    calls may hand out the same template object or share a mutable member.'''
    from valjean.javert.representation import Representation
    from valjean.javert.templates import TableTemplate, TextTemplate
    from valjean.javert.verbosity import Verbosity
    rec.count('kind_history')
    mode = case.get('mut', 'mark')
    calls = []        # (description, templates) of every rendering call; kept alive for the identity check
    for isub, sub in enumerate(case['subs']):
        for rep in REPS:
            for vname in VERBS:
                try:
                    tmpls = Representation(representer(rep), verbosity=Verbosity[vname])(build_result(sub))
                except Exception:  # noqa  (plot_repr on unit dimensions etc.: the ordinary cases report it)
                    continue
                tmpls = [t for t in tmpls if isinstance(t, (TableTemplate, TextTemplate))]
                calls.append((f'sub-case {isub} {rep} {vname}', tmpls))
    rec.count('history_rendering_calls', len(calls))
    # ---- no aliasing between rendering calls
    owner, shared = {}, None
    for icall, (what, tmpls) in enumerate(calls):
        for tmpl in tmpls:
            for part in _mutable_parts(tmpl):
                first = owner.setdefault(id(part), icall)
                if first != icall and shared is None:
                    shared = (calls[first][0], what, type(part).__name__,
                              getattr(part, 'text', None) if isinstance(part, TextTemplate) else None)
    # (structural: reported as a failure only together with a behavioural failure of this history, see below)
    shared_msg = None
    if shared:
        shared_msg = (f'two rendering calls ({shared[0]}; {shared[1]}) hand out the same mutable {shared[2]} object'
                      + (f' (text {shared[3]!r})' if shared[3] else ''))
    # ---- an excerpt of a table (slice) modified in place by its holder: the source table is unchanged
    from valjean.javert.rst import RstTable

    def snapshot(tab):
        try:
            text = str(RstTable(tab))
        except Exception as exc:  # noqa
            text = type(exc).__name__
        return list(tab.headers), list(tab.units), text
    nsliced = 0
    for what, tmpls in calls:
        for tab in tmpls:
            if nsliced >= 8 or not isinstance(tab, TableTemplate) or not isinstance(tab.columns[0], np.ndarray) \
                    or tab.columns[0].ndim == 0:
                continue
            before = snapshot(tab)
            try:
                excerpt = tab[:1]
            except Exception:  # noqa
                continue
            nsliced += 1
            for lst, label in ((excerpt.headers, 'relabelled'), (excerpt.units, 'cm')):
                for i in range(len(lst)):
                    lst[i] = f'{label} {i}'
            # (columns and highlights of a slice are numpy views of the source, by design: left alone)
            after = snapshot(tab)
            if after != before:
                rec.fail(f'{what}: after its excerpt t[:1] was relabelled in place, the source table changed: '
                         f'headers {before[0]} -> {after[0]}, units {before[1]} -> {after[1]}'
                         + ('' if after[2] == before[2] else '; it is now written as\n' + after[2][:400]),
                         'history-slice-changes-source')
    rec.count('history_excerpts_modified', nsliced)
    # ---- in-place use of the templates by their holder
    texts = [t for _, tmpls in calls for t in tmpls if isinstance(t, TextTemplate)]
    ko_texts = [t for t in texts if ':hl:`' in t.text]
    ok_texts = [t for t in texts if ':hl:`' not in t.text]
    tables = [t for _, tmpls in calls for t in tmpls if isinstance(t, TableTemplate)]
    done = set()
    for tmpl in texts:
        if id(tmpl) in done:
            continue
        done.add(id(tmpl))
        if mode == 'unmark':
            tmpl.text = tmpl.text.replace(':hl:`KO`', 'fine')
            if ok_texts and ok_texts[0] is not tmpl:
                tmpl.text = ''
                tmpl.join(ok_texts[0])
        elif mode == 'join':
            others = [o for o in (ko_texts[:1] + ok_texts[:1]) if o is not tmpl]
            tmpl.join(*others)
        else:
            tmpl.text += '\n\n.. role:: hl\n\nannotated by the caller: :hl:`KO`\n\n'
    for tab in tables:
        for high in tab.highlights:
            _set_flags(high, mode != 'unmark')
        if mode == 'join':
            mates = [o for o in tables if o is not tab and o.headers == tab.headers]
            try:
                tab.join(*mates[:1])
            except Exception:  # noqa
                pass
    # ---- later renderings (fresh result objects): the whole ordinary check
    for isub, sub in enumerate(case['subs']):
        probe = run_case(dict(sub))
        for what, key in probe.failures:
            if key == KNOWN_CORR:
                rec.failures.append((what, key))
            else:
                rec.failures.append((f'after earlier renderings were modified in place ({mode}) by their '
                                     f'holder, sub-case {isub}: {what.split(" :: ")[0]} :: '
                                     f'{json.dumps(case)[:600]}', 'history-' + key))
        for key, num in probe.counts.items():
            if key.startswith('kind_') or key.startswith('verdict_'):
                continue
            rec.count('history_' + key if not key.startswith('history_') else key, num)
        if probe.renders:
            rec.extra_renders.append(probe.renders)
        rec.nontrivial = rec.nontrivial or probe.nontrivial
    if shared_msg:
        rec.count('history_templates_shared_between_renderings')
        if any(key.startswith('history-') for _, key in rec.failures):
            # the sharing is how the in-place use of one rendering reached the later ones
            rec.fail(shared_msg + ': what the holder did to the template of one result shows up in the later '
                     'renderings (see the other failures of this history)', 'templates-shared-between-renderings')
        else:
            # every later rendering is right (copy-on-join, frozen or simply unaffected): not a violation
            rec.notes.append('history: ' + shared_msg + '; the later renderings are nevertheless all correct '
                             '(noted, not a violation)')
    return rec


# --------------------------------------------------------------------------
# callable verbosity: one representation object used for a sequence of results

def policy_level(policy, result):
    '''the level a verbosity policy (JSON description) gives to a result'''
    if policy['by'] == 'verdict':
        return policy['levels'][0 if bool(result) else 1]
    key = type(result).__name__ if policy['by'] == 'kind' else result.test.name
    return policy['map'].get(key, policy['default'])


def canon_templates(templates):
    from valjean.javert.templates import TableTemplate, TextTemplate
    out = []
    for tmpl in templates:
        if isinstance(tmpl, TextTemplate):
            out.append(['text', tmpl.text])
        elif isinstance(tmpl, TableTemplate):
            cols, mask = table_obs(tmpl)
            out.append(['table', list(tmpl.headers), cols, mask])
        else:
            out.append([type(tmpl).__name__])
    return out


def canon_marked(canon):
    return any((c[0] == 'text' and ':hl:`' in c[1]) or (c[0] == 'table' and any(any(m) for m in c[3]))
               for c in canon)


def run_policy(rec, case):
    '''A Representation (and an Rst) built with a *callable* verbosity renders a sequence of results
    whose levels differ: every rendering must equal the one obtained with the constant level the
    callable returns for that result (through the representation, Rst.format_result and
    Rst.format_report), carry a mark iff the result is false whenever that level is not silent, and
    agree with the model.'''
    from valjean.javert.representation import Representation
    from valjean.javert.rst import Rst
    from valjean.javert.templates import TableTemplate, TextTemplate
    from valjean.javert.test_report import TestReport
    from valjean.javert.verbosity import Verbosity
    rec.count('kind_policy')
    policy = case['policy']
    rec.count('policy_by_' + policy['by'])
    subs = case['subs']

    def chooser(result):
        return Verbosity[policy_level(policy, result)]
    levels = [policy_level(policy, build_result(sub)) for sub in subs]
    if len(set(levels)) > 1:
        rec.count('policy_sequences_with_different_levels')
    interns = [Intern() for _ in subs]
    abstracts = [abstract_result(sub, build_result(sub), interns[k]) for k, sub in enumerate(subs)]
    renders = [[] for _ in subs]
    for rep in case.get('reps', REPS):
        shared = Representation(representer(rep), verbosity=chooser)        # one object for the sequence
        shared_rst = Rst(representation=Representation(representer(rep), verbosity=chooser))
        want_report = []
        usable = True
        for k, (sub, level) in enumerate(zip(subs, levels)):
            where = f'{rep}, result {k} of the sequence ({sub["kind"]}, level {level} by the policy)'
            const = Verbosity[level]
            try:
                got = canon_templates(shared(build_result(sub)))
                want = canon_templates(Representation(representer(rep), verbosity=const)(build_result(sub)))
                got_lines = shared_rst.format_result(build_result(sub))
                want_lines = Rst(representation=Representation(representer(rep), verbosity=const)) \
                    .format_result(build_result(sub))
            except Exception as exc:  # noqa
                if rep == 'Full':
                    rec.count('full_representer_plot_error')
                    usable = False
                    continue
                rec.fail(f'{where}: rendering raises {type(exc).__name__}', 'policy-render-raises')
                usable = False
                continue
            rec.count('policy_renderings')
            result = build_result(sub)
            verdict = bool(result)
            if got != want:
                rec.fail(f'{where}: the rendering is not the one of the constant level {level} '
                         f'(got {json.dumps(got)[:300]}, want {json.dumps(want)[:300]})', 'policy-level-not-applied')
            known = sub['kind'] in CORR_KINDS and rep != 'Table' and verdict \
                and not bool(result.first_test_res)
            if level != 'SILENT' and canon_marked(got) != (not verdict) and not known:
                rec.fail(f'{where}: {"a" if canon_marked(got) else "no"} mark although the result is {verdict}',
                         'policy-mark-on-true' if verdict else 'policy-no-mark-on-false')
            # the text: anchor and description (3 lines) then the templates; the file names of the
            # plots (fingerprints of PlotTemplates, not part of C12) are left out
            got_lines = [ln for ln in got_lines if not ln.startswith('.. image::')]
            want_lines = [ln for ln in want_lines if not ln.startswith('.. image::')]
            if got_lines[3:] != want_lines[3:]:
                rec.fail(f'{where}: Rst.format_result does not write what it writes at the constant level {level}',
                         'policy-format-result')
            elif level != 'SILENT' and want_lines and not known:
                marks = doc_marks(parse_rst('\n'.join(got_lines))[0])
                if bool(marks) != (not verdict):
                    rec.fail(f'{where}: text of Rst.format_result: marks {marks[:2]} although the result is {verdict}',
                             'policy-text-marks')
            want_report.append(want_lines[3:])
            # the model at that level
            tts = [t for t in shared_tts(rep, const, sub)]
            renders[k].append(f'({COQ_REP[rep]}, {COQ_VERB[VERBS.index(level)]}, '
                              f'{coq_templates(tts, interns[k], policy_joins(sub, interns[k]))})')
        # the same sequence as the content of a report
        if usable:
            try:
                rst = Rst(representation=Representation(representer(rep), verbosity=chooser))
                rst.format_report(report=TestReport(title='Sequence', text='intro',
                                                    content=[build_result(sub) for sub in subs]),
                                  author='a', version='1')
                page = [ln for ln in rst.text_dict[()] if not ln.startswith('.. image::')]
            except Exception as exc:  # noqa
                rec.fail(f'{rep}: Rst.format_report raises {type(exc).__name__}', 'policy-report-raises')
                continue
            pos = 0
            for k, body in enumerate(want_report):
                # every result's templates appear, in order, as written at its own level
                found = None
                for start in range(pos, len(page) - len(body) + 1):
                    if page[start:start + len(body)] == body:
                        found = start
                        break
                if body and found is None:
                    rec.fail(f'{rep}: Rst.format_report does not write result {k} of the sequence as at the level '
                             f'{levels[k]} its policy gives', 'policy-format-report')
                    break
                pos = (found or pos) + len(body)
            marks = doc_marks(parse_rst('\n'.join(page))[0])
            expected = sum(len(doc_marks(parse_rst('\n'.join(body))[0])) for body in want_report if body)
            if len(marks) != expected:
                rec.fail(f'{rep}: the page of Rst.format_report carries {len(marks)} marks, the results rendered at '
                         f'their own levels carry {expected}', 'policy-report-marks')
    for k, sub in enumerate(subs):
        if renders[k]:
            rec.extra_renders.append(f'({abstracts[k]}, {clist(renders[k])})')
    rec.nontrivial = len(set(levels)) > 1
    return rec


def shared_tts(rep, level, sub):
    '''text and table templates of a constant-level rendering (what the model is compared with; the
    callable rendering was compared with it as canonical data above)'''
    from valjean.javert.representation import Representation
    from valjean.javert.templates import TableTemplate, TextTemplate
    return [t for t in Representation(representer(rep), verbosity=level)(build_result(sub))
            if isinstance(t, (TableTemplate, TextTemplate))]


def policy_joins(sub, intern):
    joins = {}
    if sub['kind'] == 'meta':
        result = build_result(sub)
        bad = [key for key, val in result.dict_res.items() if not all(val.values())]
        if len(bad) != 1:
            joins[', '.join(bad)] = 'CJoin ' + clist([cn(intern(k)) for k in bad])
    return joins


def tt_coq(headers_ids, shape, cols, mask, intern):
    return ('(mk_ttab ' + clist([cn(h) for h in headers_ids]) + ' ' + clist([cn(n) for n in shape]) + ' '
            + clist([clist([intern.cell(x) for x in col]) for col in cols]) + ' '
            + clist([coq_bools(m) for m in mask]) + ')')


def run_ops(rec, case, table, intern):
    '''slicing / joining the detailed table of a dataset result'''
    from valjean.javert.rst import RstTable
    from valjean.javert.templates import TableTemplate, join
    hid = Intern()
    cur = table
    for op in case['ops']:
        cols, mask = table_obs(cur)
        shape = list(np.asarray(cur.columns[0]).shape)
        before = tt_coq([hid(h) for h in cur.headers], shape, cols, mask, intern)
        if op[0] == 'get':
            index = tuple(slice(a, b) for a, b in op[1])
            coq_op = '(TGet ' + clist(['(' + copt(a, cz) + ', ' + copt(b, cz) + ')' for a, b in op[1]]) + ')'
            # ground truth: numpy on arrays of the formatted inputs
            want_cols, want_mask = [], []
            try:
                for col, msk in zip(cols, mask):
                    arr = np.empty(len(col), dtype=object)
                    arr[:] = col
                    want_cols.append(list(arr.reshape(shape)[index].reshape(-1)))
                    want_mask.append([bool(x) for x in np.array(msk, dtype=bool).reshape(shape)[index].reshape(-1)])
            except IndexError:
                want_cols = None
            try:
                new = cur[index if len(index) != 1 else index[0]]
            except IndexError:
                new = 'IndexError'
            rec.count('op_getitem')
        else:
            others = []
            for rot in op[1]:
                other = [t for t in representer('Table')(build_result(case, rot), _verb('FULL_DETAILS'))
                         if isinstance(t, TableTemplate)]
                if not other:
                    other = [t for t in representer('Table')(build_result(case, rot), _verb('DEFAULT'))
                             if isinstance(t, TableTemplate)]
                others.append(other[0])
            obs_others = [table_obs(o) for o in others]
            coq_op = '(TJoin ' + clist([
                tt_coq([hid(h) for h in o.headers], list(np.asarray(o.columns[0]).shape), oc, om, intern)
                for o, (oc, om) in zip(others, obs_others)]) + ')'
            want_cols = [sum([oc[j] for oc, _ in obs_others], list(col)) for j, col in enumerate(cols)]
            want_mask = [sum([om[j] for _, om in obs_others], list(msk)) for j, msk in enumerate(mask)]
            try:
                new = join(cur, *others)
            except ValueError:
                new = 'ValueError'
            rec.count('op_join')
        if isinstance(new, str):
            res = 'Raise ' + ('0' if new == 'IndexError' else '1')
            if new == 'IndexError' and want_cols is None:
                pass
            else:
                rec.fail(f'table {op[0]} raises {new}', 'tableop-raises')
            rec.tops.append(f'({before}, {coq_op}, {res})')
            return
        ncols, nmask = table_obs(new)
        rec.tops.append(f'({before}, {coq_op}, Ok ' + tt_coq([hid(h) for h in new.headers], [], ncols, nmask, intern) + ')')
        if want_cols is None or ncols != want_cols or nmask != want_mask:
            rec.fail(f'after {op}: columns / highlights are not those of the selected elements: '
                     f'got {ncols[-1][:6]} {nmask[-1][:6]}, want '
                     f'{(want_cols or [[]])[-1][:6]} {(want_mask or [[]])[-1][:6]}', 'tableop-misaligned')
        if list(new.headers) != list(cur.headers):
            rec.fail(f'after {op}: headers changed', 'tableop-headers')
        # the sliced / joined table is still a valid table reading back as its inputs
        if ncols and ncols[0]:
            try:
                text = str(RstTable(new))
            except Exception as exc:  # noqa
                rec.fail(f'after {op}: rendering raises {type(exc).__name__}', 'tableop-render-raises')
                return
            check_table_text(rec, text, [(list(new.headers), want_cols or ncols, want_mask or nmask)],
                             f'table after {op}', 'tableop')
            str_case(rec, list(new.headers), ncols, nmask, text)
        else:
            rec.count('op_empty_selection')
            return
        cur = new


def _verb(name):
    from valjean.javert.verbosity import Verbosity
    return Verbosity[name]


def build_column(spec):
    '''a TableTemplate column from its JSON description [dtype code, values]: 'list' = Python
    list of Python scalars, 'c8'/'c16' complex from [re, im] pairs, 'U' numpy strings, else numpy dtype'''
    code, values = spec
    if code == 'list':
        return list(values)
    if code in ('c8', 'c16'):
        return np.array([complex(a, b) for a, b in values], dtype=code)
    if code == 'U':
        return np.array(values, dtype=str)
    return np.array(values).astype(code)


def run_strtable(rec, case):
    '''a hand-made TableTemplate (strings, or columns of every dtype) through RstTable'''
    from valjean.javert.rst import RstTable
    from valjean.javert.templates import TableTemplate
    headers, mask = case['headers'], case['mask']
    rec.count('kind_' + case['kind'])
    if case['kind'] == 'coltable':
        columns = [build_column(spec) for spec in case['columns']]
        for spec in case['columns']:
            rec.count('column_dtype_' + spec[0])
        # expected texts from the elements, by dtype kind (see fmt)
        cols = [[fmt(x) for x in flat(col)] for col in columns]
    else:
        cols = case['cols']
        columns = [list(c) for c in cols]
    tab = TableTemplate(*columns, headers=list(headers),
                        highlights=[list(m) for m in mask])
    try:
        text = str(RstTable(tab))
    except ValueError:
        text = None
        rec.count('strtable_raises')
    str_case(rec, headers, cols, mask, text)
    rec.renders = None
    if text is not None and case.get('safe'):
        rec.nontrivial = any(any(m) for m in mask)
        doc = check_table_text(rec, text, [(headers, cols, mask)], 'string table', 'strtable')
        marks = doc_marks(doc)
        if bool(marks) != any(any(m) for m in mask):
            rec.fail('string table: marks read back differ from the highlights', 'strtable-marks')
    return rec


# --------------------------------------------------------------------------
# generation

def rand_fail(rng, nbin, levels):
    mode = rng.random()
    if mode < 0.2:
        return [0] * nbin
    if mode < 0.35:
        out = [0] * nbin
        out[rng.randrange(nbin)] = rng.choice(levels)
        return out
    if mode < 0.45:
        return [rng.choice(levels) for _ in range(nbin)]
    prob = rng.choice([0.15, 0.4, 0.7])
    return [rng.choice(levels) if rng.random() < prob else 0 for _ in range(nbin)]


def rand_shape(rng, big):
    ndim = rng.choice([0, 1, 1, 2, 2, 3, 3])
    dims = [1, 2, 2, 3, 3] + ([4, 5] if big else [])
    return [rng.choice(dims) for _ in range(ndim)]


def rand_ops(rng, shape):
    ops = []
    cur = list(shape)
    for _ in range(rng.choice([1, 1, 2, 2, 3])):
        if rng.random() < 0.6 and cur:
            nidx = rng.randint(1, len(cur)) if rng.random() < 0.9 else len(cur) + 1
            idx = []
            for k in range(nidx):
                n = cur[k] if k < len(cur) else 2
                def bound():
                    return None if rng.random() < 0.3 else rng.randint(-n - 1, n + 1)
                idx.append([bound(), bound()])
            ops.append(['get', idx])
            cur = [len(range(n)[slice(*idx[k])]) if k < len(idx) else n for k, n in enumerate(cur)]
            if len(idx) > len(cur):
                break
            if 0 in cur:
                break
        else:
            nbin = int(np.prod(shape)) if shape else 1
            ops.append(['join', [rng.randrange(max(nbin, 1)) for _ in range(rng.choice([1, 1, 2]))]])
            cur = [int(np.prod(cur)) * (1 + len(ops[-1][1]))] if cur else []
            if not shape:
                break
    return ops


def gen_data_case(rng, kind, big=False):
    shape = rand_shape(rng, big)
    nbin = int(np.prod(shape)) if shape else 1
    nds = rng.choice([1, 1, 2, 3])
    if kind in ('equal', 'approx'):
        levels = [1]
    elif kind == 'student':
        levels = [1, 1, 1, 2, 3] if rng.random() < 0.3 else [1]
    else:
        levels = [1, 2, 2] if rng.random() < 0.7 else [2]
    if kind in CORR_KINDS:
        nds = rng.choice([1, 2, 2, 3, 3])
    case = {'kind': kind, 'shape': shape, 'bins': [rng.choice('ec') for _ in shape],
            'fail': [rand_fail(rng, nbin, levels) for _ in range(nds)]}
    if kind in CORR_KINDS and nds > 1 and rng.random() < 0.6:
        # mixed outcome: some compared datasets pass entirely, at least one is clearly rejected
        for k in range(nds):
            case['fail'][k] = [0] * nbin
        for k in rng.sample(range(nds), rng.randint(1, nds - 1)):
            case['fail'][k][rng.randrange(nbin)] = 1
    if kind in ('student',):
        case['ndf'] = rng.choice([None, 20, 100])
    if kind in CORR_KINDS:
        case['ndf'] = rng.choice([20, 100])
    if kind in DATA_KINDS and shape and rng.random() < 0.8:
        case['ops'] = rand_ops(rng, shape)
    # dtypes of the arrays handed to the code (0-d: numpy scalars of that type, or Python scalars)
    if rng.random() < 0.5:
        case['dtype'] = rng.choice(VALUE_DTYPES + (['py'] if not shape else []))
        if rng.random() < 0.6:
            case['edtype'] = rng.choice(ERROR_DTYPES)
        if kind not in ('equal', 'approx'):
            # scipy's special functions (p-values of the Student test) reject longdouble statistics
            if case['dtype'] == 'g':
                case['dtype'] = 'f4'
            if case.get('edtype') == 'g':
                case['edtype'] = 'f2'
        if case['dtype'] in BIG_DIGITS and rng.random() < 0.7:
            lo, hi = BIG_DIGITS[case['dtype']]
            digits = rng.randint(lo, hi)
            case['base'] = rng.randint(10 ** (digits - 1), 10 ** digits - 200)
        if case['dtype'][0] in 'iub':
            case['fail'] = [[min(lev, 2) if lev != 3 else 1 for lev in row] for row in case['fail']]
    # memory layouts of the arrays handed to the code (values, errors; arrays of the result object)
    if shape and rng.random() < 0.6:
        mode = rng.random()
        if mode < 0.35:
            case['lay'] = rng.choice('FTSN')                       # every array alike
        else:
            case['lay'] = ''.join(rng.choice(LAYOUTS) for _ in range(2 + 2 * nds))
        if 'B' in case['lay']:
            case['const_err'] = True
        if rng.random() < 0.5:
            case['rlay'] = ''.join(rng.choice(LAYOUTS) for _ in range(rng.randint(1, 4)))
    return case


SAMPLE_NAMES = ['zeta', 'alpha', 'Mid', 'beta2', 'run10', 'run9', 'T4', 'apollo']


def gen_meta_case(rng):
    nkeys, nsamp = rng.randint(1, 4), rng.choice([1, 2, 3, 3, 4])
    mode = rng.random()
    values = []
    for s in range(nsamp):
        row = []
        for k in range(nkeys):
            if mode < 0.3 or s == 0:
                row.append(f'v{k}')
            else:
                roll = rng.random()
                row.append(f'v{k}' if roll < 0.6 else (None if roll < 0.7 else
                                                        rng.choice([f'w{k}', k, 2.5, f'v{k} ', f' w{k}', f'w{k}.2  '])))
        values.append(row)
    if all(v is None for row in values for v in row):
        values[0][0] = 'v0'
    case = {'kind': 'meta', 'values': values}
    if rng.random() < 0.75:
        # sample names in any insertion order (the reference of the comparison is the alphabetically
        # first one, wherever it was given)
        case['names'] = rng.sample(SAMPLE_NAMES, nsamp)
        if mode >= 0.3 and nsamp > 1:
            # the sample that agrees with itself everywhere is not necessarily the reference
            rng.shuffle(case['values'])
            if all(v is None for v in case['values'][0]):
                case['values'][0][0] = 'v0'
    return case


def gen_stats_case(rng, kind):
    names = ['WAITING', 'PENDING', 'DONE', 'FAILED', 'SKIPPED'] if kind == 'tasks' \
        else ['SUCCESS', 'FAILURE', 'MISSING', 'NOT_A_TEST']
    okname = 'DONE' if kind == 'tasks' else 'SUCCESS'
    mode = rng.random()
    counts = []
    if mode < 0.1:
        pass
    elif mode < 0.35:
        counts = [[okname, rng.randint(1, 5)]]
    else:
        for name in names:
            if rng.random() < 0.45:
                counts.append([name, rng.choice([0, 1, 1, 2, 3, 7])])
        rng.shuffle(counts)
    return {'kind': kind, 'counts': counts}


def gen_labels_case(rng):
    nlab = rng.randint(1, 3)
    rows = []
    mode = rng.random()
    for r in range(rng.randint(1, 4)):
        total = rng.randint(1, 6)
        kos = 0 if mode < 0.3 else rng.choice([0, 0, 1, total])
        kos = min(kos, total)
        okn = total - kos if rng.random() < 0.9 else max(total - kos - 1, 0)
        rows.append([[f'L{i}{r}' for i in range(nlab)], okn, kos, total])
    return {'kind': 'bylabels', 'nlab': nlab, 'rows': rows, 'missing': rng.choice([0, 0, 2])}


SAFE_WORDS = ['a', 'ok', 'Galahad', '1.5', '2e-10', 'nan', 'True', 'False', '0 - 1', 'x y', '12/40' + NBSP + '(30.0%)',
              'FAILED', 'v(ref)', '3/3']
WILD_CHARS = ['a', 'b', ' ', ' ', '=', '`', ':', NBSP, 'σ', 'α', 'é', '*', '_', '|', '\\', '.', '-', '\t', ' ']


def blanks_around(rng, text, flag):
    '''string cells with leading / trailing blanks: spaces for any cell, also tabs and no-break
    spaces for a highlighted one (it is stripped before it is wrapped in the role)'''
    if not isinstance(text, str) or rng.random() < 0.5:
        return text
    pool = [' ', '  ', '\t', ' \t ', NBSP] if flag else [' ', '  ']
    lead = rng.choice(pool) if rng.random() < 0.4 else ''
    trail = rng.choice(pool) if rng.random() < 0.7 else ''
    return lead + text.strip() + trail


def gen_str_case(rng, safe):
    # a one-column TableTemplate cannot be rendered (np.nditer yields scalars); no result kind makes one
    ncol, nrow = rng.randint(2, 4), rng.randint(1, 4)
    if safe:
        headers = [rng.choice(['h', 'name', 'v(ref)', 'σ(ref)', 'Student?', '% success', 'a b'])
                   for _ in range(ncol)]
        cols = [[('  ' if rng.random() < 0.3 else '') + rng.choice(SAFE_WORDS) for _ in range(nrow)]
                for _ in range(ncol)]
    else:
        def word(maxlen):
            return ''.join(rng.choice(WILD_CHARS) for _ in range(rng.randint(0, maxlen)))
        headers = [word(8) for _ in range(ncol)]
        cols = [[rng.choice([word(10), ':hl:`' + word(3) + '`', '  ' + word(4), '===', word(2)])
                 for _ in range(nrow)] for _ in range(ncol)]
    mask = [[rng.random() < 0.3 for _ in range(nrow)] for _ in range(ncol)]
    if safe:
        cols = [[blanks_around(rng, text, flag) for text, flag in zip(col, msk)] for col, msk in zip(cols, mask)]
    if rng.random() < 0.05:
        mask = [m[:-1] if nrow > 1 else m for m in mask]   # short highlights: rows dropped by zip
        safe = safe and nrow == 1
    return {'kind': 'strtable', 'headers': headers, 'cols': cols, 'mask': mask, 'safe': safe}


COL_DTYPES = ['f8', 'f4', 'f2', 'g', 'i1', 'i2', 'i4', 'i8', 'u1', 'u2', 'u4', 'u8', 'b1', 'c8', 'c16', 'U', 'list']


def gen_col_case(rng):
    '''a TableTemplate whose columns have all sorts of dtypes (first column: names)'''
    ncol, nrow = rng.randint(2, 5), rng.randint(1, 4)
    columns = [['U' if rng.random() < 0.5 else 'list', [rng.choice(['a', 'ok', 'Galahad', 'x y', 'ds0']) + str(i)
                                                         for i in range(nrow)]]]
    for _ in range(ncol - 1):
        code = rng.choice(COL_DTYPES)
        if code in ('c8', 'c16'):
            vals = [[rng.choice([0.0, 1.0, 1 / 3, 2.5e-7]), rng.choice([0.0, 2.0, -1 / 7])] for _ in range(nrow)]
        elif code[0] == 'f' or code == 'g':
            vals = [rng.choice([0.0, 1.0, 1 / 30, 1 / 3, 12345.678, 2.5e-7, 65000.0, -0.1, float('nan'), float('inf')])
                    for _ in range(nrow)]
        elif code in ('i4', 'i8', 'u4', 'u8') and rng.random() < 0.6:
            top = {'i4': 9, 'u4': 9, 'i8': 18, 'u8': 19}[code]
            start = rng.randint(10 ** 6, 10 ** rng.randint(7, top) - 10)     # 7 .. top digits, low digits differ
            vals = [start + rng.randint(0, 3) for _ in range(nrow)]
        elif code[0] == 'i':
            vals = [rng.randint(-100, 100) for _ in range(nrow)]
        elif code[0] == 'u':
            vals = [rng.randint(0, 200) for _ in range(nrow)]
        elif code == 'b1':
            vals = [rng.random() < 0.5 for _ in range(nrow)]
        elif code == 'U':
            vals = [rng.choice(SAFE_WORDS) for _ in range(nrow)]
        else:   # Python list of Python scalars of one sort, or ints and floats mixed
            sort = rng.choice(['int', 'bigint', 'float', 'bool', 'str', 'mixed'])
            vals = [{'int': rng.randint(-5, 5), 'bigint': 12345678 + rng.randint(0, 3) * 10 ** rng.randint(0, 9), 'float': rng.choice([1 / 3, 2.0, 1e-9]), 'bool': rng.random() < 0.5,
                     'str': rng.choice(SAFE_WORDS),
                     'mixed': rng.choice([1, 2.5, 7, 1 / 3])}[sort] for _ in range(nrow)]
        columns.append([code, vals])
    mask = [[rng.random() < 0.3 for _ in range(nrow)] for _ in range(ncol)]
    for spec, msk in zip(columns, mask):
        if spec[0] in ('U', 'list'):
            spec[1] = [blanks_around(rng, val, flag) for val, flag in zip(spec[1], msk)]
    return {'kind': 'coltable', 'headers': [f'h{j}' for j in range(ncol)], 'columns': columns, 'mask': mask,
            'safe': True}


CORPUS = [
    # defects of the pinned tree
    {'kind': 'student', 'shape': [5], 'bins': ['e'], 'fail': [[0, 0, 0, 1, 0]], 'ndf': None,
     'ops': [['get', [[2, None]]]]},                                       # t[2:] lost the mark of row 3
    {'kind': 'equal', 'shape': [2, 3], 'bins': ['e', 'c'], 'fail': [[0, 0, 0, 1, 0, 0]],
     'ops': [['get', [[1, None], [None, 2]]], ['join', [1, 2]]]},
    {'kind': 'equal', 'shape': [2, 3], 'bins': ['e', 'c'], 'fail': [[0, 0, 0, 1, 0, 0]],
     'ops': [['join', [2]]]},                                              # n-d join misaligned
    {'kind': 'bonf', 'shape': [2, 3], 'bins': ['e', 'e'], 'fail': [[0, 0, 1, 0, 0, 0]], 'ndf': 20},  # builtin min
    {'kind': 'bonf', 'shape': [4], 'bins': ['e'], 'fail': [[0, 2, 0, 0]], 'ndf': 20},   # passes, Student fails
    {'kind': 'holm', 'shape': [4], 'bins': ['c'], 'fail': [[0, 2, 0, 0], [0, 0, 0, 0]], 'ndf': 20},
    {'kind': 'bonf', 'shape': [3], 'bins': ['e'], 'fail': [[0, 0, 0], [0, 1, 0]], 'ndf': 20},   # only the 2nd fails
    {'kind': 'holm', 'shape': [3], 'bins': ['c'], 'fail': [[0, 0, 0], [1, 0, 0], [0, 2, 0]], 'ndf': 100},
    {'kind': 'bonf', 'shape': [2, 2], 'bins': ['e', 'c'], 'fail': [[1, 0, 0, 0], [0, 0, 0, 0], [0, 0, 2, 0]], 'ndf': 20},
    {'kind': 'holm', 'shape': [], 'bins': [], 'fail': [[0], [1]], 'ndf': 20},
    # memory layouts: Fortran-ordered / transposed / strided / broadcast arrays, same logical content
    {'kind': 'equal', 'shape': [2, 3], 'bins': ['e', 'c'], 'fail': [[0, 0, 0, 1, 0, 0]], 'lay': 'F',
     'ops': [['get', [[None, None], [1, None]]], ['join', [1]]]},
    {'kind': 'approx', 'shape': [3, 2], 'bins': ['c', 'e'], 'fail': [[0, 1, 0, 0, 0, 0], [0, 0, 0, 0, 1, 0]],
     'lay': 'T', 'rlay': 'C'},
    {'kind': 'equal', 'shape': [2, 2, 2], 'bins': ['e', 'e', 'e'], 'fail': [[0, 0, 1, 0, 0, 0, 0, 0]],
     'lay': 'CCFF', 'rlay': 'F'},
    {'kind': 'student', 'shape': [2, 3], 'bins': ['e', 'e'], 'fail': [[0, 1, 0, 0, 0, 1], [1, 0, 0, 0, 0, 0]],
     'ndf': 20, 'lay': 'FBSNTC', 'const_err': True, 'rlay': 'TF', 'ops': [['get', [[1, None]]]]},
    {'kind': 'holm', 'shape': [3, 2], 'bins': ['c', 'c'], 'fail': [[0, 0, 0, 0, 0, 0], [0, 0, 0, 1, 0, 0]],
     'ndf': 20, 'lay': 'TS', 'rlay': 'FNS'},
    {'kind': 'bonf', 'shape': [4], 'bins': ['e'], 'fail': [[0, 1, 0, 0]], 'ndf': 20, 'lay': 'SN', 'rlay': 'B'},
    # dtypes: every inexact type goes through the number format, the others through str
    {'kind': 'equal', 'shape': [3], 'bins': ['e'], 'fail': [[0, 1, 0]], 'dtype': 'f4', 'ops': [['get', [[1, None]]], ['join', [1]]]},
    {'kind': 'student', 'shape': [2, 2], 'bins': ['e', 'c'], 'fail': [[0, 1, 0, 3]], 'ndf': 20, 'dtype': 'f2', 'edtype': 'f4'},
    {'kind': 'approx', 'shape': [2], 'bins': ['c'], 'fail': [[1, 0], [0, 0]], 'dtype': 'g', 'lay': 'N'},
    {'kind': 'equal', 'shape': [4], 'bins': ['e'], 'fail': [[0, 0, 1, 0]], 'dtype': 'b1'},
    {'kind': 'student', 'shape': [3], 'bins': ['c'], 'fail': [[0, 1, 0]], 'ndf': None, 'dtype': 'i2', 'edtype': 'f4'},
    {'kind': 'bonf', 'shape': [3], 'bins': ['e'], 'fail': [[0, 1, 0], [0, 0, 0]], 'ndf': 20, 'dtype': 'f4', 'edtype': 'f4'},
    {'kind': 'student', 'shape': [], 'bins': [], 'fail': [[1]], 'ndf': 20, 'dtype': 'py'},
    {'kind': 'equal', 'shape': [], 'bins': [], 'fail': [[1], [0]], 'dtype': 'f4'},
    {'kind': 'coltable', 'headers': ['n', 'f4', 'f2', 'g', 'i1', 'b', 'c', 'mixed'], 'safe': True,
     'columns': [['U', ['a', 'b']], ['f4', [1 / 30, 12345.678]], ['f2', [1 / 3, 65000.0]], ['g', [1 / 3, 2.5e-7]],
                 ['i1', [-5, 100]], ['b1', [True, False]], ['c16', [[1 / 3, 2.0], [0.0, -1 / 7]]], ['list', [1, 2.5]]],
     'mask': [[False, False], [True, False], [False, True], [False, False], [False, True], [True, False],
              [False, False], [False, True]]},
    # string cells with blanks around them, highlighted
    {'kind': 'meta', 'names': ['b', 'a', 'c'], 'values': [['v0', 'v11.2 '], ['v0', 'v11.2'], [' v0', 'v11.2\t']]},
    {'kind': 'strtable', 'headers': ['name', 'value'], 'safe': True,
     'cols': [['a ', ' b', 'c\t'], ['x y ', 'v11.2 ', ' ok  ']], 'mask': [[False, False, True], [True, True, True]]},
    # metadata: samples given in non-alphabetical order, keys failing for some samples only
    {'kind': 'meta', 'names': ['zeta', 'alpha', 'Mid'],
     'values': [['v0', 'v1', 'v2'], ['v0', 'w1', 'v2'], ['v0', 'v1', 'x2']]},
    {'kind': 'meta', 'names': ['run9', 'run10', 'apollo', 'T4'],
     'values': [['v0', 'v1'], ['v0', 'v1'], ['w0', 'v1'], ['v0', None]]},
    {'kind': 'meta', 'names': ['b', 'a'], 'values': [['v0', 2.5], ['v0', 3]]},
    # integer quantities of 7-18 digits that differ in the low digits only
    {'kind': 'equal', 'shape': [3], 'bins': ['e'], 'fail': [[0, 1, 0]], 'dtype': 'i8', 'base': 12345678,
     'ops': [['get', [[1, None]]], ['join', [0]]]},
    {'kind': 'equal', 'shape': [2, 2], 'bins': ['e', 'c'], 'fail': [[0, 0, 1, 0], [1, 0, 0, 0]], 'dtype': 'i8',
     'base': 123456789012345678, 'lay': 'F'},
    {'kind': 'approx', 'shape': [2], 'bins': ['c'], 'fail': [[1, 0]], 'dtype': 'u4', 'base': 4000000000},
    {'kind': 'student', 'shape': [3], 'bins': ['e'], 'fail': [[0, 1, 0]], 'ndf': 20, 'dtype': 'i4', 'base': 20000000},
    {'kind': 'equal', 'shape': [], 'bins': [], 'fail': [[1]], 'dtype': 'i8', 'base': 98765432101},
    {'kind': 'coltable', 'headers': ['n', 'i8', 'u8', 'list'], 'safe': True,
     'columns': [['U', ['a', 'b']], ['i8', [12345678, 12345679]], ['u8', [18000000000000000001, 7]],
                 ['list', [1000000, 123456789012]]],
     'mask': [[False, False], [False, True], [False, False], [True, False]]},
    # callable verbosity: one representation for a sequence of results of different levels
    {'kind': 'policy', 'policy': {'by': 'verdict', 'levels': ['SILENT', 'FULL_DETAILS']}, 'subs': [
        {'kind': 'student', 'shape': [3], 'bins': ['e'], 'fail': [[0, 0, 0]], 'ndf': None},
        {'kind': 'student', 'shape': [3], 'bins': ['e'], 'fail': [[0, 1, 0]], 'ndf': None},
        {'kind': 'equal', 'shape': [2], 'bins': ['c'], 'fail': [[1, 0]]}]},
    {'kind': 'policy', 'policy': {'by': 'verdict', 'levels': ['DEVELOPMENT', 'SUMMARY']}, 'subs': [
        {'kind': 'equal', 'shape': [2], 'bins': ['c'], 'fail': [[1, 0]]},
        {'kind': 'equal', 'shape': [2], 'bins': ['c'], 'fail': [[0, 0]]},
        {'kind': 'meta', 'values': [['v0'], ['w0']]}, {'kind': 'tasks', 'counts': [['DONE', 2]]}]},
    {'kind': 'policy', 'policy': {'by': 'kind', 'default': 'SUMMARY',
                                  'map': {'TestResultStudent': 'INTERMEDIATE', 'TestResultMetadata': 'SILENT'}},
     'subs': [{'kind': 'meta', 'values': [['v0'], ['w0']]},
              {'kind': 'student', 'shape': [3], 'bins': ['e'], 'fail': [[0, 1, 0]], 'ndf': 20},
              {'kind': 'holm', 'shape': [3], 'bins': ['e'], 'fail': [[0, 1, 0]], 'ndf': 20}]},
    {'kind': 'policy', 'policy': {'by': 'name', 'default': 'DEFAULT', 'map': {'first': 'SILENT', 'second': 'FULL_DETAILS'}},
     'subs': [{'kind': 'approx', 'shape': [2], 'bins': ['e'], 'fail': [[0, 0]], 'name': 'first'},
              {'kind': 'approx', 'shape': [2], 'bins': ['e'], 'fail': [[0, 1]], 'name': 'second'},
              {'kind': 'bylabels', 'nlab': 1, 'rows': [[['a'], 1, 1, 2]], 'missing': 0}]},
    # histories: earlier renderings modified in place by their holder, then the same kinds again
    {'kind': 'history', 'mut': 'join', 'subs': [
        {'kind': 'student', 'shape': [3], 'bins': ['e'], 'fail': [[0, 0, 0]], 'ndf': None},
        {'kind': 'student', 'shape': [3], 'bins': ['e'], 'fail': [[0, 1, 0]], 'ndf': None}]},
    {'kind': 'history', 'mut': 'mark', 'subs': [
        {'kind': 'equal', 'shape': [2], 'bins': ['c'], 'fail': [[0, 0]]},
        {'kind': 'equal', 'shape': [2], 'bins': ['c'], 'fail': [[1, 0]]},
        {'kind': 'meta', 'values': [['v0'], ['v0']]}, {'kind': 'meta', 'values': [['v0'], ['w0']]}]},
    {'kind': 'history', 'mut': 'unmark', 'subs': [
        {'kind': 'holm', 'shape': [3], 'bins': ['e'], 'fail': [[0, 1, 0], [0, 0, 0]], 'ndf': 20},
        {'kind': 'holm', 'shape': [3], 'bins': ['e'], 'fail': [[0, 0, 0], [0, 0, 0]], 'ndf': 20},
        {'kind': 'approx', 'shape': [2], 'bins': ['e'], 'fail': [[0, 1]]},
        {'kind': 'approx', 'shape': [2], 'bins': ['e'], 'fail': [[0, 0]]}]},
    {'kind': 'tasks', 'counts': []},                                       # empty summary
    {'kind': 'tests', 'counts': []},
    {'kind': 'tasks', 'counts': [['FAILED', 2]]},                          # first row is a failure
    {'kind': 'tasks', 'counts': [['DONE', 2], ['FAILED', 0]]},             # false without failing row
    {'kind': 'tests', 'counts': [['SUCCESS', 1], ['FAILURE', 1], ['MISSING', 2]]},
    {'kind': 'student', 'shape': [], 'bins': [], 'fail': [[1], [0]], 'ndf': None},
    {'kind': 'student', 'shape': [2, 1, 3], 'bins': ['e', 'c', 'e'], 'fail': [[0, 1, 0, 0, 0, 3]], 'ndf': 20},
    {'kind': 'approx', 'shape': [1], 'bins': ['c'], 'fail': [[1]]},
    {'kind': 'meta', 'values': [['v0', 'v1'], ['v0', 'w1'], ['v0', None]]},
    {'kind': 'bylabels', 'nlab': 2, 'rows': [[['a', 'b'], 2, 0, 2], [['a', 'c'], 1, 2, 3]], 'missing': 1},
    {'kind': 'bylabels', 'nlab': 1, 'rows': [[['a'], 2, 0, 2]], 'missing': 0},
    {'kind': 'failed', 'msg': 'it went wrong'},
    {'kind': 'strtable', 'headers': ['status', 'counts'], 'cols': [['DONE', 'total'], ['1/1', '1/1']],
     'mask': [[False], [False]], 'safe': False},                           # short highlights drop a row
    {'kind': 'strtable', 'headers': ['a', 'b'], 'cols': [['x', ''], ['', 'y']],
     'mask': [[False, True], [True, False]], 'safe': False},
]


def gen_history_case(rng):
    '''sub-cases of one kind with both outcomes (and sometimes one of another kind), and how the
    holder of the first renderings modifies them in place'''
    kind = rng.choice(['equal', 'approx', 'student', 'student', 'bonf', 'holm', 'meta', 'tasks', 'tests',
                       'bylabels'])
    if kind in DATA_KINDS + CORR_KINDS:
        base = gen_data_case(rng, kind)
        base.pop('ops', None)
        nbin = int(np.prod(base['shape'])) if base['shape'] else 1
        passing = dict(base, fail=[[0] * nbin for _ in base['fail']])
        failing = dict(base, fail=[[0] * nbin for _ in base['fail']])
        failing['fail'][-1] = list(failing['fail'][-1])
        failing['fail'][-1][rng.randrange(nbin)] = 1
        subs = [passing, failing] + ([base] if rng.random() < 0.4 else [])
    elif kind == 'meta':
        subs = [{'kind': 'meta', 'values': [['v0', 'v1'], ['v0', 'v1']]},
                {'kind': 'meta', 'values': [['v0', 'v1'], ['v0', 'w1']]}, gen_meta_case(rng)]
    elif kind in ('tasks', 'tests'):
        okname, koname = ('DONE', 'FAILED') if kind == 'tasks' else ('SUCCESS', 'FAILURE')
        subs = [{'kind': kind, 'counts': [[okname, rng.randint(1, 4)]]},
                {'kind': kind, 'counts': [[okname, 1], [koname, rng.randint(1, 3)]]}, gen_stats_case(rng, kind)]
    else:
        subs = [{'kind': 'bylabels', 'nlab': 1, 'rows': [[['a'], 2, 0, 2], [['b'], 1, 0, 1]], 'missing': 0},
                {'kind': 'bylabels', 'nlab': 1, 'rows': [[['a'], 2, 0, 2], [['b'], 0, 1, 1]], 'missing': 0},
                gen_labels_case(rng)]
    rng.shuffle(subs)
    if rng.random() < 0.3:
        subs.append(gen_data_case(rng, rng.choice(DATA_KINDS)))
        subs[-1].pop('ops', None)
    return {'kind': 'history', 'subs': subs, 'mut': rng.choice(['mark', 'unmark', 'join'])}


RESULT_CLASSES = {'equal': 'TestResultEqual', 'approx': 'TestResultApproxEqual', 'student': 'TestResultStudent',
                  'bonf': 'TestResultBonferroni', 'holm': 'TestResultHolmBonferroni', 'meta': 'TestResultMetadata',
                  'tasks': 'TestResultStatsTasks', 'tests': 'TestResultStatsTests',
                  'bylabels': 'TestResultStatsTestsByLabels', 'failed': 'TestResultFailed'}


def gen_policy_case(rng):
    '''a sequence of results (both outcomes, possibly several kinds) and a verbosity policy that is a
    function of the result: by verdict, by kind (class of the result) or by test name'''
    subs = list(gen_history_case(rng)['subs'])
    if rng.random() < 0.5:
        subs += gen_history_case(rng)['subs'][:2]
    for k, sub in enumerate(subs):
        if sub['kind'] in DATA_KINDS:
            sub['name'] = f'test {k}'
    rng.shuffle(subs)
    subs = subs[:5]
    by = rng.choice(['verdict', 'verdict', 'kind', 'name'])
    if by == 'verdict':
        levels = rng.sample(VERBS, 2)
        policy = {'by': 'verdict', 'levels': levels}
    elif by == 'kind':
        kinds = sorted({sub['kind'] for sub in subs})
        policy = {'by': 'kind', 'default': rng.choice(VERBS),
                  'map': {RESULT_CLASSES[k]: rng.choice(VERBS) for k in kinds if rng.random() < 0.8}}
    else:
        policy = {'by': 'name', 'default': rng.choice(VERBS),
                  'map': {sub['name']: rng.choice(VERBS) for sub in subs if 'name' in sub}}
    return {'kind': 'policy', 'subs': subs, 'policy': policy}


def gen_cases(ctx):
    rng = ctx.rng
    quick = ctx.tier == 'quick'
    cases = [dict(c) for c in CORPUS]
    nres = 120 if quick else 3000
    kinds = ['equal', 'approx', 'student', 'student', 'bonf', 'holm', 'meta', 'tasks', 'tests', 'bylabels']
    for i in range(nres):
        kind = kinds[i % len(kinds)]
        if kind in DATA_KINDS + CORR_KINDS:
            case = gen_data_case(rng, kind, big=not quick and rng.random() < 0.2)
        elif kind == 'meta':
            case = gen_meta_case(rng)
        elif kind in ('tasks', 'tests'):
            case = gen_stats_case(rng, kind)
        else:
            case = gen_labels_case(rng)
        cases.append(case)
    for i in range(60 if quick else 1500):
        cases.append(gen_str_case(rng, safe=i % 2 == 0))
    for i in range(30 if quick else 800):
        cases.append(gen_col_case(rng))
    for i in range(16 if quick else 300):
        cases.append(gen_history_case(rng))
    for i in range(14 if quick else 250):
        cases.append(gen_policy_case(rng))
    return cases


def _work(chunk):
    out = []
    for case in chunk:
        try:
            rec = run_case(case)
        except Exception as exc:  # noqa
            import traceback
            rec = Rec(case)
            rec.fail(f'harness error {type(exc).__name__}: {traceback.format_exc()[-600:]}', 'harness-error')
        out.append(rec)
    return out


def run_all(cases):
    nproc = max(1, min(common.NPROC, 14, len(cases) // 8 or 1))
    if nproc == 1:
        return _work(cases)
    chunks = [cases[k::nproc] for k in range(nproc)]
    with multiprocessing.get_context('fork').Pool(nproc) as pool:
        parts = pool.map(_work, chunks)
    recs = [None] * len(cases)
    for k, part in enumerate(parts):
        recs[k::nproc] = part
    return recs


def coq_shards(texts, ctype, checker, size):
    shards = []
    for k in range(0, len(texts), size):
        chunk = texts[k:k + size]
        shards.append(f'Definition cases : list ({ctype}) :=\n ' + clist(chunk).replace('); (', ');\n (')
                      + f'.\nEval vm_compute in bad_indices (map {checker} cases).')
    return shards


def run(ctx):
    common.import_repo()
    ctx.rule = ('result objects of every kind (equal, approx-equal, Student, Bonferroni, Holm-Bonferroni, metadata, '
                'statistics of tasks / tests / by labels, failed) built from planted failing patterns '
                '(0..3-d shapes incl. scalars and unit dimensions, 1-3 datasets), each rendered at the 6 '
                'verbosities by the Table, FullTable and Full representers; detailed tables sliced / joined; '
                'hand-made string tables.  Non-trivial = a false result rendered as a table (or a string '
                'table with a highlighted cell); distinct by case content')
    cases = gen_cases(ctx)
    recs = run_all(cases)
    renders, tops, strs = [], [], []
    for rec in recs:
        for key, num in rec.counts.items():
            ctx.count(key, num)
        for what, key in rec.failures:
            ctx.oracle_failure(what, rec.case, key=key)
        for note in rec.notes:
            if note not in ctx.notes and len(ctx.notes) < 10:
                ctx.notes.append(note)
        ctx.case_seen(rec.case, rec.nontrivial, sample_every=97)
        if rec.renders:
            renders.append((rec.renders, rec.case))
        renders += [(r, rec.case) for r in rec.extra_renders]
        tops += [(t, rec.case) for t in rec.tops]
        strs += [(s, rec.case) for s in rec.strs]
    groups = [
        ('abstract templates of the renderings', renders,
         'result * list (representer * verb * list template)', 'check_result', 60),
        ('TableTemplate slicing / joining', tops, 'ttab * top * res ttab', 'check_top', 200),
        ('str(RstTable) and its reading back', strs,
         'list str * list (list str) * list (list bool) * option str * bool', 'check_str_case', 150),
    ]
    shards, index = [], []
    for what, items, ctype, checker, size in groups:
        sh = coq_shards([t for t, _ in items], ctype, checker, size)
        for k, body in enumerate(sh):
            shards.append(body)
            index.append((what, items, k * size))
    outs = common.coq_eval(ctx.pid, IMPORTS, shards)
    for (what, items, base), out in zip(index, outs):
        for i in common.parse_nat_list(out):
            ctx.mismatch(f'{what}: model and implementation differ', {'case': items[base + i][1]})
    ctx.extra['model_cases_compared'] = {'renderings_grouped_by_result': len(renders),
                                         'table_ops': len(tops), 'string_tables': len(strs)}
    ctx.assumptions = [
        'docutils is the reader of the oracle; the Sphinx role :ref: is registered as a generic role',
        'cell texts are the formatted inputs ("{:11.6g}" for floats, str otherwise), computed by the harness',
        'Full representer: renderings where plot_repr raises (unit dimensions; not anchored by C12) are skipped '
        'and counted as full_representer_plot_error',
        'empty tables are not rendered by RstTable (np.nditer raises ValueError): empty selections are only '
        'compared as templates',
    ]


def replay(ctx, path):
    common.import_repo()
    data = json.load(open(path))
    case = data['case']
    if isinstance(case, dict) and 'case' in case and 'kind' not in case:
        case = case['case']
    rec = run_case(case)
    print('case:', json.dumps(case))
    if case['kind'] not in ('strtable', 'coltable', 'history', 'policy'):
        from valjean.javert.representation import Representation
        from valjean.javert.rst import Rst
        from valjean.javert.verbosity import Verbosity
        result = build_result(case)
        print('bool(result) =', bool(result))
        for rep in REPS:
            for vname in VERBS[1:]:
                try:
                    lines = Rst(representation=Representation(representer(rep), verbosity=Verbosity[vname])) \
                        .format_result(build_result(case))
                    print(f'--- impl {rep} {vname}\n' + '\n'.join(lines))
                except Exception as exc:  # noqa
                    print(f'--- impl {rep} {vname}: raises {type(exc).__name__}: {exc}')
    for what, key in rec.failures:
        print('oracle:', key, '::', what[:600])
    bodies = []
    for text in ([rec.renders] if rec.renders else []) + rec.extra_renders:
        bodies.append('Eval vm_compute in (let c := ' + text + ' in '
                      '(check_result c, map (fun x => render (fst (fst x)) (fst c) (snd (fst x))) (snd c))).')
    for top in rec.tops:
        bodies.append('Eval vm_compute in (let c := ' + top + ' in (check_top c, run_top (fst (fst c)) (snd (fst c)))).')
    for s in rec.strs:
        bodies.append('Eval vm_compute in check_str_case ' + s + '.')
    if bodies:
        print('model:', common.coq_eval(ctx.pid, IMPORTS, ['\n'.join(bodies)])[0][:6000])
    return 0

'''C18: diagnostic statistics (valjean.gavroche.diagnostics.stats).  Implementation
vs the Coq model C18/Model.v, plus the property oracle (brute-force counting
with Python lists/dicts as ground truth).'''
import json

from vp import common
from vp.common import cz, cn, cb, clist

IMPORTS = '''From Coq Require Import List ZArith.
From VV Require Import Lib.Base C17.LibDict C17.Model C18.Model.
Import ListNotations.
'''

STATUSES = ['WAITING', 'PENDING', 'DONE', 'FAILED', 'SKIPPED']
OUTCOMES = ['SUCCESS', 'FAILURE', 'MISSING', 'NOT_A_TEST']


class Codes:
    '''==-classes of label values / names as integers (ints are themselves)'''

    def __init__(self, strings=()):
        self.keys = ['_test_name', '_result']
        # strings are numbered in their sorted order so that the model can sort rows as Python does
        self.vals = sorted(set(strings))

    def key(self, k):
        if k not in self.keys:
            self.keys.append(k)
        return self.keys.index(k)

    def val(self, v):
        if isinstance(v, (bool, int, float)) and v == int(v) and abs(v) < 10 ** 6:
            return int(v)
        for n, other in enumerate(self.vals):
            if other == v:
                return 10 ** 6 + n
        self.vals.append(v)
        return 10 ** 6 + len(self.vals) - 1

    def pv(self, v):
        return f'(H {cz(self.val(v))})'


# ---------------------------------------------------------------------------
# generator

LABEL_KEYS = ['day', 'meal', 'cat', 'n']
LABEL_VALS = {'day': ['mon', 'tue', 'wed'], 'meal': ['lunch', 'dinner'], 'cat': ['a', 'b', 'c', ''],
              'n': [1, 1.0, True, 2, 0, False]}
JUNK = ['str', 'none', 'zero', 'dict', 'list']
# task names: plain ones, and names with dots, with the suffixes of valjean's own helper tasks
# (<name>.stats, <name>.stats.eval, .eval), names of diagnostics helpers, odd ones
ODD_TASK_NAMES = ['mesh.stats', 'tripoli.stats', 'x.stats.eval', 'run.eval', 'stats', '.stats', 'a.b.c',
                  'task_stats', 'test_stats', 'test_stats_by_labels', 'name.stats.stats', 'stats.eval',
                  'equal.stats', 'delays.stats.eval', 'report', 'index', '', ' ', 'x.STATS', 'a/b', 'é.stats']


def gen_labels(rng):
    r = rng.random()
    if r < 0.12:
        return None
    labs = []
    for key in LABEL_KEYS:
        if rng.random() < 0.65:
            labs.append([key, rng.choice(LABEL_VALS[key])])
    if rng.random() < 0.04:
        labs.append([rng.choice(['_result', '_test_name']), 'user'])
    rng.shuffle(labs)
    return labs


def gen_case(rng):
    ntasks = rng.choice([0, 0, 1, 1, 2, 3, 4, 5, 6, 8, 10, 15])
    tnames = [f't{k}' for k in range(max(1, ntasks // 2 + 1))]
    names = [f'test{k}' for k in range(4)]
    allgood = rng.random() < 0.2        # so that successful summaries are not rare
    nojunk = rng.random() < 0.7
    tasks = []
    for k in range(ntasks):
        r0 = rng.random()
        tname = rng.choice(tnames) if r0 < 0.25 else rng.choice(ODD_TASK_NAMES) if r0 < 0.5 else f'task{k}'
        status = 'DONE' if allgood or rng.random() < 0.5 else rng.choice(STATUSES)
        r = rng.random()
        if r < (0.03 if allgood else 0.15):
            result = None
        else:
            result = []
            for _ in range(rng.choice([0, 1, 1, 2, 2, 3, 4])):
                r2 = rng.random()
                verdict = True if allgood and rng.random() < 0.97 else rng.random() < 0.6
                name = rng.choice(names) if rng.random() < 0.4 else f'{tname}.r{len(result)}'
                if not nojunk and r2 < 0.12:
                    result.append(['junk', rng.choice(JUNK)])
                elif r2 < 0.5:
                    result.append(['fake', verdict, name, gen_labels(rng)])
                else:
                    result.append(['meta', verdict, name, gen_labels(rng)])
        tasks.append([tname, status, result])
    selections = []
    for _ in range(3):
        n = rng.choice([1, 1, 2, 2, 3])
        pool = LABEL_KEYS + (['_result', '_test_name'] if rng.random() < 0.15 else []) \
            + (['absent'] if rng.random() < 0.08 else [])
        selections.append(rng.sample(pool, min(n, len(pool))))
    # groups of tests created with the IDENTICAL labels dictionary object (labels=common_labels), with
    # different verdicts: one or two common dictionaries given to most tests of the collection
    share = rng.random() < 0.35
    if share:
        commons = [c for c in (gen_labels(rng) for _ in range(rng.choice([1, 2]))) if c is not None]
        for _tname, _status, result in tasks:
            for spec in result or ():
                if spec[0] != 'junk' and commons and rng.random() < 0.8:
                    spec[3] = [list(kv) for kv in rng.choice(commons)]
    return {'tasks': tasks, 'by_labels': selections, 'share_labels': share}


CORPUS = [
    # defects of the pinned tree: a non-TestResult item; empty summaries
    {'tasks': [['t0', 'DONE', [['fake', True, 'a', [['day', 'mon']]], ['junk', 'str'],
                               ['fake', False, 'b', [['day', 'mon']]]]]],
     'by_labels': [['day']]},
    {'tasks': [['t0', 'DONE', [['junk', 'none'], ['junk', 'zero']]]], 'by_labels': [['day']]},
    {'tasks': [], 'by_labels': [['day']]},
    {'tasks': [['t0', 'DONE', []], ['t1', 'DONE', []]], 'by_labels': [['day']]},
    # the doc example of test_stats_by_labels
    {'tasks': [['orders', 'DONE',
                [['meta', True, 'gt_wday_lunch', [['day', 'Wednesday'], ['meal', 'lunch']]],
                 ['meta', False, 'me_wday_dinner', [['day', 'Wednesday'], ['meal', 'dinner']]],
                 ['meta', True, 'jt_wday', [['day', 'Wednesday']]],
                 ['meta', True, 'Xmasday', [['day', 'Christmas Eve']]]]]],
     'by_labels': [['day'], ['meal'], ['meal', 'day'], ['day', 'meal']]},
    # repeated names, missing results, every status, 1/1.0/True label values
    {'tasks': [['t', 'DONE', None], ['t', 'FAILED', [['fake', True, 'x', [['n', 1]]]]],
               ['u', 'SKIPPED', [['fake', True, 'x', [['n', 1.0]]], ['fake', False, 'x', [['n', True]]]]],
               ['v', 'WAITING', None], ['w', 'PENDING', [['meta', True, 'y', None]]]],
     'by_labels': [['n'], ['n', 'day'], ['_result'], ['_test_name', 'n']]},
    {'tasks': [['t', 'DONE', [['fake', True, 'x', [['day', 'mon']]]]], ['u', 'DONE', [['meta', True, 'y', [['day', 'tue']]]]]],
     'by_labels': [['day'], ['absent'], ['day', 'absent']]},
]


# ---------------------------------------------------------------------------

CALLER_LABELS = []


def make_objects(case):
    from valjean.cosette.task import TaskStatus
    from valjean.gavroche.test import Test, TestResult
    from valjean.gavroche.diagnostics.metadata import TestMetadata

    class FakeTest(Test):
        def evaluate(self):
            return FakeResult(self)

    class FakeResult(TestResult):
        def __init__(self, test, verdict=True):
            super().__init__(test)
            self.verdict = verdict

        def __bool__(self):
            return self.verdict

    junk = {'str': 'not a test', 'none': None, 'zero': 0, 'dict': {'x': 1}, 'list': []}
    task_results = []
    shared = {}              # label content -> the one dictionary object given to every test with these labels
    CALLER_LABELS.clear()    # (dictionary object given by the caller, its items at that time)
    for tname, status, result in case['tasks']:
        tres = {'status': TaskStatus[status]}
        if result is not None:
            items = []
            for spec in result:
                if spec[0] == 'junk':
                    items.append(junk[spec[1]])
                    continue
                labels = None if spec[3] is None else dict((k, v) for k, v in spec[3])
                if labels is not None and case.get('share_labels'):
                    labels = shared.setdefault(repr(sorted(labels.items(), key=repr)), labels)
                if labels is not None:
                    CALLER_LABELS.append((labels, list(labels.items())))
                if spec[0] == 'fake':
                    items.append(FakeResult(FakeTest(name=spec[2], labels=labels), spec[1]))
                else:
                    mds = {'a': {'k': 1, 'j': 'x'}, 'b': {'k': 1 if spec[1] else 2, 'j': 'x'}}
                    items.append(TestMetadata(mds, name=spec[2], labels=labels).evaluate())
            tres['result'] = items
        task_results.append((tname, tres))
    return task_results, TestResult


def coq_tests(codes, task_results, TestResult, fingerprint):
    tasks = []
    for tname, tres in task_results:
        if 'result' not in tres:
            tasks.append(f'({cz(codes.val(tname))}, None)')
            continue
        items = []
        for it in tres['result']:
            if not isinstance(it, TestResult):
                items.append('NotATest')
            else:
                labs = clist([f'({cz(codes.key(k))}, {codes.pv(v)})' for k, v in it.test.labels.items()])
                items.append(f'(TR {cb(bool(it))} {cz(codes.val(it.test.name))} '
                             f'{cz(codes.val("fp:" + fingerprint(it.test)))} {labs})')
        tasks.append(f'({cz(codes.val(tname))}, Some {clist(items)})')
    return clist(tasks)


COUNT_STEPS = []


def check_rendering(ctx, case, res, kind, observed):
    '''the counted summary as RENDERED: classification_counts, the table and the pie chart of the result must
    show, per status, the number (and names) of the observed items -- and rendering is read-only.
    observed: list of (status name, item name) counted directly from the inputs'''
    import re
    from valjean.gavroche.diagnostics import stats
    from valjean.cosette.task import TaskStatus
    from valjean.javert import representation as rp
    from valjean.javert.verbosity import Verbosity
    enum_names, ok_enum = (STATUSES, TaskStatus.DONE) if kind == 'tasks' else (OUTCOMES, stats.TestOutcome.SUCCESS)
    order = [ok_enum.name] + [n for n in enum_names if n != ok_enum.name]
    want = [(st, sum(1 for s, _ in observed if s == st)) for st in order]
    want = [(st, n) for st, n in want if n]
    total = len(observed)
    keys0 = [(k.name, len(v)) for k, v in res.classify.items()]
    pattern = ''.join('1' if any(s == st for s, _ in observed) else '0' for st in enum_names)
    ctx.count(f'{kind}_null_pattern_{pattern}')
    # classification_counts
    try:
        statuses, counts = stats.classification_counts(res.classify, ok_enum)
        got = list(zip([s.name for s in statuses], counts))
    except Exception as exc:  # noqa
        got = type(exc).__name__
    if got != want:
        ctx.oracle_failure(f'classification_counts of the {kind} summary gives {got}, the observed items count '
                           f'{want} :: {case}', case, key='rendered-counts')
    else:
        cls = clist([f'({cn(enum_names.index(k.name))}, {clist([cz(j) for j, _ in enumerate(v)])})'
                     for k, v in res.classify.items()])
        COUNT_STEPS.append((case, f'({cn(len(enum_names))}, {cn(enum_names.index(ok_enum.name))}, {cls}, '
                                  + clist([f'({cn(enum_names.index(st))}, {cn(n)})' for st, n in got]) + ')'))
    # the table: rows (status, count/total (percent)) located by content, and the listed names per status
    for verb in ('DEFAULT',):
        try:
            templates = rp.Representation(rp.TableRepresenter(), Verbosity[verb])(res)
        except Exception as exc:  # noqa
            ctx.oracle_failure(f'the table of the {kind} summary raises {type(exc).__name__} :: {case}', case,
                               key='rendered-table-raises-' + type(exc).__name__)
            continue
        tables = [t for t in templates if hasattr(t, 'columns')]
        texts = [str(t.text) for t in templates if hasattr(t, 'text')]
        rows = None
        for table in tables:
            cols = [[str(x) for x in col] for col in table.columns]
            scol = [c for c in cols if c and all(x in enum_names for x in c[:-1]) and c[-1] not in enum_names]
            ccol = [c for c in cols if c and all(re.match(r'\d+/\d+', x) for x in c)]
            if len(scol) == 1 and len(ccol) == 1 and len(scol[0]) == len(ccol[0]):
                rows = list(zip(scol[0], ccol[0]))
        if rows is None:
            ctx.count('table_layout_unreadable')
        else:
            shown = []
            for st, cell in rows[:-1]:
                m = re.match(r'(\d+)/(\d+)\D*([\d.]+|\?+)', cell)
                shown.append((st, int(m.group(1)), int(m.group(2)), m.group(3)))
            bad = [(st, n) for st, n, _, _ in shown] != want or any(den != total for _, _, den, _ in shown)
            for _, n, den, pct in shown:
                if den and '?' not in pct and abs(float(pct) - 100.0 * n / den) > 0.06:
                    bad = True
            mtot = re.match(r'(\d+)/(\d+)', rows[-1][1])
            if (int(mtot.group(1)), int(mtot.group(2))) != (total, total):
                bad = True
            if bad:
                ctx.oracle_failure(f'the {verb} table of the {kind} summary shows {rows}, the observed items count '
                                   f'{want} of {total} :: {case}', case, key='rendered-table')
        for text in texts:
            for m in re.finditer(r'with status (\w+):(.*?)(?=List of|\Z)', text, re.S):
                names = []
                for line in m.group(2).split('\n'):
                    line = line.strip()
                    if line == '#.' or line.startswith('#. '):
                        ref = re.match(r'#\. :ref:`(.*) <anchor_', line)
                        names.append((ref.group(1) if ref else line[3:]).strip())
                direct = sorted(str(n).strip() for s, n in observed if s == m.group(1))
                if sorted(names) != direct:
                    ctx.oracle_failure(f'the {kind} summary lists {sorted(names)} under {m.group(1)}, observed '
                                       f'{direct} :: {case}', case, key='rendered-names')
    # the pie chart
    try:
        plots = rp.Representation(rp.PlotRepresenter(), Verbosity.DEFAULT)(res)
        curve = plots[0].subplots[0].curves[0]
        pie = [(str(b), int(v)) for b, v in zip(curve.bins[0], curve.values)]
    except Exception:  # noqa   (another layout of the plot template: not the property's business)
        pie = None
        ctx.count('plot_layout_unreadable')
    if pie is not None and pie != want:
        ctx.oracle_failure(f'the pie chart of the {kind} summary shows {pie}, the observed items count {want} '
                           f':: {case}', case, key='rendered-pie')
    if [(k.name, len(v)) for k, v in res.classify.items()] != keys0:
        ctx.oracle_failure(f'rendering the {kind} summary changes its recorded classification: {keys0} -> '
                           f'{[(k.name, len(v)) for k, v in res.classify.items()]} :: {case}', case,
                           key='rendering-not-read-only')


def run_impl(ctx, case, steps):
    from valjean.cosette.task import TaskStatus
    from valjean.gavroche.diagnostics import stats
    from valjean.fingerprint import fingerprint
    task_results, TestResult = make_objects(case)
    strings = set()
    for tname, tres in task_results:
        strings.add(tname)
        for it in tres.get('result', ()):
            if isinstance(it, TestResult):
                strings.add(it.test.name)
                strings.add('fp:' + fingerprint(it.test))
                strings.update(v for v in it.test.labels.values() if isinstance(v, str))
    codes = Codes(strings)
    nontrivial = False

    # ---- tasks by status
    ctx.count('tasks_summary')
    try:
        res = stats.TestStatsTasks(name='s', task_results=task_results).evaluate()
        classify = {st: [nf.name for nf in lst] for st, lst in res.classify.items()}
        verdict = bool(res)
    except Exception as exc:  # noqa
        ctx.oracle_failure(f'task statistics raise {type(exc).__name__} :: {case}', case,
                           key='tasks-raises-' + type(exc).__name__)
        classify, verdict = None, None
    if classify is not None:
        for st in TaskStatus:
            want = [tn for tn, tr in task_results if tr['status'] == st]
            if classify.get(st, []) != want:
                ctx.oracle_failure(f'tasks with status {st.name}: listed {classify.get(st, [])}, observed '
                                   f'{want} :: {case}', case, key='tasks-classes')
        if sum(len(v) for v in classify.values()) != len(task_results):
            ctx.oracle_failure(f'task counts do not sum to the number of tasks :: {case}', case,
                               key='tasks-sum')
        want_v = all(tr['status'] == TaskStatus.DONE for _, tr in task_results)
        if verdict != want_v:
            ctx.oracle_failure(f'task summary is {verdict} but all-DONE is {want_v} '
                               f'({len(task_results)} tasks) :: {case}', case,
                               key='tasks-verdict' + ('-empty' if not task_results else ''))
        ctx.count('tasks_verdict_%s' % verdict)
        ts = clist([f'({cz(codes.val(tn))}, {cn(STATUSES.index(tr["status"].name))})'
                    for tn, tr in task_results])
        cls = clist([f'({cn(STATUSES.index(st.name))}, {clist([cz(codes.val(n)) for n in lst])})'
                     for st, lst in classify.items()])
        steps.append((case, 'tasks', f'(ZTasks {ts} {cls} {cb(verdict)})'))
        check_rendering(ctx, case, res, 'tasks', [(tr['status'].name, tn) for tn, tr in task_results])
        nontrivial = nontrivial or len(classify) > 1

    # ---- test results by outcome
    ctx.count('tests_summary')
    ztests = coq_tests(codes, task_results, TestResult, fingerprint)
    observed = []
    for tn, tr in task_results:
        if 'result' not in tr:
            observed.append(('MISSING', tn, None))
            continue
        for it in tr['result']:
            if not isinstance(it, TestResult):
                observed.append(('NOT_A_TEST', tn, None))
                ctx.count('junk_items')
            else:
                observed.append(('SUCCESS' if it else 'FAILURE', it.test.name, fingerprint(it.test)))
    try:
        res = stats.TestStatsTests(name='s', task_results=task_results).evaluate()
        classify = {oc.name: [(nf.name, nf.fingerprint) for nf in lst] for oc, lst in res.classify.items()}
        verdict = bool(res)
    except Exception as exc:  # noqa
        ctx.oracle_failure(f'test statistics raise {type(exc).__name__} :: {case}', case,
                           key='tests-raises-' + type(exc).__name__)
        classify = None
    if classify is not None:
        for oc in OUTCOMES:
            want = [(n, f) for o, n, f in observed if o == oc]
            if classify.get(oc, []) != want:
                ctx.oracle_failure(f'{oc}: listed {classify.get(oc, [])}, observed {want} :: {case}', case,
                                   key='tests-classes')
        if sum(len(v) for v in classify.values()) != len(observed):
            ctx.oracle_failure(f'test counts do not sum to the number of results :: {case}', case,
                               key='tests-sum')
        want_v = all(o == 'SUCCESS' for o, _, _ in observed)
        if verdict != want_v:
            ctx.oracle_failure(f'test summary is {verdict} but all-succeeded is {want_v} '
                               f'({len(observed)} observations) :: {case}', case,
                               key='tests-verdict' + ('-empty' if not observed else ''))
        ctx.count('tests_verdict_%s' % verdict)
        cls = clist(['(' + cn(OUTCOMES.index(oc)) + ', '
                     + clist([f'({cz(codes.val(n))}, ' + ('None' if f is None else
                                                          f'Some {cz(codes.val("fp:" + f))}') + ')'
                              for n, f in lst]) + ')' for oc, lst in classify.items()])
        steps.append((case, 'tests', f'(ZTests {ztests} {cls} {cb(verdict)})', (ztests, cls, cb(verdict))))
        check_rendering(ctx, case, res, 'tests', [(o, n) for o, n, _ in observed])
        nontrivial = nontrivial or len(classify) > 1

    # ---- by labels
    results = [it for _, tr in task_results for it in tr.get('result', ()) if isinstance(it, TestResult)]
    ldicts = []
    for it in results:
        dic = dict(it.test.labels)
        dic['_test_name'] = it.test.name
        dic['_result'] = 0 if it else 1
        ldicts.append(dic)
    overall = None if classify is None else (len(classify.get('SUCCESS', [])), len(classify.get('FAILURE', [])))
    for by_labels in case['by_labels']:
        ctx.count('by_labels_%d' % len(by_labels))
        zbl = clist([cz(codes.key(k)) for k in by_labels])
        known = set(k for dic in ldicts for k in dic)
        try:
            res = stats.TestStatsTestsByLabels(name='s', task_results=task_results,
                                               by_labels=tuple(by_labels)).evaluate()
        except Exception as exc:  # noqa
            name = type(exc).__name__
            if name == 'TestStatsTestsByLabelsException' and not set(by_labels) <= known:
                ctx.count('by_labels_absent_label')
                steps.append((case, 'bylabels', f'(ZByLabels {ztests} {zbl} (Raise 0%nat))', (zbl, '(Raise 0%nat)')))
            else:
                ctx.oracle_failure(f'statistics by labels {by_labels} raise {name} :: {case}', case,
                                   key='bylabels-raises-' + name)
                steps.append((case, 'bylabels', f'(ZByLabels {ztests} {zbl} (Raise 9%nat))', (zbl, '(Raise 9%nat)')))
            continue
        if not set(by_labels) <= known:
            ctx.oracle_failure(f'label of {by_labels} absent from every test but no exception :: {case}',
                               case, key='bylabels-no-exception')
        groups = []          # brute-force group-by (== on tuples)
        missing = 0
        for dic in ldicts:
            if not all(k in dic for k in by_labels):
                missing += 1
                continue
            tup = tuple(dic[k] for k in by_labels)
            for grp in groups:
                if grp[0] == tup:
                    break
            else:
                grp = [tup, 0, 0]
                groups.append(grp)
            grp[1 + dic['_result']] += 1
        got = [(tuple(r['labels']), r['OK'], r['KO'], r['total']) for r in res.classify]
        want = [(g[0], g[1], g[2], g[1] + g[2]) for g in groups]
        if len(got) != len(want) or any(g not in want for g in got) or any(w not in got for w in want):
            ctx.oracle_failure(f'by {by_labels}: rows {got}, a direct count gives {want} :: {case}', case,
                               key='bylabels-rows')
        if any(ok + ko != tot for _, ok, ko, tot in got):
            ctx.oracle_failure(f'by {by_labels}: OK + KO != total in {got} :: {case}', case,
                               key='bylabels-ok-ko-total')
        if res.n_labels != len(results) or res.nb_missing_labels() != missing \
                or sum(r['total'] for r in res.classify) + res.nb_missing_labels() != len(results):
            ctx.oracle_failure(f'by {by_labels}: {res.n_labels} results / {res.nb_missing_labels()} missing, '
                               f'observed {len(results)} / {missing} :: {case}', case, key='bylabels-missing')
        oracles = list(res.oracles())
        if oracles != [r['OK'] == r['total'] for r in res.classify] \
                or bool(res) != all(g[2] == 0 for g in groups):
            ctx.oracle_failure(f'by {by_labels}: summary is {bool(res)}, failures per row '
                               f'{[g[2] for g in groups]} :: {case}', case, key='bylabels-verdict')
        rows = clist(['(mk_row ' + clist([codes.pv(v) for v in r['labels']])
                      + f' {cn(r["OK"])} {cn(r["KO"])} {cn(r["total"])})' for r in res.classify])
        out = (f'(Ok ({rows}, {cn(res.n_labels)}, {clist([cb(o) for o in oracles])}, {cb(bool(res))}, '
               f'{cn(res.nb_missing_labels())}))')
        steps.append((case, 'bylabels', f'(ZByLabels {ztests} {zbl} {out})', (zbl, out)))
        nontrivial = nontrivial or len(got) > 1
        if missing:
            ctx.count('by_labels_with_missing')
        # the by-labels successes / failures are those of the overall test summary (all of them when no
        # result lacks a label)
        if overall is not None:
            sok, sko = sum(r['OK'] for r in res.classify), sum(r['KO'] for r in res.classify)
            if sok > overall[0] or sko > overall[1] or (missing == 0 and (sok, sko) != overall):
                ctx.oracle_failure(f'by {by_labels}: {sok} successes / {sko} failures over the rows, the overall test '
                                   f'summary has {overall[0]} / {overall[1]} ({missing} results lack a label) :: {case}',
                                   case, key='bylabels-vs-overall')
    # the summaries never write into the dictionaries the caller gave as labels
    for dic, items in CALLER_LABELS:
        if list(dic.items()) != items:
            ctx.oracle_failure(f'a labels dictionary given by the caller was modified: {items} -> {dict(dic)} '
                               f':: {case}', case, key='caller-labels-modified')
            break
    if case.get('share_labels'):
        ctx.count('collections_with_shared_labels_objects')
    return nontrivial


# ---------------------------------------------------------------------------
# small-scope exhaustive stream

def exh_collections(max_tasks, max_total, junk_total):
    '''all collections of <= max_tasks tasks, each without a "result" key or with <= 2 results,
    <= max_total results in total; a result = verdict x label a in (absent, p, q) x label b in (absent, p, q);
    plus, for the collections with <= junk_total results, one non-test item at every position'''
    import itertools
    results = [(v, la, lb) for v in (True, False) for la in (None, 'p', 'q') for lb in (None, 'p', 'q')]

    def shapes(ntasks, budget):
        if ntasks == 0:
            yield ()
            return
        for n in (None, 0, 1, 2):
            if (n or 0) <= budget:
                for rest in shapes(ntasks - 1, budget - (n or 0)):
                    yield (n,) + rest

    for ntasks in range(max_tasks + 1):
        for shape in shapes(ntasks, max_total):
            total = sum(n or 0 for n in shape)
            for combo in itertools.product(results, repeat=total):
                tasks, k = [], 0
                for t, n in enumerate(shape):
                    if n is None:
                        tasks.append([f't{t}', 'DONE', None])
                        continue
                    items = []
                    for _ in range(n):
                        verdict, la, lb = combo[k]
                        labels = [[key, val] for key, val in (('a', la), ('b', lb)) if val is not None]
                        items.append(['fake', verdict, f'r{k % 2}', labels])
                        k += 1
                    tasks.append([f't{t}', 'DONE', items])
                yield tasks
                if total <= junk_total:
                    for t, task in enumerate(tasks):
                        if task[2] is None:
                            continue
                        for pos in range(len(task[2]) + 1):
                            variant = [list(x) for x in tasks]
                            variant[t][2] = task[2][:pos] + [['junk', 'str']] + task[2][pos:]
                            yield variant


def exh_selections(maxlen, keys):
    import itertools
    for n in range(1, maxlen + 1):
        for sel in itertools.permutations(keys, n):
            yield list(sel)


def run_exhaustive(ctx, shards):
    quick = ctx.tier == 'quick'
    max_tasks, max_total, junk_total = (2, 2, 1) if quick else (3, 2, 1)
    selections = list(exh_selections(2, ['a', 'b'])) if quick else \
        list(exh_selections(3, ['a', 'b', '_result']))
    groups = []
    ncoll = 0
    for tasks in exh_collections(max_tasks, max_total, junk_total):
        ncoll += 1
        case = {'exhaustive': True, 'tasks': tasks, 'by_labels': selections, 'share_labels': ncoll % 2 == 0}
        steps = []
        run_impl(ctx, case, steps)
        tests = [st for st in steps if st[1] == 'tests']
        if not tests:
            continue
        ztests, cls, verdict = tests[0][3]
        sels = clist([f'({st[3][0]}, {st[3][1]})' for st in steps if st[1] == 'bylabels'])
        groups.append((case, f'({ztests}, {cls}, {verdict}, {sels})'))
    # every sequence of <= 3 task statuses for the task summary
    import itertools
    tsteps = []
    nstat = 0
    for n in range(4):
        for seq in itertools.product(STATUSES, repeat=n):
            nstat += 1
            names = ODD_TASK_NAMES[nstat % 7:] + ODD_TASK_NAMES       # names with dots / helper suffixes, rotating
            case = {'exhaustive': True, 'tasks': [[names[k], st, None] for k, st in enumerate(seq)], 'by_labels': []}
            steps = []
            run_impl(ctx, case, steps)
            tsteps += [st for st in steps if st[1] == 'tasks']
    # every pattern of null / non-null classes over the status enums (2^5 for tasks, 2^4 for test outcomes),
    # with one to three items per non-null class, in two interleavings: the counted summary as rendered
    npat = 0
    for mask in range(32):
        present = [st for k, st in enumerate(STATUSES) if mask >> k & 1]
        for variant in range(2):
            npat += 1
            tasks = [[f'task.{st.lower()}{j}', st, None] for k, st in enumerate(present)
                     for j in range(1 + (k + variant + mask) % 3)]
            if variant:
                tasks.reverse()
            steps = []
            run_impl(ctx, {'exhaustive': True, 'tasks': tasks, 'by_labels': []}, steps)
            tsteps += [st for st in steps if st[1] == 'tasks']
    for mask in range(16):
        for variant in range(2):
            npat += 1
            tasks = []
            for k, oc in enumerate(OUTCOMES):
                if not mask >> k & 1:
                    continue
                for j in range(1 + (k + variant + mask) % 3):
                    if oc == 'MISSING':
                        tasks.append([f'm{j}', 'DONE', None])
                    elif oc == 'NOT_A_TEST':
                        tasks.append([f'j{j}', 'DONE', [['junk', 'str']]])
                    else:
                        tasks.append([f't{k}{j}', 'DONE', [['fake', oc == 'SUCCESS', f'r{k}{j}', None]]])
            if variant:
                tasks.reverse()
            steps = []
            run_impl(ctx, {'exhaustive': True, 'tasks': tasks, 'by_labels': []}, steps)
            tsteps += [(st[0], 'tasks', st[2]) for st in steps if st[1] == 'tests']
    ctx.count('exhaustive_null_patterns', npat)
    size = 160
    for k in range(0, len(groups), size):
        chunk = groups[k:k + size]
        shards.append(('exh', chunk,
                       'Definition cases : list (list (Z * option (list zitem18)) * list (nat * list zentry) * bool\n'
                       '   * list (list Z * res (list (row pv) * nat * list bool * bool * nat))) :=\n '
                       + clist([g[1] for g in chunk]).replace('; ([(', ';\n ([(')
                       + '.\nEval vm_compute in bad_indices (map check_exh cases).'))
    shards.append(('exh', [(st[0], st[2]) for st in tsteps],
                   'Definition cases : list zcase :=\n ' + clist([st[2] for st in tsteps]).replace('; (Z', ';\n (Z')
                   + '.\nEval vm_compute in bad_indices (map check_case cases).'))
    ctx.count('exhaustive_collections', ncoll)
    ctx.count('exhaustive_status_sequences', nstat)
    ctx.extra['exhaustive'] = True
    ctx.extra['exhaustive_bound'] = (
        f'all collections of <= {max_tasks} tasks, each without a "result" key or with <= 2 results, <= {max_total} '
        f'results in total, a result = verdict (ok, ko) x label a (absent, p, q) x label b (absent, p, q), plus one '
        f'non-test item at every position of every collection with <= {junk_total} result: {ncoll} collections, '
        f'each with the test summary and ALL {len(selections)} label selections of length 1..'
        f'{2 if quick else 3} over {"a, b" if quick else "a, b, _result"}; all {nstat} sequences of <= 3 task '
        f'statuses for the task summary; all 2^5 / 2^4 patterns of null and non-null classes (two interleavings) for the '
        f'rendered counts; every evaluation checked by brute-force counting and by the model')
    ctx.rule += '; EXHAUSTIVE: ' + ctx.extra['exhaustive_bound']
    return ncoll


# ---------------------------------------------------------------------------
# histories: several task_stats() / close_dependency_graph() calls in one process over overlapping task sets

_SUMMARY = [0]


def gen_history(rng):
    ntasks = rng.randint(2, 7)
    names = rng.sample(ODD_TASK_NAMES[:-1] + [f'task{k}' for k in range(8)], ntasks)
    graph = []
    for k in range(ntasks):
        lower = list(range(k))
        deps = rng.sample(lower, min(len(lower), rng.choice([0, 0, 1, 1, 2])))
        soft = [d for d in rng.sample(lower, min(len(lower), rng.choice([0, 0, 1]))) if d not in deps]
        status = 'DONE' if rng.random() < 0.55 else rng.choice(STATUSES)
        graph.append([names[k], status, deps, soft])
    calls = []
    prev = None
    for _ in range(rng.randint(2, 5)):
        r = rng.random()
        if prev is None or r < 0.3:
            sel = sorted(rng.sample(range(ntasks), rng.randint(1, ntasks)))
        elif r < 0.55:
            sel = list(prev)                                            # the same tasks again
        elif r < 0.8:
            sel = sorted(set(prev) | set(rng.sample(range(ntasks), rng.randint(1, ntasks))))      # a superset
        else:
            sel = sorted(rng.sample(prev, rng.randint(1, len(prev))))  # a subset
        calls.append([rng.choice(['stats', 'stats', 'stats', 'closure']), sel])
        prev = sel
    return {'history': True, 'graph': graph, 'calls': calls}


def run_history(ctx, case, steps):
    from valjean.cosette.task import TaskStatus, close_dependency_graph
    from valjean.cosette.pythontask import PythonTask
    from valjean.cosette.env import Env
    from valjean.config import Config
    from valjean.gavroche.diagnostics.stats import task_stats

    def noop():
        return {}, TaskStatus.DONE

    tasks = []
    for name, _status, deps, soft in case['graph']:
        tasks.append(PythonTask(name, noop, deps=[tasks[d] for d in deps], soft_deps=[tasks[d] for d in soft]))
    status = {name: st for name, st, _, _ in case['graph']}
    config = Config()
    codes = Codes(status)
    for ncall, (kind, sel) in enumerate(case['calls']):
        # the closure, computed here: breadth-first over hard and soft dependencies
        todo, closure = list(sel), []
        while todo:
            k = todo.pop(0)
            if k not in closure:
                closure.append(k)
                todo += case['graph'][k][2] + case['graph'][k][3]
        want_names = sorted(case['graph'][k][0] for k in closure)
        ctx.count('history_' + kind)
        if kind == 'closure':
            try:
                got = sorted(t.name for t in close_dependency_graph([tasks[k] for k in sel]))
            except Exception as exc:  # noqa
                got = type(exc).__name__
            if got != want_names:
                ctx.oracle_failure(f'call {ncall}: close_dependency_graph gives {got}, the tasks and their '
                                   f'dependencies are {want_names} :: {case}', case, key='history-closure')
            continue
        _SUMMARY[0] += 1
        env = Env({name: {'status': TaskStatus[st]} for name, st in status.items()})
        try:
            stats = task_stats(name=f'summary{_SUMMARY[0]}', tasks=[tasks[k] for k in sel])
            for task in (next(iter(stats.depends_on)), stats):
                update, _ = task.do(env=env, config=config)
                env.apply(update)
            res = env[stats.name]['result'][0]
            classify = {st.name: sorted(str(nf.name) for nf in lst) for st, lst in res.classify.items()}
            verdict = bool(res)
        except Exception as exc:  # noqa
            ctx.oracle_failure(f'call {ncall}: task_stats raises {type(exc).__name__}: {str(exc)[:100]} :: {case}',
                               case, key='history-raises-' + type(exc).__name__)
            continue
        want = {}
        for name in want_names:
            want.setdefault(status[name], []).append(name)
        if {k: v for k, v in classify.items() if v} != want:
            ctx.oracle_failure(f'call {ncall} (after {case["calls"][:ncall]}): task_stats over {sorted(sel)} lists '
                               f'{classify}, the tasks and their dependencies ended as {want} :: {case}', case,
                               key='history-task-classes')
        if verdict != all(status[name] == 'DONE' for name in want_names):
            ctx.oracle_failure(f'call {ncall}: the task summary is {verdict}, the observed tasks ended as {want} '
                               f':: {case}', case, key='history-task-verdict')
        # the same evaluation through the model, on the task environments in the order the summary saw them
        observed = [(tn, tr['status'].name) for tn, tr in res.test.task_results]
        ts = clist([f'({cz(codes.val(tn))}, {cn(STATUSES.index(st))})' for tn, st in observed])
        cls = clist([f'({cn(STATUSES.index(st.name))}, {clist([cz(codes.val(str(nf.name))) for nf in lst])})'
                     for st, lst in res.classify.items()])
        steps.append((case, 'tasks', f'(ZTasks {ts} {cls} {cb(verdict)})', None))
        check_rendering(ctx, case, res, 'tasks', [(status[name], name) for name in want_names])


def run(ctx):
    common.import_repo()
    COUNT_STEPS.clear()
    ctx.rule = ('random collections of 0-15 task results (repeated task names, every status, with/without a '
                '"result" list of 0-4 items: real TestMetadata results, stub results with a dictated verdict, '
                'non-TestResult items) with label dicts over 4 keys (missing labels, 1/1.0/True values, '
                'reserved names) and 3 label selections of length 1-3 (incl. absent / reserved labels); '
                'non-trivial = some summary has at least two classes / rows; distinct by case content')
    rng = ctx.rng
    cases = [json.loads(json.dumps(c)) for c in CORPUS]
    nrand = 400 if ctx.tier == "quick" else 8000
    cases += [gen_case(rng) for _ in range(nrand)]
    steps = []
    for case in cases:
        nontrivial = run_impl(ctx, case, steps)
        ctx.case_seen(case, nontrivial, sample_every=499)
    shard_size = 250
    shards = []
    for k in range(0, len(steps), shard_size):
        chunk = steps[k:k + shard_size]
        shards.append(('rand', chunk,
                       'Definition cases : list zcase :=\n ' + clist([s[2] for s in chunk]).replace('; (Z', ';\n (Z')
                       + '.\nEval vm_compute in bad_indices (map check_case cases).'))
    evaluations = ctx.evaluations
    hsteps = []
    for _ in range(120 if ctx.tier == 'quick' else 4000):
        run_history(ctx, gen_history(rng), hsteps)
    for k in range(0, len(hsteps), shard_size):
        chunk = hsteps[k:k + shard_size]
        shards.append(('rand', chunk,
                       'Definition cases : list zcase :=\n ' + clist([s[2] for s in chunk]).replace('; (Z', ';\n (Z')
                       + '.\nEval vm_compute in bad_indices (map check_case cases).'))
    ctx.extra['history_summaries_compared'] = len(hsteps)
    run_exhaustive(ctx, shards)
    for k in range(0, len(COUNT_STEPS), 400):
        chunk = COUNT_STEPS[k:k + 400]
        shards.append(('counts', chunk,
                       'Definition cases : list (nat * nat * list (nat * list Z) * list (nat * nat)) :=\n '
                       + clist([c[1] for c in chunk]).replace('; (', ';\n (')
                       + '.\nEval vm_compute in bad_indices (map check_counts cases).'))
    ctx.extra['rendered_counts_compared'] = len(COUNT_STEPS)
    outs = common.coq_eval(ctx.pid, IMPORTS, [sh[2] for sh in shards])
    for (tag, chunk, _), out in zip(shards, outs):
        for i in common.parse_nat_list(out):
            step = chunk[i]
            if tag == 'counts':
                ctx.mismatch(f'classification_counts: model and implementation differ on {step[1][:300]}',
                             {'case': step[0], 'coq': step[1]})
            elif tag == 'rand':
                ctx.mismatch(f'{step[1]} statistics: model and implementation differ on {step[2][:400]}',
                             {'case': step[0], 'kind': step[1], 'coq': step[2]})
            else:
                ctx.mismatch(f'exhaustive stream: model and implementation differ on {step[1][:400]}',
                             {'case': step[0], 'coq': step[1]})
    ctx.extra['exhaustive_model_cases'] = sum(len(sh[1]) for sh in shards if sh[0] == 'exh')
    ctx.extra['model_steps_compared'] = len(steps)
    ctx.assumptions = ['brute-force counting over Python lists (== on label tuples) is the ground truth',
                       'label values are mutually comparable per label (the implementation sorts the rows)',
                       'by_labels is never empty (the implementation raises IndexError on ())']


def replay(ctx, path):
    common.import_repo()
    data = json.load(open(path))
    case = data['case']
    if isinstance(case, dict) and 'case' in case:
        case = case['case']
    steps = []
    run_impl(ctx, case, steps)
    print('case:', json.dumps(case))
    for step in steps:
        print('impl:', step[1], step[2][:600])
    body = ('Definition cases : list zcase :=\n ' + clist([s[2] for s in steps])
            + '.\nEval vm_compute in bad_indices (map check_case cases).')
    print('model disagrees on steps:', common.coq_eval(ctx.pid, IMPORTS, [body])[0])
    for v in ctx.violations:
        print('oracle:', v[1][:600])
    return 0
